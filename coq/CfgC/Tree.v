(** Config trees, list-index keys and the pure (sharing-free) node editor
    used by the C14 specification.  Model file: definitions only.

    Ported from src/rime/config/config_data.cc (IsListItemReference,
    ResolveListIndex, SplitPath, TypeCheckedCopyOnWrite, TraverseCopyOnWrite),
    config_types.cc (ConfigList::SetAt/Insert/GetAt, ConfigMap::Set/Get) and
    config_compiler.cc (EditNode, MergeTree, AppendToString, AppendToList). *)
From Coq Require Import List NArith Arith Bool.
From Coq.Strings Require Import Byte.
From Coq.Strings Require String.
Import String.StringSyntax.
Open Scope string_scope.
From RimeV Require Import Base.Bytes CfgC.Str.
Import ListNotations.

(** compiled trees; [Map] is kept sorted by key (std::map) by [sset] *)
Inductive item :=
| Null
| Scalar (s : str)
| Lst (l : list item)
| Map (m : list (str * item)).

(** parsed YAML documents: maps keep *document order* *)
Inductive ydoc :=
| YNull
| YScalar (s : str)
| YSeq (l : list ydoc)
| YMap (m : list (str * ydoc)).

Definition docs := list (str * ydoc).

(* string constants (computed once; extraction sees plain byte lists) *)
Definition s_include : str := Eval vm_compute in bs "__include".
Definition s_patch : str := Eval vm_compute in bs "__patch".
Definition s_append : str := Eval vm_compute in bs "__append".
Definition s_merge : str := Eval vm_compute in bs "__merge".
Definition s_add : str := Eval vm_compute in bs "/+".
Definition s_equ : str := Eval vm_compute in bs "/=".
Definition s_slash : str := Eval vm_compute in bs "/".
Definition s_next : str := Eval vm_compute in bs "next".
Definition s_before : str := Eval vm_compute in bs "before".
Definition s_after : str := Eval vm_compute in bs "after".
Definition s_last : str := Eval vm_compute in bs "last".
Definition s_yaml : str := Eval vm_compute in bs ".yaml".
Definition s_custom : str := Eval vm_compute in bs ".custom".
Definition s_schema : str := Eval vm_compute in bs ".schema".
Definition s_patchkey : str := Eval vm_compute in bs "patch".
Definition s_default : str := Eval vm_compute in bs "default".
Definition s_menu : str := Eval vm_compute in bs "menu".
Definition s_key_binder : str := Eval vm_compute in bs "key_binder".
Definition s_punctuator : str := Eval vm_compute in bs "punctuator".
Definition s_recognizer : str := Eval vm_compute in bs "recognizer".
Definition s_import_preset : str := Eval vm_compute in bs "import_preset".
Definition s_bindings : str := Eval vm_compute in bs "bindings".
Definition s_bindings_add : str := Eval vm_compute in bs "bindings/+".
Definition s_build_info : str := Eval vm_compute in bs "__build_info".
Definition c_slash : byte := "/"%byte.
Definition c_at : byte := "@"%byte.
Definition c_colon : byte := ":"%byte.
Definition c_quest : byte := "?"%byte.
Definition c_space : byte := " "%byte.

Definition is_null (v : item) : bool := match v with Null => true | _ => false end.
Definition is_scalar (v : item) : bool := match v with Scalar _ => true | _ => false end.
Definition is_list (v : item) : bool := match v with Lst _ => true | _ => false end.
Definition is_map (v : item) : bool := match v with Map _ => true | _ => false end.
(* ConfigItem::empty() of a non-null item *)
Definition item_empty (v : item) : bool :=
  match v with Null => true | Scalar s => match s with [] => true | _ => false end
             | Lst l => match l with [] => true | _ => false end
             | Map m => match m with [] => true | _ => false end end.

(** ConfigData::IsListItemReference *)
Definition is_list_ref (key : str) : bool :=
  match key with
  | a :: b :: _ => beqb a c_at && is_alnum b
  | _ => false
  end.

(** ConfigData::ResolveListIndex on a list of [size] elements:
    (index, will_insert).  Precondition of the callers: [is_list_ref key]. *)
Definition resolve_index (size : nat) (key : str) : nat * bool :=
  let rest := tl key in
  let '(rest1, index0, ins) :=
    if starts_with rest s_next then (skipn 4 rest, size, false)
    else if starts_with rest s_before then (skipn 6 rest, 0, true)
    else if starts_with rest s_after then (skipn 5 rest, 1, true)
    else (rest, 0, false) in
  let rest2 := match rest1 with c :: r => if beqb c c_space then r else rest1 | [] => [] end in
  if starts_with rest2 s_last then
    let i := index0 + size in ((if i =? 0 then 0 else i - 1), ins)
  else (index0 + strtoul rest2, ins).

(* ConfigList *)
Definition list_get {A} (d : A) (l : list A) (i : nat) : A := nth i l d.
Definition list_set_at {A} (d : A) (l : list A) (i : nat) (v : A) : list A :=
  if i <? length l then firstn i l ++ v :: skipn (S i) l
  else l ++ repeat d (i - length l) ++ [v].
Definition list_insert {A} (d : A) (l : list A) (i : nat) (v : A) : list A :=
  if length l <? i then l ++ repeat d (i - length l) ++ [v]
  else firstn i l ++ v :: skipn i l.

(** ConfigCowRef::GetItem: read the child named [k] of the current value *)
Definition read_child (cur : item) (k : str) : item :=
  if is_list_ref k then
    match cur with Lst l => list_get Null l (fst (resolve_index (length l) k)) | _ => Null end
  else
    match cur with Map m => match alookup k m with Some v => v | None => Null end | _ => Null end.

(** ConfigCowRef::SetItem on an unshared value: copy (or create) the
    container of the kind the key asks for, then Write *)
Definition write_child (cur : item) (k : str) (v : item) : item :=
  if is_list_ref k then
    let l := match cur with Lst l => l | _ => [] end in
    let '(i, ins) := resolve_index (length l) k in
    let l1 := if ins then list_insert Null l i Null else l in
    Lst (list_set_at Null l1 i v)
  else
    let m := match cur with Map m => m | _ => [] end in
    Map (sset k v m).

Fixpoint read_keys (cur : item) (ks : list str) : item :=
  match ks with [] => cur | k :: ks' => read_keys (read_child cur k) ks' end.
Fixpoint write_keys (cur : item) (ks : list str) (v : item) : item :=
  match ks with
  | [] => v
  | k :: ks' => write_child cur k (write_keys (read_child cur k) ks' v)
  end.

(** ConfigData::SplitPath *)
Definition split_path (p : str) : list str := split_on c_slash (trim_left c_slash p) [].

(** TypeCheckedCopyOnWrite: extend the target path by one key *)
Definition type_checked (top : item) (path : list str) (k : str) : option (list str) :=
  match k with
  | [] => Some path
  | _ =>
    let cur := read_keys top path in
    let okk := match cur with
               | Null => true
               | Lst _ => is_list_ref k
               | Map _ => negb (is_list_ref k)
               | Scalar _ => false
               end in
    if okk then Some (path ++ [k]) else None
  end.
Fixpoint type_checked_all (top : item) (path : list str) (ks : list str) : option (list str) :=
  match ks with
  | [] => Some path
  | k :: ks' => match type_checked top path k with
                | Some p' => type_checked_all top p' ks'
                | None => None
                end
  end.
(** TraverseCopyOnWrite *)
Definition traverse_cow (top : item) (path : list str) (p : str) : option (list str) :=
  if match p with [] => true | _ => str_eqb p s_slash end then Some path
  else type_checked_all top path (split_path p).

Definition is_appending (key : str) : bool := str_eqb key s_append || ends_with key s_add.
Definition is_merging (key : str) (value : item) (mt : bool) : bool :=
  str_eqb key s_merge || ends_with key s_add ||
  (mt && (is_null value || is_map value) && negb (ends_with key s_equ)).
Definition strip_operator (key : str) (adding : bool) : str :=
  if str_eqb key s_append || str_eqb key s_merge then []
  else erase_last key (if adding then s_add else s_equ).

(* the loop of MergeTree, parameterised by the editor of one entry *)
Section MergeLoop.
  Variable ed : str -> item -> item -> item * bool.
  Fixpoint merge_loop (m : list (str * item)) (top : item) : item * bool :=
    match m with
    | [] => (top, true)
    | (k, v) :: m' =>
        let '(top', ok) := ed k v top in
        if ok then merge_loop m' top' else (top', false)
    end.
End MergeLoop.

(** EditNode / MergeTree / AppendTo* on an unshared tree.  [top] is the value
    held by the dependency's target slot, [path] the keys from it down to the
    node that plays "head".  Result: new [top] and the success flag; effects of
    the entries before a failing one are kept, as in the code. *)
Fixpoint edit_node (value : item) (top : item) (path : list str) (key : str) (mt : bool)
  {struct value} : item * bool :=
  let appending := is_appending key in
  let merging := is_merging key value mt in
  let p := strip_operator key (appending || merging) in
  match (if mt then type_checked top path p else traverse_cow top path p) with
  | None => (top, false)
  | Some tp =>
    let tv := read_keys top tp in
    if (appending || merging) && negb (is_null tv) then
      match value with
      | Null => (top, true)
      | Scalar s =>
          if appending then
            match tv with
            | Scalar t => (write_keys top tp (Scalar (t ++ s)), true)
            | _ => (top, false)
            end
          else (top, false)
      | Lst vl =>
          if appending then
            match tv with
            | Lst tl => (match vl with [] => top | _ => write_keys top tp (Lst (tl ++ vl)) end, true)
            | _ => if item_empty tv then (write_keys top tp (Lst vl), true) else (top, false)
            end
          else (top, false)
      | Map vm =>
          if merging then merge_loop (fun k v top => edit_node v top tp k true) vm top
          else (top, false)
      end
    else (write_keys top tp value, true)
  end.

Definition merge_tree (m : list (str * item)) (top : item) (path : list str) : item * bool :=
  merge_loop (fun k v top => edit_node v top path k true) m top.

(** PatchLiteral::Resolve: every entry is attempted *)
Fixpoint patch_literal (m : list (str * item)) (top : item) : item * bool :=
  match m with
  | [] => (top, true)
  | (k, v) :: m' =>
      let '(top', ok) := edit_node v top [] k false in
      let '(top'', ok') := patch_literal m' top' in
      (top'', ok && ok')
  end.

(** IncludeReference::Resolve once the referenced node is known *)
Definition include_over (included : item) (cur : item) : item * bool :=
  match cur with
  | Map (e :: m) => merge_tree (e :: m) included []
  | _ => (included, true)
  end.

Fixpoint item_eqb (a b : item) {struct a} : bool :=
  match a, b with
  | Null, Null => true
  | Scalar s, Scalar t => str_eqb s t
  | Lst l, Lst l' =>
      (fix go (l : list item) (l' : list item) : bool :=
         match l, l' with
         | [], [] => true
         | x :: r, y :: r' => item_eqb x y && go r r'
         | _, _ => false
         end) l l'
  | Map m, Map m' =>
      (fix go (m : list (str * item)) (m' : list (str * item)) : bool :=
         match m, m' with
         | [], [] => true
         | (k, x) :: r, (k', y) :: r' => str_eqb k k' && item_eqb x y && go r r'
         | _, _ => false
         end) m m'
  | _, _ => false
  end.
