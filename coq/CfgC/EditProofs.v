(** C14: algebra of the pure node editor ([write_keys], [edit_node]). *)
From Coq Require Import List Arith Bool Lia.
From Coq.Strings Require Import Byte.
From RimeV Require Import Base.Bytes CfgC.Str CfgC.Tree CfgC.Spec CfgC.Impl CfgC.ImplFacts
  CfgC.DepsProofs CfgC.TermProofs.
Import ListNotations.

Lemma str_eqb_false_ne a b : a <> b -> str_eqb a b = false.
Proof.
  intros H. destruct (str_eqb a b) eqn:E; [|reflexivity]. apply str_eqb_eq in E. contradiction.
Qed.
Lemma str_eqb_sym a b : str_eqb a b = str_eqb b a.
Proof.
  destruct (str_eqb a b) eqn:E.
  - apply str_eqb_eq in E. subst. now rewrite str_eqb_refl.
  - destruct (str_eqb b a) eqn:E'; [|reflexivity]. apply str_eqb_eq in E'. subst.
    now rewrite str_eqb_refl in E.
Qed.

(** ** sorted insertion read through [alookup] *)
Lemma alookup_sset_same {A} k (v : A) m : alookup k (sset k v m) = Some v.
Proof.
  induction m as [|[k' v'] m IH]; cbn.
  - now rewrite str_eqb_refl.
  - destruct (str_eqb k k') eqn:E; cbn; [now rewrite str_eqb_refl|].
    destruct (str_ltb k k'); cbn; [now rewrite str_eqb_refl|]. now rewrite E.
Qed.

Lemma alookup_sset_other {A} k k0 (v : A) m : k0 <> k -> alookup k0 (sset k v m) = alookup k0 m.
Proof.
  intros H. induction m as [|[k' v'] m IH]; cbn.
  - now rewrite (str_eqb_false_ne k0 k H).
  - destruct (str_eqb k k') eqn:E; cbn.
    + apply str_eqb_eq in E. subst k'. now rewrite (str_eqb_false_ne k0 k H).
    + destruct (str_ltb k k'); cbn.
      * now rewrite (str_eqb_false_ne k0 k H).
      * destruct (str_eqb k0 k'); [reflexivity|exact IH].
Qed.

Lemma sset_sset_same {A} k (v w : A) m : sset k w (sset k v m) = sset k w m.
Proof.
  induction m as [|[k' v'] m IH]; cbn.
  - now rewrite str_eqb_refl.
  - destruct (str_eqb k k') eqn:E; cbn; [now rewrite str_eqb_refl|].
    destruct (str_ltb k k') eqn:L; cbn; [now rewrite str_eqb_refl|]. now rewrite E, L, IH.
Qed.

(** ** lists *)
Lemma nth_list_set_at {A} (d : A) l i v : nth i (list_set_at d l i v) d = v.
Proof.
  unfold list_set_at. destruct (i <? length l) eqn:E.
  - apply Nat.ltb_lt in E. rewrite app_nth2; rewrite firstn_length_le by lia; [|lia].
    now rewrite Nat.sub_diag.
  - apply Nat.ltb_ge in E. rewrite app_nth2 by lia. rewrite app_nth2; rewrite repeat_length; [|lia].
    replace (i - length l - (i - length l)) with 0 by lia. reflexivity.
Qed.

Lemma list_set_at_twice {A} (d : A) l i v w :
  list_set_at d (list_set_at d l i v) i w = list_set_at d l i w.
Proof.
  unfold list_set_at. destruct (i <? length l) eqn:E.
  - apply Nat.ltb_lt in E.
    assert (Hl : length (firstn i l ++ v :: skipn (S i) l) = length l).
    { rewrite app_length, firstn_length_le by lia. cbn [length]. rewrite skipn_length. lia. }
    rewrite Hl. rewrite (proj2 (Nat.ltb_lt _ _) E).
    rewrite firstn_app, firstn_length_le by lia. rewrite Nat.sub_diag. cbn [firstn].
    rewrite firstn_firstn, Nat.min_id, app_nil_r. f_equal. f_equal.
    rewrite skipn_app, firstn_length_le by lia.
    rewrite skipn_all2 by (rewrite firstn_length_le; lia). cbn [app].
    replace (S i - i) with 1 by lia. reflexivity.
  - apply Nat.ltb_ge in E.
    assert (Hl : length (l ++ repeat d (i - length l) ++ [v]) = S i).
    { rewrite !app_length, repeat_length. cbn [length]. lia. }
    rewrite Hl. rewrite (proj2 (Nat.ltb_lt i (S i)) ltac:(lia)).
    rewrite app_assoc. rewrite firstn_app.
    assert (Hl2 : length (l ++ repeat d (i - length l)) = i) by (rewrite app_length, repeat_length; lia).
    rewrite Hl2, Nat.sub_diag. cbn [firstn]. rewrite app_nil_r.
    rewrite firstn_all2 by lia. rewrite <- app_assoc. f_equal. f_equal.
    rewrite skipn_all2; [reflexivity|]. rewrite app_length. cbn. lia.
Qed.

(** the list-index forms that insert: [@before i] / [@after i-1] on a list
    that is long enough put the value in front of the old element [i] *)
Lemma write_child_insert l k i v :
  is_list_ref k = true -> resolve_index (length l) k = (i, true) -> i <= length l ->
  write_child (Lst l) k v = Lst (firstn i l ++ v :: skipn i l).
Proof.
  intros Hk Hr Hi. unfold write_child. rewrite Hk, Hr.
  unfold list_insert. rewrite (proj2 (Nat.ltb_ge _ _) Hi).
  unfold list_set_at.
  assert (Hl : length (firstn i l ++ Null :: skipn i l) = S (length l)).
  { rewrite app_length, firstn_length_le by lia. cbn [length]. rewrite skipn_length. lia. }
  rewrite Hl. rewrite (proj2 (Nat.ltb_lt i (S (length l))) ltac:(lia)).
  rewrite firstn_app, firstn_length_le by lia. rewrite Nat.sub_diag. cbn [firstn].
  rewrite firstn_firstn, Nat.min_id, app_nil_r.
  rewrite skipn_app, firstn_length_le by lia.
  rewrite skipn_all2 by (rewrite firstn_length_le; lia). cbn [app].
  replace (S i - i) with 1 by lia. reflexivity.
Qed.

(** ** keys that denote the same place whatever the container's size *)
Definition stable_key (k : str) : Prop :=
  is_list_ref k = false \/ (is_list_ref k = true /\ exists i, forall n, resolve_index n k = (i, false)).

Lemma read_write_child k cur v : stable_key k -> read_child (write_child cur k v) k = v.
Proof.
  intros [Hk|[Hk [i Hi]]]; unfold read_child, write_child; rewrite Hk.
  - now rewrite alookup_sset_same.
  - rewrite Hi. cbn [fst]. rewrite Hi. cbn [fst]. unfold list_get. apply nth_list_set_at.
Qed.

Lemma write_write_child k cur v w : stable_key k ->
  write_child (write_child cur k v) k w = write_child cur k w.
Proof.
  intros [Hk|[Hk [i Hi]]]; unfold write_child; rewrite Hk.
  - now rewrite sset_sset_same.
  - rewrite !Hi. f_equal. apply list_set_at_twice.
Qed.

(** set, then get *)
Theorem set_then_get : forall ks top v,
  Forall stable_key ks -> read_keys (write_keys top ks v) ks = v.
Proof.
  induction ks as [|k ks IH]; intros top v H; cbn [read_keys write_keys]; [reflexivity|].
  inversion H; subst. rewrite read_write_child by assumption. now apply IH.
Qed.

(** the later write wins *)
Theorem set_then_set : forall ks top v w,
  Forall stable_key ks -> write_keys (write_keys top ks v) ks w = write_keys top ks w.
Proof.
  induction ks as [|k ks IH]; intros top v w H; cbn [write_keys]; [reflexivity|].
  inversion H; subst. rewrite read_write_child by assumption.
  rewrite IH by assumption. now apply write_write_child.
Qed.

(** ** appending twice is appending the concatenation *)
Lemma edit_append_list path top tl vl mt :
  read_keys top path = Lst tl ->
  edit_node (Lst vl) top path s_append mt =
  (match vl with [] => top | _ => write_keys top path (Lst (tl ++ vl)) end, true).
Proof.
  intros Hr. cbn [edit_node].
  assert (A : is_appending s_append = true) by reflexivity.
  assert (P : strip_operator s_append (is_appending s_append || is_merging s_append (Lst vl) mt) = []) by reflexivity.
  rewrite P, A. cbn [orb].
  assert (T : (if mt then type_checked top path [] else traverse_cow top path []) = Some path)
    by (destruct mt; reflexivity).
  rewrite T, Hr. reflexivity.
Qed.

Theorem append_assoc path top tl l1 l2 mt :
  Forall stable_key path -> read_keys top path = Lst tl ->
  edit_node (Lst l2) (fst (edit_node (Lst l1) top path s_append mt)) path s_append mt =
  edit_node (Lst (l1 ++ l2)) top path s_append mt.
Proof.
  intros Hs Hr. rewrite (edit_append_list path top tl l1 mt Hr). cbn [fst].
  destruct l1 as [|x l1].
  - cbn [app]. reflexivity.
  - rewrite (edit_append_list path _ (tl ++ x :: l1) l2 mt) by (now apply set_then_get).
    rewrite (edit_append_list path top tl ((x :: l1) ++ l2) mt Hr).
    destruct l2 as [|y l2].
    + now rewrite app_nil_r.
    + rewrite set_then_set by assumption. cbn [app]. now rewrite <- app_assoc.
Qed.

Lemma edit_append_string path top t s mt :
  read_keys top path = Scalar t ->
  edit_node (Scalar s) top path s_append mt = (write_keys top path (Scalar (t ++ s)), true).
Proof.
  intros Hr. cbn [edit_node].
  assert (A : is_appending s_append = true) by reflexivity.
  assert (P : strip_operator s_append (is_appending s_append || is_merging s_append (Scalar s) mt) = []) by reflexivity.
  rewrite P, A. cbn [orb].
  assert (T : (if mt then type_checked top path [] else traverse_cow top path []) = Some path)
    by (destruct mt; reflexivity).
  rewrite T, Hr. reflexivity.
Qed.

Theorem append_assoc_string path top t s1 s2 mt :
  Forall stable_key path -> read_keys top path = Scalar t ->
  edit_node (Scalar s2) (fst (edit_node (Scalar s1) top path s_append mt)) path s_append mt =
  edit_node (Scalar (s1 ++ s2)) top path s_append mt.
Proof.
  intros Hs Hr. rewrite (edit_append_string path top t s1 mt Hr). cbn [fst].
  rewrite (edit_append_string path _ (t ++ s1) s2 mt) by (now apply set_then_get).
  rewrite (edit_append_string path top t (s1 ++ s2) mt Hr).
  rewrite set_then_set by assumption. now rewrite <- app_assoc.
Qed.

(** ** merging a tree of plain entries is idempotent (read through the keys) *)
Definition no_slash (k : str) : Prop := ~ In c_slash k.

Lemma starts_with_second_slash s c1 : starts_with s [c1; c_slash] = true -> In c_slash s.
Proof.
  destruct s as [|a [|b r]]; cbn; try discriminate.
  - now rewrite andb_false_r.
  - intros H. apply andb_true_iff in H. destruct H as [_ H].
    apply andb_true_iff in H. destruct H as [H _]. apply beqb_eq in H. subst. right. now left.
Qed.

Lemma no_slash_ends_with k c1 : no_slash k -> ends_with k [c_slash; c1] = false.
Proof.
  intros H. unfold ends_with. cbn [rev app].
  destruct (starts_with (rev k) [c1; c_slash]) eqn:E; [|reflexivity].
  apply starts_with_second_slash in E. apply in_rev in E. contradiction.
Qed.

Lemma erase_first_none s c1 : ~ In c_slash s -> erase_first s [c1; c_slash] = s.
Proof.
  induction s as [|x s IH]; intros H; cbn [erase_first]; [reflexivity|].
  destruct (starts_with (x :: s) [c1; c_slash]) eqn:E.
  - apply starts_with_second_slash in E. contradiction.
  - f_equal. apply IH. intros Hin. apply H. now right.
Qed.

Lemma no_slash_erase_last k c1 : no_slash k -> erase_last k [c_slash; c1] = k.
Proof.
  intros H. unfold erase_last. cbn [rev app].
  rewrite erase_first_none; [apply rev_involutive|]. intros Hin. apply in_rev in Hin. contradiction.
Qed.

Lemma no_slash_add k : no_slash k -> ends_with k s_add = false.
Proof. exact (no_slash_ends_with k "+"%byte). Qed.
Lemma no_slash_equ k : no_slash k -> ends_with k s_equ = false.
Proof. exact (no_slash_ends_with k "="%byte). Qed.
Lemma no_slash_erase_add k : no_slash k -> erase_last k s_add = k.
Proof. exact (no_slash_erase_last k "+"%byte). Qed.
Lemma no_slash_erase_equ k : no_slash k -> erase_last k s_equ = k.
Proof. exact (no_slash_erase_last k "="%byte). Qed.

Definition plain_key (k : str) : Prop :=
  k <> [] /\ is_list_ref k = false /\ no_slash k /\ k <> s_append /\ k <> s_merge.

(* a plain scalar/list entry merged into a map simply binds the key *)
Lemma edit_plain_entry k v m :
  plain_key k -> is_null v = false -> is_map v = false ->
  edit_node v (Map m) [] k true = (Map (sset k v m), true).
Proof.
  intros (Hne & Hl & Hs & Ha & Hm) Hn Hmap.
  assert (A : is_appending k = false).
  { unfold is_appending. rewrite (str_eqb_false_ne _ _ Ha). now rewrite (no_slash_add k Hs). }
  assert (Mg : is_merging k v true = false).
  { unfold is_merging. rewrite (str_eqb_false_ne _ _ Hm), (no_slash_add k Hs), Hn, Hmap. reflexivity. }
  assert (P : strip_operator k false = k).
  { unfold strip_operator. rewrite (str_eqb_false_ne _ _ Ha), (str_eqb_false_ne _ _ Hm). cbn [orb].
    now apply (no_slash_erase_equ k). }
  destruct v as [|s|l|vm]; try discriminate; cbn [edit_node]; rewrite A, Mg; cbn [orb]; rewrite P;
    unfold type_checked; destruct k as [|c k]; try congruence; cbn [read_keys];
    rewrite Hl; cbn [negb andb app read_keys write_keys];
    unfold write_child; rewrite Hl; reflexivity.
Qed.

Definition plain_entries (vm : list (str * item)) : Prop :=
  Forall (fun e => plain_key (fst e) /\ is_null (snd e) = false /\ is_map (snd e) = false) vm.

Lemma merge_plain vm : forall m,
  plain_entries vm ->
  merge_tree vm (Map m) [] = (Map (fold_left (fun acc e => sset (fst e) (snd e) acc) vm m), true).
Proof.
  unfold merge_tree. induction vm as [|[k v] vm IH]; intros m H; cbn [merge_loop fold_left]; [reflexivity|].
  inversion H as [|? ? Hh Hr]; subst. destruct Hh as (Hk & Hn & Hm). cbn [fst snd] in *.
  rewrite (edit_plain_entry k v m Hk Hn Hm). now apply IH.
Qed.

Lemma alookup_fold_sset (vm : list (str * item)) : forall m k0,
  alookup k0 (fold_left (fun acc e => sset (fst e) (snd e) acc) vm m) =
  match alookup_last k0 vm with Some v => Some v | None => alookup k0 m end.
Proof.
  induction vm as [|[k v] vm IH]; intros m k0; cbn [fold_left alookup_last]; [reflexivity|].
  rewrite IH. cbn [fst snd].
  destruct (alookup_last k0 vm); [reflexivity|].
  destruct (str_eqb k0 k) eqn:E.
  - apply str_eqb_eq in E. subst. apply alookup_sset_same.
  - apply alookup_sset_other. intros ->. now rewrite str_eqb_refl in E.
Qed.

(** merging the same plain entries a second time changes no binding *)
Theorem merge_idem vm m :
  plain_entries vm ->
  exists m1 m2,
    merge_tree vm (Map m) [] = (Map m1, true) /\
    merge_tree vm (Map m1) [] = (Map m2, true) /\
    forall k, alookup k m2 = alookup k m1.
Proof.
  intros H. eexists. eexists.
  split; [apply (merge_plain vm m H)|]. split; [apply (merge_plain vm _ H)|].
  intros k. rewrite !alookup_fold_sset. destruct (alookup_last k vm); reflexivity.
Qed.
