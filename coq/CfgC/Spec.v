(** C14 specification: the compiled value of a document, by a pure,
    sharing-free, demand-driven interpreter.

    [spec_node] is the property's right-hand side: the children of a node are
    compiled first, every [__include] is replaced by (a copy of) the compiled
    referenced node with the local sibling keys merged over it, then every
    [__patch] entry (and, at the root, the automatic [<name>.custom:/patch?])
    is applied in order with [edit_node].  A reference is looked up in the
    *compiled* value of the referenced document; evaluation is by need and
    records in [f_cyc] whether it had to re-enter a node that is being
    compiled (that is the definition of "cyclic"), and in [f_err] whether a
    non-optional reference was missing / an edit was ill-typed / a directive
    was ill-formed.  The equality claim of C14 is about runs with all flags
    clear.  Model file: definitions only. *)
From Coq Require Import List NArith Arith Bool.
From Coq.Strings Require Import Byte.
From RimeV Require Import Base.Bytes CfgC.Str CfgC.Tree.
Import ListNotations.

Record flags := { f_err : bool; f_cyc : bool; f_oof : bool }.
Definition fl0 := {| f_err := false; f_cyc := false; f_oof := false |}.
Definition fl_err := {| f_err := true; f_cyc := false; f_oof := false |}.
Definition fl_cyc := {| f_err := false; f_cyc := true; f_oof := false |}.
Definition fl_oof := {| f_err := false; f_cyc := false; f_oof := true |}.
Definition fl_or (a b : flags) :=
  {| f_err := f_err a || f_err b; f_cyc := f_cyc a || f_cyc b; f_oof := f_oof a || f_oof b |}.
Definition fl_clear (a : flags) : bool := negb (f_err a || f_cyc a || f_oof a).
Definition fl_of_ok (ok : bool) : flags := if ok then fl0 else fl_err.

Record reference := { r_res : str; r_path : str; r_opt : bool }.

(** ResourceResolver::ToResourceId for the type {"config", "", ".yaml"} *)
Definition to_resource_id (s : str) : str := remove_suffix s s_yaml.

(** ConfigCompiler::CreateReference *)
Definition create_reference (cur : str) (q : str) : reference :=
  let e := find_last c_quest q in
  let sep := find_first c_colon q in
  let rid := match sep with
             | None => cur
             | Some 0 => cur
             | Some s => substr q 0 s
             end in
  let lp := match sep with
            | None => match e with Some i => substr q 0 i | None => q end
            | Some s =>
                match e with
                | Some i => if i <? s then skipn (S s) q else substr q (S s) (i - s - 1)
                | None => skipn (S s) q
                end
            end in
  {| r_res := to_resource_id rid; r_path := lp;
     r_opt := match e with Some _ => true | None => false end |}.

Definition custom_id (res : str) : str := remove_suffix res s_schema ++ s_custom.
Definition auto_patch_ref (res : str) : reference :=
  {| r_res := custom_id res; r_path := s_patchkey; r_opt := true |}.

Definition idx_key (i : nat) : str := c_at :: fmt_nat i.

Fixpoint is_prefix (p q : list str) : bool :=
  match p, q with
  | [], _ => true
  | x :: p', y :: q' => str_eqb x y && is_prefix p' q'
  | _ :: _, [] => false
  end.

Definition visiting := list (str * list str).
(* compiling (res, path) would re-enter a node under compilation *)
Definition cyclic_at (vis : visiting) (res : str) (path : list str) : bool :=
  existsb (fun e => str_eqb (fst e) res && is_prefix path (snd e)) vis.

Fixpoint alookup_last {A} (k : str) (m : list (str * A)) : option A :=
  match m with
  | [] => None
  | (k', v) :: m' =>
      match alookup_last k m' with
      | Some w => Some w
      | None => if str_eqb k k' then Some v else None
      end
  end.

(** directives *)
Inductive sdir :=
| SInc (r : reference)
| SPatRef (r : reference)
| SPatLit (m : list (str * item)).

(* ParsePatch on an already converted value *)
Definition parse_patch_item (res : str) (v : item) : option sdir :=
  match v with
  | Scalar s => Some (SPatRef (create_reference res s))
  | Map pm => Some (SPatLit pm)
  | _ => None
  end.
(* ParseList(ParsePatch): the dependencies added, and whether Parse returned true *)
Fixpoint parse_patch_list (res : str) (l : list item) : list sdir * bool :=
  match l with
  | [] => ([], true)
  | v :: r => match parse_patch_item res v with
              | Some d => let '(ds, ok) := parse_patch_list res r in (d :: ds, ok)
              | None => ([], false)
              end
  end.
Definition parse_patch (res : str) (v : item) : list sdir * bool :=
  match v with
  | Lst l => parse_patch_list res l
  | _ => match parse_patch_item res v with Some d => ([d], true) | None => ([], false) end
  end.

(* one converted map entry: (includes, patches, consumed?) *)
Definition parse_entry (res : str) (k : str) (v : item) : list sdir * list sdir * bool :=
  if str_eqb k s_include then
    match v with
    | Scalar s => ([SInc (create_reference res s)], [], true)
    | _ => ([], [], false)
    end
  else if str_eqb k s_patch then
    let '(ds, ok) := parse_patch res v in ([], ds, ok)
  else ([], [], false).

(* the same decision on the source, without compiling: does the node get a
   dependency of its own (include or patch)? *)
Definition y_patch_item_ok (y : ydoc) : bool :=
  match y with YScalar _ => true | YMap _ => true | _ => false end.
Definition y_entry_blocking (k : str) (v : ydoc) : bool :=
  if str_eqb k s_include then match v with YScalar _ => true | _ => false end
  else if str_eqb k s_patch then
    match v with
    | YSeq (e :: _) => y_patch_item_ok e
    | YSeq [] => false
    | _ => y_patch_item_ok v
    end
  else false.
Definition y_entry_consumed (k : str) (v : ydoc) : bool :=
  if str_eqb k s_include then match v with YScalar _ => true | _ => false end
  else if str_eqb k s_patch then
    match v with
    | YSeq l => forallb y_patch_item_ok l
    | _ => y_patch_item_ok v
    end
  else false.
Definition has_root_patch (y : ydoc) : bool :=
  match y with
  | YMap m => existsb (fun e => str_eqb (fst e) s_patch && y_entry_blocking (fst e) (snd e)) m
  | _ => false
  end.
(* AutoPatchConfigPlugin::ReviewCompileOutput adds the automatic patch *)
Definition auto_patched (res : str) (y : ydoc) : bool :=
  negb (ends_with res s_custom) && negb (has_root_patch y).
(* A node "blocks" references that pass through it when it has a directive of
   its own.  The automatic root patch counts only when the .custom document
   exists (otherwise it is vacuous: the reference is optional). *)
Definition y_blocking (ds : docs) (res : str) (path : list str) (y : ydoc) : bool :=
  (match path with
   | [] => auto_patched res y && match alookup (custom_id res) ds with Some _ => true | None => false end
   | _ => false end) ||
  match y with
  | YMap m => existsb (fun e => y_entry_blocking (fst e) (snd e)) m
  | _ => false
  end.

(** read-only descent through a compiled value (the tail of GetResolvedItem) *)
Fixpoint item_lookup (v : item) (ks : list str) : item :=
  match ks with
  | [] => v
  | k :: ks' =>
      match v with
      | Lst l => if is_list_ref k
                 then item_lookup (list_get Null l (fst (resolve_index (length l) k))) ks'
                 else Null
      | Map m => item_lookup (match alookup k m with Some c => c | None => Null end) ks'
      | _ => Null
      end
  end.

Definition ref_keys (p : str) : list str :=
  if match p with [] => true | _ => str_eqb p s_slash end then [] else split_path p.

Section WithRec.
  (* compile the node [y] found at (res, path) *)
  Variable rec : visiting -> str -> list str -> ydoc -> item * flags.
  Variable ds : docs.

  (** find the compiled value at [ks] below the source node [y] at (res, path) *)
  Fixpoint walk (vis : visiting) (res : str) (path : list str) (y : ydoc) (ks : list str)
    {struct ks} : item * flags :=
    match ks with
    | [] => if cyclic_at vis res path then (Null, fl_cyc) else rec vis res path y
    | k :: ks' =>
        if y_blocking ds res path y then
          if cyclic_at vis res path then (Null, fl_cyc)
          else let '(v, fl) := rec vis res path y in (item_lookup v ks, fl)
        else
          match y with
          | YMap m =>
              match alookup_last k m with
              | Some c => if y_entry_consumed k c then (Null, fl0)
                          else walk vis res (path ++ [k]) c ks'
              | None => (Null, fl0)
              end
          | YSeq l =>
              if is_list_ref k then
                let i := fst (resolve_index (length l) k) in
                match nth_error l i with
                | Some c => walk vis res (path ++ [idx_key i]) c ks'
                | None => (Null, fl0)
                end
              else (Null, fl0)
          | _ => (Null, fl0)
          end
    end.

  Definition lookup_ref (vis : visiting) (r : reference) : item * flags :=
    match alookup (r_res r) ds with
    | None => (Null, fl0)
    | Some y => walk vis (r_res r) [] y (ref_keys (r_path r))
    end.

  (* apply the include directives, then the patch directives *)
  Fixpoint apply_dirs (vis : visiting) (dirs : list sdir) (cur : item) : item * flags :=
    match dirs with
    | [] => (cur, fl0)
    | d :: rest =>
        let '(cur1, f1) :=
          match d with
          | SInc r =>
              let '(v, f) := lookup_ref vis r in
              match v with
              | Null => (cur, fl_or f (fl_of_ok (r_opt r)))
              | _ => let '(c, ok) := include_over v cur in (c, fl_or f (fl_of_ok ok))
              end
          | SPatRef r =>
              let '(v, f) := lookup_ref vis r in
              match v with
              | Null => (cur, fl_or f (fl_of_ok (r_opt r)))
              | Map pm => let '(c, ok) := patch_literal pm cur in (c, fl_or f (fl_of_ok ok))
              | _ => (cur, fl_or f fl_err)
              end
          | SPatLit pm => let '(c, ok) := patch_literal pm cur in (c, fl_of_ok ok)
          end in
        let '(cur2, f2) := apply_dirs vis rest cur1 in
        (cur2, fl_or f1 f2)
    end.
End WithRec.

Fixpoint plain_map (es : list (str * item * bool)) (acc : list (str * item)) : list (str * item) :=
  match es with
  | [] => acc
  | (k, v, consumed) :: r => plain_map r (if consumed then acc else sset k v acc)
  end.

Section Children.
  (* compile the child found at a path *)
  Variable comp : list str -> ydoc -> item * flags.
  Fixpoint seq_children (path : list str) (l : list ydoc) (i : nat) : list item * flags :=
    match l with
    | [] => ([], fl0)
    | c :: r => let '(v, f1) := comp (path ++ [idx_key i]) c in
                let '(vs, f2) := seq_children path r (S i) in (v :: vs, fl_or f1 f2)
    end.
  (* children first: convert every value, then let Parse look at it *)
  Fixpoint map_children (res : str) (path : list str) (m : list (str * ydoc))
    : list (str * item * bool) * list sdir * list sdir * flags :=
    match m with
    | [] => ([], [], [], fl0)
    | (k, c) :: r =>
        let '(v, f1) := comp (path ++ [k]) c in
        let '(i1, p1, consumed) := parse_entry res k v in
        let bad := (str_eqb k s_patch && negb consumed && negb (is_null v)) in
        let '(es, i2, p2, f2) := map_children res path r in
        ((k, v, consumed) :: es, i1 ++ i2, p1 ++ p2,
         fl_or (fl_or f1 f2) (fl_of_ok (negb bad)))
    end.
End Children.

Definition auto_dirs (res : str) (path : list str) (y : ydoc) : list sdir :=
  match path with
  | [] => if auto_patched res y then [SPatRef (auto_patch_ref res)] else []
  | _ => []
  end.

Fixpoint spec_node (ds : docs) (fuel : nat) : visiting -> str -> list str -> ydoc -> item * flags :=
  match fuel with
  | 0 => fun _ _ _ _ => (Null, fl_oof)
  | S f =>
    fix go (vis : visiting) (res : str) (path : list str) (y : ydoc) {struct y} : item * flags :=
      match y with
      | YNull => (Null, fl0)
      | YScalar s => (Scalar s, fl0)
      | YSeq l =>
          let vis' := (res, path) :: vis in
          let '(vs, fl) := seq_children (fun p c => go vis' res p c) path l 0 in
          (Lst vs, fl)
      | YMap m =>
          let vis' := (res, path) :: vis in
          let '(es, incs, pats, fl1) := map_children (fun p c => go vis' res p c) res path m in
          let cur := Map (plain_map es []) in
          let '(v, fl2) := apply_dirs (spec_node ds f) ds vis' (incs ++ pats ++ auto_dirs res path y) cur in
          (v, fl_or fl1 fl2)
      end
  end.

(** link-time plugins on the target resource (DefaultConfigPlugin,
    LegacyPresetConfigPlugin), after the root was compiled *)
Definition spec_include_at (ds : docs) (fuel : nat) (root : item) (key : str) (r : reference)
  : item * flags * bool :=
  let '(v, f) := lookup_ref (spec_node ds fuel) ds [] r in
  match v with
  | Null => (root, f, r_opt r)
  | _ => let '(c, ok) := include_over v (read_child root key) in
         (write_child root key c, fl_or f (fl_of_ok ok), ok)
  end.

(* ConfigData::Traverse on a pure value *)
Fixpoint traverse (v : item) (ks : list str) : item :=
  match ks with
  | [] => v
  | k :: ks' =>
      if is_list_ref k then
        match v with Lst l => traverse (list_get Null l (fst (resolve_index (length l) k))) ks' | _ => Null end
      else
        match v with Map m => traverse (match alookup k m with Some c => c | None => Null end) ks' | _ => Null end
  end.

Definition preset_step (ds : docs) (fuel : nat) (section : str) (kb : bool)
  (st : item * flags * bool) : item * flags * bool :=
  let '(root, fl, ok) := st in
  if negb ok then st else
  match traverse root [section; s_import_preset] with
  | Null => st
  | Scalar pid =>
      let root1 :=
        if kb then
          match read_child root section with
          | Map km =>
              match alookup s_bindings km with
              | Some Null | None => root
              | Some b => write_child root section (Map (sset s_bindings Null (sset s_bindings_add b km)))
              end
          | _ => root
          end
        else root in
      let '(root2, f, ok2) :=
        spec_include_at ds fuel root1 section {| r_res := pid; r_path := section; r_opt := false |} in
      (root2, fl_or fl (fl_or f (fl_of_ok ok2)), ok2)
  | _ => (root, fl_or fl fl_err, false)
  end.

(** [spec_link ds fuel name] = (loaded?, compiled tree, flags, link succeeded?) *)
Definition spec_link (ds : docs) (fuel : nat) (name : str) : bool * item * flags * bool :=
  let name := to_resource_id name in
  match alookup name ds with
  | None => (false, Null, fl0, false)
  | Some y =>
      let '(root, fl) := spec_node ds fuel [] name [] y in
      if f_err fl || f_cyc fl || f_oof fl then (true, root, fl, false)
      else if negb (ends_with name s_schema) then (true, root, fl, true)
      else
        let '(r1, f1, ok1) :=
          spec_include_at ds fuel root s_menu {| r_res := s_default; r_path := s_menu; r_opt := true |} in
        let st1 := (r1, fl_or fl f1, ok1) in
        let st2 := preset_step ds fuel s_key_binder true st1 in
        let st3 := preset_step ds fuel s_punctuator false st2 in
        let '(r4, f4, ok4) := preset_step ds fuel s_recognizer false st3 in
        (true, r4, f4, ok4)
  end.

(** the property's right-hand side *)
Definition compile_spec (ds : docs) (fuel : nat) (name : str) : item :=
  let '(_, v, _, _) := spec_link ds fuel name in v.
