(** C14: basic facts about the heap model: memory operations (references,
    the node editor) never touch the dependency graph, the resolve chain or
    the out-of-fuel flag. *)
From Coq Require Import List Arith Bool Lia.
From RimeV Require Import CfgC.Str CfgC.Tree CfgC.Spec CfgC.Impl.
Import ListNotations.

(** same graph: dependencies, chain and resolve-fuel flag unchanged *)
Definition sg (st st' : state) : Prop :=
  st_deps st' = st_deps st /\ st_chain st' = st_chain st /\ st_oof st' = st_oof st.

Lemma sg_refl st : sg st st. Proof. now repeat split. Qed.
Lemma sg_trans a b c : sg a b -> sg b c -> sg a c.
Proof. unfold sg. intros (?&?&?) (?&?&?). repeat split; congruence. Qed.

Lemma sg_with_heap st h : sg st (with_heap st h). Proof. now repeat split. Qed.
Lemma sg_with_res st r : sg st (with_res st r). Proof. now repeat split. Qed.
Lemma sg_set_woof st : sg st (set_woof st). Proof. now repeat split. Qed.
Lemma sg_set_ub st : sg st (set_ub st). Proof. now repeat split. Qed.
Lemma sg_alloc st n : sg st (snd (alloc st n)). Proof. now repeat split. Qed.
Lemma sg_set_root st id p : sg st (set_root st id p).
Proof. unfold set_root. destruct (alookup id (st_res st)); [apply sg_with_res|apply sg_refl]. Qed.

Lemma sg_cow_write st b a k v : sg st (cow_write st b a k v).
Proof.
  unfold cow_write. destruct (hget (st_heap st) a) as [[s|l|m]|].
  - apply sg_set_ub.
  - destruct (resolve_index (length l) k) as [i ins]. apply sg_with_heap.
  - apply sg_with_heap.
  - apply sg_set_ub.
Qed.

Lemma sg_heap_map_set st a k v : sg st (heap_map_set st a k v).
Proof.
  unfold heap_map_set. destruct (hget (st_heap st) a) as [[s|l|m]|];
    first [apply sg_with_heap | apply sg_set_ub].
Qed.
Lemma sg_heap_list_append st a v : sg st (heap_list_append st a v).
Proof.
  unfold heap_list_append. destruct (hget (st_heap st) a) as [[s|l|m]|];
    first [apply sg_with_heap | apply sg_set_ub].
Qed.

Lemma sg_set_item r : forall st v, sg st (fst (set_item st r v)).
Proof.
  induction r as [id|a k|a i|isl p IH k copied]; intros st v; cbn [set_item fst].
  - apply sg_set_root.
  - destruct (hget (st_heap st) a) as [[s|l|m]|]; first [apply sg_with_heap | apply sg_set_ub].
  - destruct (hget (st_heap st) a) as [[s|l|m]|]; first [apply sg_with_heap | apply sg_set_ub].
  - destruct copied as [ca|]; [cbn [fst]; apply sg_cow_write|].
    set (cont := if isl then _ else _).
    match goal with |- context[alloc st ?n] => set (node := n) end.
    destruct (alloc st node) as [a' st1] eqn:Ea.
    specialize (IH st1 (Some a')).
    destruct (set_item st1 p (Some a')) as [st2 p'] eqn:Es. cbn [fst] in *.
    eapply sg_trans; [|apply sg_cow_write].
    eapply sg_trans; [|exact IH].
    pose proof (sg_alloc st node) as H. now rewrite Ea in H.
Qed.

(* tactic: peel one state-producing step *)
Ltac sg_step :=
  match goal with
  | |- sg ?s ?s => apply sg_refl
  | |- sg _ (set_woof _) => eapply sg_trans; [|apply sg_set_woof]
  | |- sg _ (set_ub _) => eapply sg_trans; [|apply sg_set_ub]
  end.

Lemma sg_edit_node_h wf :
  forall st head key value mt, sg st (snd (fst (edit_node_h wf st head key value mt))).
Proof.
  induction wf as [|wf IH]; intros st head key value mt.
  - cbn. apply sg_set_woof.
  - cbn [edit_node_h].
    set (target_opt := if mt then _ else _).
    destruct target_opt as [target|]; [|cbn; apply sg_refl].
    destruct (get_item st target) as [ta|].
    2:{ destruct (set_item st target value) as [st1 t'] eqn:E. cbn.
        pose proof (sg_set_item target st value) as H. now rewrite E in H. }
    match goal with |- context[if ?c then _ else _] => destruct c end.
    2:{ destruct (set_item st target value) as [st1 t'] eqn:E. cbn.
        pose proof (sg_set_item target st value) as H. now rewrite E in H. }
    destruct value as [va|]; [|cbn; apply sg_refl].
    destruct (hget (st_heap st) va) as [[s|vl|vm]|]; [| | |cbn; apply sg_set_ub].
    + (* scalar *)
      destruct (is_appending key); [|cbn; apply sg_refl].
      destruct (hget (st_heap st) ta) as [[t|tl|tm]|]; try (cbn; apply sg_refl).
      destruct (alloc st (HScalar (t ++ s))) as [a' st1] eqn:Ea.
      destruct (set_item st1 target (Some a')) as [st2 t'] eqn:Es. cbn.
      pose proof (sg_alloc st (HScalar (t ++ s))) as H1. rewrite Ea in H1.
      pose proof (sg_set_item target st1 (Some a')) as H2. rewrite Es in H2.
      eapply sg_trans; eassumption.
    + (* list *)
      destruct (is_appending key); [|cbn; apply sg_refl].
      destruct (hget (st_heap st) ta) as [[t|tl|tm]|]; try (cbn; apply sg_set_ub).
      * destruct (node_empty (HScalar t)); [|cbn; apply sg_refl].
        destruct (alloc st (HList vl)) as [a0 st1] eqn:Ea.
        destruct (set_item st1 target (Some a0)) as [st2 t1] eqn:Es. cbn.
        pose proof (sg_alloc st (HList vl)) as H1. rewrite Ea in H1.
        pose proof (sg_set_item target st1 (Some a0)) as H2. rewrite Es in H2. cbn [fst snd] in *.
        eapply sg_trans; eassumption.
      * destruct vl as [|x vl]; [cbn; apply sg_refl|].
        destruct (alloc st (HList (tl ++ x :: vl))) as [a' st1] eqn:Ea.
        destruct (set_item st1 target (Some a')) as [st2 t'] eqn:Es. cbn.
        pose proof (sg_alloc st (HList (tl ++ x :: vl))) as H1. rewrite Ea in H1.
        pose proof (sg_set_item target st1 (Some a')) as H2. rewrite Es in H2.
        eapply sg_trans; eassumption.
      * destruct (node_empty (HMap tm)); [|cbn; apply sg_refl].
        destruct (alloc st (HList vl)) as [a0 st1] eqn:Ea.
        destruct (set_item st1 target (Some a0)) as [st2 t1] eqn:Es. cbn.
        pose proof (sg_alloc st (HList vl)) as H1. rewrite Ea in H1.
        pose proof (sg_set_item target st1 (Some a0)) as H2. rewrite Es in H2. cbn [fst snd] in *.
        eapply sg_trans; eassumption.
    + (* map: the merge loop *)
      match goal with |- context[if ?c then _ else _] => destruct c end; [|cbn; apply sg_refl].
      assert (G : forall m s t, sg s (snd (fst (merge_loop_h (fun s t k v => edit_node_h wf s t k v true) m s t)))).
      { induction m as [|[k v] m IHm]; intros s t; cbn [merge_loop_h]; [apply sg_refl|].
        specialize (IH s t k v true).
        destruct (edit_node_h wf s t k v true) as [[ok s1] t1]. cbn [fst snd] in IH.
        destruct ok; [|exact IH].
        eapply sg_trans; [exact IH|apply IHm]. }
      specialize (G vm st target).
      destruct (merge_loop_h _ vm st target) as [[ok s'] t']. exact G.
Qed.

Lemma sg_merge_tree_h wf m : forall st tgt, sg st (snd (fst (merge_tree_h wf m st tgt))).
Proof.
  unfold merge_tree_h.
  induction m as [|[k v] m IH]; intros st tgt; cbn [merge_loop_h]; [apply sg_refl|].
  pose proof (sg_edit_node_h wf st tgt k v true) as H.
  destruct (edit_node_h wf st tgt k v true) as [[ok s1] t1]. cbn [fst snd] in H.
  destruct ok; [|exact H]. eapply sg_trans; [exact H|apply IH].
Qed.

Lemma sg_patch_literal_h wf m : forall st tgt, sg st (snd (fst (patch_literal_h wf m st tgt))).
Proof.
  induction m as [|[k v] m IH]; intros st tgt; cbn; [apply sg_refl|].
  pose proof (sg_edit_node_h wf st tgt k v false) as H.
  destruct (edit_node_h wf st tgt k v false) as [[ok s1] t1]. cbn [fst snd] in H.
  specialize (IH s1 t1). destruct (patch_literal_h wf m s1 t1) as [[ok' s2] t2]. cbn [fst snd] in *.
  eapply sg_trans; eassumption.
Qed.

Lemma sg_include_h wf st target inc : sg st (snd (fst (include_h wf st target inc))).
Proof.
  unfold include_h.
  pose proof (sg_set_item target st inc) as H.
  destruct (set_item st target inc) as [st1 t1]. cbn [fst] in H.
  destruct (as_map st (get_item st target)) as [[a [|e m]]|]; cbn [fst snd]; try exact H.
  eapply sg_trans; [exact H|apply sg_merge_tree_h].
Qed.
