(** C14: ResolveDependencies terminates on every document set, cyclic ones
    included.  The resolve chain is duplicate-free and only holds paths that
    carry dependencies; these all belong to a finite, statically known list
    [AP] of paths, so the nesting of ResolveDependencies is bounded by
    [length AP]. *)
From Coq Require Import List Arith Bool Lia.
From Coq.Strings Require Import Byte.
From RimeV Require Import Base.Bytes CfgC.Str CfgC.Tree CfgC.Spec CfgC.Impl CfgC.ImplFacts CfgC.DepsProofs.
Import ListNotations.

(** * strings and association lists *)
Lemma beqb_eq a b : beqb a b = true -> a = b.
Proof. unfold beqb. apply Byte.byte_dec_bl. Qed.

Lemma str_eqb_eq a : forall b, str_eqb a b = true -> a = b.
Proof.
  induction a as [|x a IH]; intros [|y b] H; cbn in H; try discriminate; [reflexivity|].
  apply andb_true_iff in H. destruct H as [H1 H2]. f_equal; [now apply beqb_eq|now apply IH].
Qed.

Lemma alookup_In {A} k (m : list (str * A)) v : alookup k m = Some v -> In (k, v) m.
Proof.
  induction m as [|[k' v'] m IH]; cbn; [discriminate|].
  destruct (str_eqb k k') eqn:E.
  - intros H. inversion H; subst. apply str_eqb_eq in E. subst. now left.
  - intros H. right. now apply IH.
Qed.

Lemma In_aset {A} k (v : A) m p w : In (p, w) (aset k v m) -> (p, w) = (k, v) \/ In (p, w) m.
Proof.
  induction m as [|[k' v'] m IH]; cbn.
  - intros [H|[]]. left. now symmetry.
  - destruct (str_eqb k k') eqn:E; cbn.
    + intros [H|H]; [left; now symmetry|right; now right].
    + intros [H|H]; [right; now left|]. destruct (IH H) as [G|G]; [now left|right; now right].
Qed.

Lemma In_fst_aset {A} k (v : A) m p : In p (map fst (aset k v m)) -> p = k \/ In p (map fst m).
Proof.
  intros H. apply in_map_iff in H. destruct H as [[p' w] [E H]]. cbn in E. subst p'.
  apply In_aset in H. destruct H as [H|H].
  - inversion H. now left.
  - right. apply in_map_iff. now exists (p, w).
Qed.

Lemma In_insert_by_priority l d x : In x (insert_by_priority l d) -> x = d \/ In x l.
Proof.
  induction l as [|y l IH]; cbn [insert_by_priority].
  - intros [H|[]]. now left.
  - destruct (priority d <? priority y).
    + intros [H|H]; [now left|now right].
    + intros [H|H]; [right; now left|]. destruct (IH H); [now left|right; now right].
Qed.

(** * the static universe of paths *)
Section NodePaths.
  Variable np : ydoc -> list str -> list str.
  Fixpoint seq_paths (l : list ydoc) (i : nat) (ks : list str) : list str :=
    match l with
    | [] => []
    | c :: r => np c (idx_key i :: ks) ++ seq_paths r (S i) ks
    end.
  Fixpoint map_paths (m : list (str * ydoc)) (ks : list str) : list str :=
    match m with
    | [] => []
    | (k, c) :: r => np c (k :: ks) ++ map_paths r ks
    end.
End NodePaths.

(* the path of every node of [y], when [y] sits under the key stack [ks] (innermost first) *)
Fixpoint node_paths (y : ydoc) (ks : list str) : list str :=
  join_path (rev ks) ::
  match y with
  | YSeq l => seq_paths (fun c => node_paths c) l 0 ks
  | YMap m => map_paths (fun c => node_paths c) m ks
  | _ => []
  end.

Section Scalars.
  Variable sc : ydoc -> list str.
  Fixpoint seq_scalars (l : list ydoc) : list str :=
    match l with [] => [] | c :: r => sc c ++ seq_scalars r end.
  Fixpoint map_scalars (m : list (str * ydoc)) : list str :=
    match m with [] => [] | (_, c) :: r => sc c ++ map_scalars r end.
End Scalars.
Fixpoint scalars (y : ydoc) : list str :=
  match y with
  | YNull => []
  | YScalar s => [s]
  | YSeq l => seq_scalars (fun c => scalars c) l
  | YMap m => map_scalars (fun c => scalars c) m
  end.

Lemma ydoc_ind' (P : ydoc -> Prop) :
  P YNull -> (forall s, P (YScalar s)) ->
  (forall l, Forall P l -> P (YSeq l)) ->
  (forall m, Forall (fun e => P (snd e)) m -> P (YMap m)) ->
  forall y, P y.
Proof.
  intros HN HS HL HM.
  fix IH 1. intros [|s|l|m].
  - exact HN.
  - apply HS.
  - apply HL. induction l as [|c l IHl]; constructor; [apply IH|exact IHl].
  - apply HM. induction m as [|[k c] m IHm]; constructor; [apply IH|exact IHm].
Qed.


(** * heap facts *)
Lemma hset_length h : forall a n, length (hset h a n) = length h.
Proof. induction h as [|x h IH]; intros [|a] n; cbn; auto. Qed.

Lemma hget_hset_same h : forall a n, a < length h -> hget (hset h a n) a = Some n.
Proof.
  unfold hget. induction h as [|x h IH]; intros [|a] n H; cbn in *; try lia; [reflexivity|].
  apply IH. lia.
Qed.
Lemma hget_hset_other h : forall a b n, a <> b -> hget (hset h a n) b = hget h b.
Proof.
  unfold hget. induction h as [|x h IH]; intros [|a] [|b] n H; cbn; try reflexivity; try congruence.
  apply IH. congruence.
Qed.
Lemma hget_Some_lt h a n : hget h a = Some n -> a < length h.
Proof. unfold hget. intros H. apply nth_error_Some. congruence. Qed.
Lemma hget_app_old h n a : a < length h -> hget (h ++ [n]) a = hget h a.
Proof. unfold hget. intros H. now rewrite nth_error_app1. Qed.
Lemma hget_app_new h n : hget (h ++ [n]) (length h) = Some n.
Proof. unfold hget. rewrite nth_error_app2 by lia. now rewrite Nat.sub_diag. Qed.

Lemma Forall_sset {A} (P : str * A -> Prop) k v m :
  P (k, v) -> Forall P m -> Forall P (sset k v m).
Proof.
  intros Hk. induction m as [|[k' v'] m IH]; intros H; cbn.
  - constructor; auto.
  - inversion H; subst.
    destruct (str_eqb k k'); [constructor; auto|].
    destruct (str_ltb k k'); constructor; auto.
Qed.

Definition root_key (id : str) : str := id ++ [c_colon].
Definition cur_of (id : str) : str := trim_right c_colon (root_key id).

Definition ptr_ge (L : nat) (p : ptr) : Prop := match p with Some a => L <= a | None => True end.

Section Term.
  Variable ds : docs.
  Variable wf : nat.
  Variable U : list str.

  Definition doc_paths (id : str) : list str :=
    match alookup id ds with
    | Some y => node_paths y [root_key id]
    | None => [root_key id]
    end.
  Definition AP : list str := flat_map (fun u => doc_paths (to_resource_id u)) U.

  Hypothesis HU_custom : forall u, In u U ->
    ends_with (to_resource_id u) s_custom = false -> In (custom_id (to_resource_id u)) U.
  Hypothesis HU_refs : forall u y, In u U -> alookup (to_resource_id u) ds = Some y ->
    forall s, In s (scalars y) -> In (r_res (create_reference (cur_of (to_resource_id u)) s)) U.

  Definition dep_ok (d : dep) : Prop :=
    match d with
    | DInclude r _ | DPatchRef r _ => In (r_res r) U
    | _ => True
    end.

  Definition ginv (st : state) : Prop :=
    NoDup (st_chain st) /\
    incl (st_chain st) AP /\
    (forall p, In p (map fst (st_deps st)) -> In p AP) /\
    (forall p l d, In (p, l) (st_deps st) -> In d l -> dep_ok d).

  Lemma ginv_sg st st' : sg st st' -> ginv st -> ginv st'.
  Proof.
    intros (Hd & Hc & _) (H1 & H2 & H3 & H4). unfold ginv. rewrite Hd, Hc. auto.
  Qed.

  Lemma deps_at_In st p l : deps_at st p = Some l -> In (p, l) (st_deps st).
  Proof. apply alookup_In. Qed.

  Lemma ginv_add_dep_at st path d :
    ginv st -> In path AP -> dep_ok d -> ginv (add_dep_at st path d).
  Proof.
    intros (H1 & H2 & H3 & H4) Hp Hd. unfold ginv, add_dep_at. cbn.
    repeat split; auto.
    - intros p Hin. apply In_fst_aset in Hin. destruct Hin as [->|Hin]; auto.
    - intros p l x Hin Hx. apply In_aset in Hin. destruct Hin as [E|Hin]; [|eauto].
      inversion E; subst. apply In_insert_by_priority in Hx. destruct Hx as [->|Hx]; [exact Hd|].
      destruct (deps_at st path) as [l0|] eqn:E0; [|destruct Hx].
      eapply H4; [eapply deps_at_In; exact E0|exact Hx].
  Qed.

  Lemma chain_add_dep_at st path d : st_chain (add_dep_at st path d) = st_chain st.
  Proof. reflexivity. Qed.

  (** stacks whose every non-empty tail names a path of the universe *)
  Fixpoint tails_ok (ks : list str) : Prop :=
    match ks with
    | [] => True
    | _ :: r => In (join_path (rev ks)) AP /\ tails_ok r
    end.

  (* "memory and flags as before, graph possibly extended" *)
  Definition gext (st st' : state) : Prop :=
    st_chain st' = st_chain st /\ st_oof st' = st_oof st /\ st_heap st' = st_heap st /\
    st_res st' = st_res st.

  Lemma gext_refl st : gext st st. Proof. now repeat split. Qed.
  Lemma gext_trans a b c : gext a b -> gext b c -> gext a c.
  Proof. unfold gext. intros (?&?&?&?) (?&?&?&?). repeat split; congruence. Qed.
  Lemma gext_add_dep_at st p d : gext st (add_dep_at st p d). Proof. now repeat split. Qed.

  Lemma spread_pending_ok ks : forall st,
    ginv st -> tails_ok ks -> ginv (spread_pending st ks) /\ gext st (spread_pending st ks).
  Proof.
    induction ks as [|k rest IH]; intros st G T; cbn [spread_pending]; [split; [exact G|apply gext_refl]|].
    destruct rest as [|k2 rest']; [split; [exact G|apply gext_refl]|].
    destruct T as [_ T]. pose proof T as [Tp _].
    set (pp := join_path (rev (k2 :: rest'))) in *.
    assert (G1 : ginv (add_dep_at st pp (DPending (pp ++ s_slash ++ k)))).
    { apply ginv_add_dep_at; [exact G|exact Tp|exact I]. }
    destruct (pending_at st pp || (length (k2 :: rest') =? 1)).
    - split; [exact G1|apply gext_add_dep_at].
    - destruct (IH _ G1 T) as [G2 E2]. split; [exact G2|].
      eapply gext_trans; [apply gext_add_dep_at|exact E2].
  Qed.

  Lemma graph_add_ok st ns ks mk :
    ginv st -> ks <> [] -> tails_ok ks -> (forall t, dep_ok (mk t)) ->
    ginv (graph_add st ns ks mk) /\ gext st (graph_add st ns ks mk).
  Proof.
    intros G Hne T Hmk. unfold graph_add. destruct ns as [|t ns]; [split; [exact G|apply gext_refl]|].
    destruct ks as [|k rest]; [congruence|].
    pose proof T as [Tp _].
    assert (G1 : ginv (add_dep_at st (join_path (rev (k :: rest))) (mk t))).
    { apply ginv_add_dep_at; [exact G|exact Tp|apply Hmk]. }
    destruct (pending_at st (join_path (rev (k :: rest))) || (length (k :: rest) =? 1)).
    - split; [exact G1|apply gext_add_dep_at].
    - destruct (spread_pending_ok (k :: rest) _ G1 T) as [G2 E2]. split; [exact G2|].
      eapply gext_trans; [apply gext_add_dep_at|exact E2].
  Qed.
  (** ** parsing a document only adds dependencies at paths of the universe *)
  Definition node_ok (L : nat) (S : list str) (n : hnode) : Prop :=
    match n with
    | HScalar s => In s S
    | HList l => Forall (ptr_ge L) l
    | HMap m => Forall (fun e => ptr_ge L (snd e)) m
    end.
  Definition conv_inv (L : nat) (S : list str) (st : state) : Prop :=
    forall a n, L <= a -> hget (st_heap st) a = Some n -> node_ok L S n.

  Lemma conv_inv_heap_eq L S st st' : st_heap st' = st_heap st -> conv_inv L S st -> conv_inv L S st'.
  Proof. unfold conv_inv. intros E H. now rewrite E. Qed.

  Lemma conv_inv_alloc L S st n :
    conv_inv L S st -> node_ok L S n -> conv_inv L S (snd (alloc st n)).
  Proof.
    intros H Hn a n' Ha Hg. cbn in Hg.
    destruct (Nat.lt_ge_cases a (length (st_heap st))) as [Hlt|Hge].
    - rewrite hget_app_old in Hg by exact Hlt. eapply H; eauto.
    - pose proof (hget_Some_lt _ _ _ Hg) as Hl. rewrite app_length in Hl. cbn in Hl.
      assert (a = length (st_heap st)) by lia. subst a.
      rewrite hget_app_new in Hg. inversion Hg; subst. exact Hn.
  Qed.

  Lemma conv_inv_hset L S st a n :
    conv_inv L S st -> (L <= a -> node_ok L S n) ->
    conv_inv L S (with_heap st (hset (st_heap st) a n)).
  Proof.
    intros H Hn b n' Hb Hg. cbn in Hg.
    destruct (Nat.eq_dec a b) as [->|Hne].
    - pose proof (hget_Some_lt _ _ _ Hg) as Hl. rewrite hset_length in Hl.
      rewrite hget_hset_same in Hg by exact Hl. inversion Hg; subst. now apply Hn.
    - rewrite hget_hset_other in Hg by exact Hne. eapply H; eauto.
  Qed.

  Lemma conv_inv_set_ub L S st : conv_inv L S st -> conv_inv L S (set_ub st).
  Proof. apply conv_inv_heap_eq. reflexivity. Qed.

  Lemma conv_inv_heap_map_set L S st a k v :
    conv_inv L S st -> ptr_ge L v -> conv_inv L S (heap_map_set st a k v).
  Proof.
    intros H Hv. unfold heap_map_set.
    destruct (hget (st_heap st) a) as [[s|l|m]|] eqn:E; try now apply conv_inv_set_ub.
    apply conv_inv_hset; [exact H|]. intros Ha. cbn.
    apply Forall_sset; [exact Hv|]. exact (H a (HMap m) Ha E).
  Qed.

  Lemma conv_inv_heap_list_append L S st a v :
    conv_inv L S st -> ptr_ge L v -> conv_inv L S (heap_list_append st a v).
  Proof.
    intros H Hv. unfold heap_list_append.
    destruct (hget (st_heap st) a) as [[s|l|m]|] eqn:E; try now apply conv_inv_set_ub.
    apply conv_inv_hset; [exact H|]. intros Ha. cbn.
    apply Forall_app. split; [exact (H a (HList l) Ha E)|]. constructor; [exact Hv|constructor].
  Qed.

  Lemma heap_map_set_length st a k v : length (st_heap (heap_map_set st a k v)) = length (st_heap st).
  Proof.
    unfold heap_map_set. destruct (hget (st_heap st) a) as [[s|l|m]|]; cbn; auto using hset_length.
  Qed.
  Lemma heap_list_append_length st a v : length (st_heap (heap_list_append st a v)) = length (st_heap st).
  Proof.
    unfold heap_list_append. destruct (hget (st_heap st) a) as [[s|l|m]|]; cbn; auto using hset_length.
  Qed.

  Definition refs_ok (S : list str) (ks : list str) : Prop :=
    forall s, In s S -> In (r_res (create_reference (current_resource_id ks) s)) U.

  Lemma parse_patch_h_ok L S st ns ks item :
    ginv st -> conv_inv L S st -> ptr_ge L item -> ks <> [] -> tails_ok ks -> refs_ok S ks ->
    ginv (snd (parse_patch_h st ns ks item)) /\ gext st (snd (parse_patch_h st ns ks item)).
  Proof.
    intros G C Hp Hne T R. unfold parse_patch_h.
    destruct item as [a|]; [|split; [exact G|apply gext_refl]].
    destruct (hget (st_heap st) a) as [[s|l|m]|] eqn:E; cbn [snd]; try (split; [exact G|apply gext_refl]).
    - apply graph_add_ok; auto. intros t. cbn. apply R. exact (C a (HScalar s) Hp E).
    - apply graph_add_ok; auto. intros t. exact I.
  Qed.

  Lemma parse_patch_list_h_ok L S ns ks : forall l st,
    ginv st -> conv_inv L S st -> Forall (ptr_ge L) l -> ks <> [] -> tails_ok ks -> refs_ok S ks ->
    ginv (snd (parse_patch_list_h st ns ks l)) /\ gext st (snd (parse_patch_list_h st ns ks l)).
  Proof.
    induction l as [|x l IH]; intros st G C F Hne T R; cbn [parse_patch_list_h].
    - split; [exact G|apply gext_refl].
    - inversion F as [|? ? Fx Fl]; subst.
      destruct (parse_patch_h_ok L S st ns ks x G C Fx Hne T R) as [G1 E1].
      destruct (parse_patch_h st ns ks x) as [ok st1]. cbn [snd] in *.
      destruct ok; [|split; [exact G1|exact E1]].
      assert (C1 : conv_inv L S st1) by (eapply conv_inv_heap_eq; [apply E1|exact C]).
      destruct (IH st1 G1 C1 Fl Hne T R) as [G2 E2]. split; [exact G2|eapply gext_trans; eauto].
  Qed.

  Lemma parse_h_ok L S st ns ks key item :
    ginv st -> conv_inv L S st -> ptr_ge L item -> ks <> [] -> tails_ok ks -> refs_ok S ks ->
    ginv (snd (parse_h st ns ks key item)) /\ gext st (snd (parse_h st ns ks key item)).
  Proof.
    intros G C Hp Hne T R. unfold parse_h.
    destruct (str_eqb key s_include).
    - destruct item as [a|]; cbn [deref]; [|split; [exact G|apply gext_refl]].
      destruct (hget (st_heap st) a) as [[s|l|m]|] eqn:E; cbn [snd]; try (split; [exact G|apply gext_refl]).
      apply graph_add_ok; auto. intros t. cbn. apply R. exact (C a (HScalar s) Hp E).
    - destruct (str_eqb key s_patch); [|split; [exact G|apply gext_refl]].
      destruct (as_list st item) as [[a l]|] eqn:E.
      + apply (parse_patch_list_h_ok L S); auto.
        unfold as_list in E. destruct item as [a'|]; [|discriminate].
        destruct (hget (st_heap st) a') as [[s|l'|m]|] eqn:E'; try discriminate.
        inversion E; subst. exact (C a (HList l) Hp E').
      + apply (parse_patch_h_ok L S); auto.
  Qed.

  Lemma current_resource_id_cons k ks : ks <> [] -> current_resource_id (k :: ks) = current_resource_id ks.
  Proof.
    intros H. unfold current_resource_id. cbn [rev].
    destruct (rev ks) as [|x r] eqn:E; [|reflexivity].
    apply (f_equal (@rev str)) in E. rewrite rev_involutive in E. cbn in E. congruence.
  Qed.

  Definition conv_post (L : nat) (S : list str) (st : state) (r : ptr * state) : Prop :=
    ginv (snd r) /\ conv_inv L S (snd r) /\ length (st_heap st) <= length (st_heap (snd r)) /\
    ptr_ge L (fst r) /\ st_chain (snd r) = st_chain st /\ st_oof (snd r) = st_oof st.

  Definition conv_good (L : nat) (S : list str) (y : ydoc) : Prop :=
    forall ns ks st, incl (scalars y) S -> ginv st -> conv_inv L S st -> L <= length (st_heap st) ->
      ks <> [] -> tails_ok ks -> incl (node_paths y ks) AP -> refs_ok S ks ->
      conv_post L S st (convert y ns ks st).

  Definition loop_post (L : nat) (S : list str) (st st' : state) : Prop :=
    ginv st' /\ conv_inv L S st' /\ length (st_heap st) <= length (st_heap st') /\
    st_chain st' = st_chain st /\ st_oof st' = st_oof st.

  Lemma node_paths_head y ks : In (join_path (rev ks)) (node_paths y ks).
  Proof. destruct y; cbn; now left. Qed.

  Lemma conv_map_ok L S a ns ks : forall m st,
    Forall (fun e => conv_good L S (snd e)) m ->
    incl (map_scalars (fun c => scalars c) m) S ->
    ginv st -> conv_inv L S st -> L <= length (st_heap st) ->
    ks <> [] -> tails_ok ks -> incl (map_paths (fun c => node_paths c) m ks) AP -> refs_ok S ks ->
    loop_post L S st (conv_map (fun c => convert c) a ns ks m st).
  Proof.
    induction m as [|[k c] m IH]; intros st F HS G C HL Hne T HP R; cbn [conv_map].
    - unfold loop_post. auto.
    - inversion F as [|? ? Fc Fm]; subst. cbn [snd] in Fc.
      cbn [map_scalars map_paths] in HS, HP.
      assert (HPc : incl (node_paths c (k :: ks)) AP) by (intros x Hx; apply HP, in_or_app; now left).
      assert (Tc : tails_ok (k :: ks)).
      { split; [apply HPc, node_paths_head|exact T]. }
      assert (Rc : refs_ok S (k :: ks)).
      { intros s Hs. rewrite current_resource_id_cons by exact Hne. now apply R. }
      assert (HSc : incl (scalars c) S) by (intros x Hx; apply HS, in_or_app; now left).
      specialize (Fc (RMapE a k :: ns) (k :: ks) st HSc G C HL ltac:(discriminate) Tc HPc Rc).
      destruct (convert c (RMapE a k :: ns) (k :: ks) st) as [p st1].
      destruct Fc as (G1 & C1 & L1 & P1 & Ch1 & O1). cbn [fst snd] in *.
      destruct (parse_h_ok L S st1 ns ks k p G1 C1 P1 Hne T R) as [G2 E2].
      destruct (parse_h st1 ns ks k p) as [consumed st2]. cbn [snd] in *.
      destruct E2 as (Ch2 & O2 & H2 & _).
      assert (C2 : conv_inv L S st2) by (eapply conv_inv_heap_eq; eauto).
      set (st3 := if consumed then st2 else heap_map_set st2 a k p).
      assert (G3 : ginv st3).
      { subst st3. destruct consumed; [exact G2|]. eapply ginv_sg; [apply sg_heap_map_set|exact G2]. }
      assert (C3 : conv_inv L S st3).
      { subst st3. destruct consumed; [exact C2|]. now apply conv_inv_heap_map_set. }
      assert (L3 : length (st_heap st3) = length (st_heap st1)).
      { subst st3. destruct consumed; [now rewrite H2|]. now rewrite heap_map_set_length, H2. }
      assert (Ch3 : st_chain st3 = st_chain st1 /\ st_oof st3 = st_oof st1).
      { subst st3. destruct consumed; [split; congruence|].
        destruct (sg_heap_map_set st2 a k p) as (_ & cc & oo). split; congruence. }
      assert (HSm : incl (map_scalars (fun c => scalars c) m) S) by (intros x Hx; apply HS, in_or_app; now right).
      assert (HPm : incl (map_paths (fun c => node_paths c) m ks) AP) by (intros x Hx; apply HP, in_or_app; now right).
      specialize (IH st3 Fm HSm G3 C3 ltac:(lia) Hne T HPm R).
      destruct IH as (G4 & C4 & L4 & Ch4 & O4). destruct Ch3 as [Ch3 O3].
      unfold loop_post. split; [exact G4|]. split; [exact C4|]. split; [lia|]. split; congruence.
  Qed.

  Lemma conv_seq_ok L S a ns ks : forall l i st,
    Forall (conv_good L S) l ->
    incl (seq_scalars (fun c => scalars c) l) S ->
    ginv st -> conv_inv L S st -> L <= length (st_heap st) ->
    ks <> [] -> tails_ok ks -> incl (seq_paths (fun c => node_paths c) l i ks) AP -> refs_ok S ks ->
    loop_post L S st (conv_seq (fun c => convert c) a ns ks l i st).
  Proof.
    induction l as [|c l IH]; intros i st F HS G C HL Hne T HP R; cbn [conv_seq].
    - unfold loop_post. auto.
    - inversion F as [|? ? Fc Fl]; subst.
      cbn [seq_scalars seq_paths] in HS, HP.
      assert (HPc : incl (node_paths c (idx_key i :: ks)) AP) by (intros x Hx; apply HP, in_or_app; now left).
      assert (Tc : tails_ok (idx_key i :: ks)).
      { split; [apply HPc, node_paths_head|exact T]. }
      assert (Rc : refs_ok S (idx_key i :: ks)).
      { intros s Hs. rewrite current_resource_id_cons by exact Hne. now apply R. }
      assert (HSc : incl (scalars c) S) by (intros x Hx; apply HS, in_or_app; now left).
      specialize (Fc (RListE a i :: ns) (idx_key i :: ks) st HSc G C HL ltac:(discriminate) Tc HPc Rc).
      destruct (convert c (RListE a i :: ns) (idx_key i :: ks) st) as [p st1].
      destruct Fc as (G1 & C1 & L1 & P1 & Ch1 & O1). cbn [fst snd] in *.
      set (st2 := heap_list_append st1 a p).
      assert (G2 : ginv st2) by (eapply ginv_sg; [apply sg_heap_list_append|exact G1]).
      assert (C2 : conv_inv L S st2) by now apply conv_inv_heap_list_append.
      assert (L2 : length (st_heap st2) = length (st_heap st1)) by apply heap_list_append_length.
      destruct (sg_heap_list_append st1 a p) as (_ & c2 & o2). fold st2 in c2, o2.
      assert (HSl : incl (seq_scalars (fun c => scalars c) l) S) by (intros x Hx; apply HS, in_or_app; now right).
      assert (HPl : incl (seq_paths (fun c => node_paths c) l (Datatypes.S i) ks) AP) by (intros x Hx; apply HP, in_or_app; now right).
      specialize (IH (Datatypes.S i) st2 Fl HSl G2 C2 ltac:(lia) Hne T HPl R).
      destruct IH as (G4 & C4 & L4 & Ch4 & O4).
      unfold loop_post. split; [exact G4|]. split; [exact C4|]. split; [lia|]. split; congruence.
  Qed.

  Lemma convert_ok L S : forall y, conv_good L S y.
  Proof.
    induction y as [|s|l IHl|m IHm] using ydoc_ind'; intros ns ks st HS G C HL Hne T HP R.
    - cbn. unfold conv_post. cbn. auto 10.
    - cbn [convert].
      pose proof (conv_inv_alloc L S st (HScalar s) C) as CA.
      pose proof (sg_alloc st (HScalar s)) as SA.
      destruct (alloc st (HScalar s)) as [a st1] eqn:EA. cbn [snd] in *.
      assert (a = length (st_heap st) /\ st_heap st1 = st_heap st ++ [HScalar s]) as [Ea Eh].
      { unfold alloc in EA. inversion EA; subst. now cbn. }
      unfold conv_post. cbn [fst snd]. destruct SA as (sd & sc & so).
      split; [eapply ginv_sg; [|exact G]; repeat split; assumption|].
      split; [apply CA; cbn; apply HS; now left|].
      split; [rewrite Eh, app_length; lia|].
      split; [cbn; lia|]. split; assumption.
    - cbn [convert].
      pose proof (conv_inv_alloc L S st (HList []) C ltac:(constructor)) as CA.
      pose proof (sg_alloc st (HList [])) as SA.
      destruct (alloc st (HList [])) as [a st1] eqn:EA. cbn [snd] in *.
      assert (a = length (st_heap st) /\ st_heap st1 = st_heap st ++ [HList []]) as [Ea Eh].
      { unfold alloc in EA. inversion EA; subst. now cbn. }
      assert (HL1 : L <= length (st_heap st1)) by (rewrite Eh, app_length; lia).
      assert (G1 : ginv st1) by (eapply ginv_sg; eauto).
      cbn [node_paths] in HP.
      assert (HPl : incl (seq_paths (fun c => node_paths c) l 0 ks) AP) by (intros x Hx; apply HP; now right).
      destruct (conv_seq_ok L S a ns ks l 0 st1 IHl HS G1 CA HL1 Hne T HPl R) as (G2 & C2 & L2 & Ch2 & O2).
      unfold conv_post. cbn [fst snd]. destruct SA as (_ & c1 & o1).
      split; [exact G2|]. split; [exact C2|].
      split; [rewrite Eh, app_length in L2; lia|].
      split; [cbn; lia|]. split; congruence.
    - cbn [convert].
      pose proof (conv_inv_alloc L S st (HMap []) C ltac:(constructor)) as CA.
      pose proof (sg_alloc st (HMap [])) as SA.
      destruct (alloc st (HMap [])) as [a st1] eqn:EA. cbn [snd] in *.
      assert (a = length (st_heap st) /\ st_heap st1 = st_heap st ++ [HMap []]) as [Ea Eh].
      { unfold alloc in EA. inversion EA; subst. now cbn. }
      assert (HL1 : L <= length (st_heap st1)) by (rewrite Eh, app_length; lia).
      assert (G1 : ginv st1) by (eapply ginv_sg; eauto).
      cbn [node_paths] in HP.
      assert (HPl : incl (map_paths (fun c => node_paths c) m ks) AP) by (intros x Hx; apply HP; now right).
      destruct (conv_map_ok L S a ns ks m st1 IHm HS G1 CA HL1 Hne T HPl R) as (G2 & C2 & L2 & Ch2 & O2).
      unfold conv_post. cbn [fst snd]. destruct SA as (_ & c1 & o1).
      split; [exact G2|]. split; [exact C2|].
      split; [rewrite Eh, app_length in L2; lia|].
      split; [cbn; lia|]. split; congruence.
  Qed.
  (** ** Compile *)
  Lemma join_path_single x : join_path (rev [x]) = x.
  Proof. reflexivity. Qed.

  Lemma doc_paths_in_AP u x : In u U -> In x (doc_paths (to_resource_id u)) -> In x AP.
  Proof. intros Hu Hx. unfold AP. apply in_flat_map. eauto. Qed.

  Lemma root_in_doc_paths id : In (root_key id) (doc_paths id).
  Proof.
    unfold doc_paths. destruct (alookup id ds) as [y|]; [|now left].
    rewrite <- (join_path_single (root_key id)). apply node_paths_head.
  Qed.

  Lemma auto_patch_h_ok st id :
    ginv st -> In (root_key id) AP ->
    (ends_with id s_custom = false -> In (custom_id id) U) ->
    ginv (auto_patch_h st id) /\ gext st (auto_patch_h st id).
  Proof.
    intros G Hr Hc. unfold auto_patch_h.
    destruct (ends_with id s_custom) eqn:E; [split; [exact G|apply gext_refl]|].
    assert (K : ginv (graph_add st [RRes id] [id ++ [c_colon]] (DPatchRef (auto_patch_ref id))) /\
                gext st (graph_add st [RRes id] [id ++ [c_colon]] (DPatchRef (auto_patch_ref id)))).
    { apply graph_add_ok; [exact G|discriminate| |].
      - split; [exact Hr|exact I].
      - intros t. cbn. now apply Hc. }
    destruct (deps_at st (id ++ [c_colon])) as [[|d l]|]; try exact K.
    destruct (2 <=? priority (last l d)); [split; [exact G|apply gext_refl]|exact K].
  Qed.

  Lemma compile_h_ok st file :
    ginv st -> In file U ->
    ginv (snd (compile_h ds st file)) /\
    st_chain (snd (compile_h ds st file)) = st_chain st /\
    st_oof (snd (compile_h ds st file)) = st_oof st.
  Proof.
    intros G Hf. unfold compile_h.
    set (id := to_resource_id file).
    set (st1 := with_res st (aset id {| rs_root := None; rs_loaded := false |} (st_res st))).
    assert (G1 : ginv st1) by (eapply ginv_sg; [apply sg_with_res|exact G]).
    assert (Hroot : In (root_key id) AP) by (eapply doc_paths_in_AP; [exact Hf|apply root_in_doc_paths]).
    assert (Hcust : ends_with id s_custom = false -> In (custom_id id) U) by (apply HU_custom; exact Hf).
    destruct (alookup id ds) as [y|] eqn:Ey.
    - pose proof (convert_ok (length (st_heap st1)) (scalars y) y [RRes id] [id ++ [c_colon]] st1) as K.
      assert (Kp : conv_post (length (st_heap st1)) (scalars y) st1 (convert y [RRes id] [id ++ [c_colon]] st1)).
      { apply K; auto.
        - apply incl_refl.
        - intros a n Ha Hg. apply hget_Some_lt in Hg. lia.
        - discriminate.
        - split; [exact Hroot|exact I].
        - intros x Hx. eapply doc_paths_in_AP; [exact Hf|]. unfold doc_paths. fold id. rewrite Ey. exact Hx.
        - intros s Hs. apply (HU_refs file y Hf Ey s Hs). }
      destruct (convert y [RRes id] [id ++ [c_colon]] st1) as [p st2].
      destruct Kp as (G2 & _ & _ & _ & Ch2 & O2). cbn [fst snd] in *.
      set (st3 := with_res st2 (aset id {| rs_root := p; rs_loaded := true |} (st_res st2))).
      assert (G3 : ginv st3) by (eapply ginv_sg; [apply sg_with_res|exact G2]).
      destruct (auto_patch_h_ok st3 id G3 Hroot Hcust) as [G4 (c4 & o4 & _)].
      cbn [snd]. split; [exact G4|]. split; [rewrite c4|rewrite o4]; cbn; assumption.
    - destruct (auto_patch_h_ok st1 id G1 Hroot Hcust) as [G4 (c4 & o4 & _)].
      cbn [snd]. split; [exact G4|]. split; [rewrite c4|rewrite o4]; reflexivity.
  Qed.

  (** ** ResolveDependencies *)
  Definition NP : nat := length AP.

  Definition good (st st' : state) : Prop :=
    ginv st' /\ length (st_chain st) <= length (st_chain st') /\ st_oof st' = st_oof st.

  Lemma good_refl st : ginv st -> good st st.
  Proof. intros G. split; [exact G|]. split; [lia|reflexivity]. Qed.
  Lemma good_trans a b c : good a b -> good b c -> good a c.
  Proof. intros (?&?&?) (?&?&?). split; [assumption|]. split; [lia|congruence]. Qed.
  Lemma good_sg st st' : ginv st -> sg st st' -> good st st'.
  Proof.
    intros G S. split; [eapply ginv_sg; eauto|]. destruct S as (_ & c & o). rewrite c, o. split; [lia|reflexivity].
  Qed.

  Lemma ginv_chain_le st : ginv st -> length (st_chain st) <= NP.
  Proof. intros (H1 & H2 & _). apply NoDup_incl_length; assumption. Qed.

  Section WithRec.
    Variable rec : str -> state -> bool * state.
    Variable Lc : nat.
    Hypothesis Hrec : forall p st, ginv st -> Lc <= length (st_chain st) -> good st (snd (rec p st)).

    Lemma walk_keys_good : forall keys st node np,
      ginv st -> Lc <= length (st_chain st) -> good st (snd (walk_keys rec keys st node np)).
    Proof.
      induction keys as [|key keys IH]; intros st node np G HL; cbn [walk_keys].
      - specialize (Hrec np st G HL). destruct (rec np st) as [ok st1]. exact Hrec.
      - set (st1 := if blocking st np then snd (rec np st) else st).
        assert (K1 : good st st1).
        { subst st1. destruct (blocking st np); [now apply Hrec|now apply good_refl]. }
        destruct K1 as (G1 & L1 & O1).
        assert (Kst : good st st1) by (split; [exact G1|split; assumption]).
        destruct (get_item st1 node) as [a|]; [|exact Kst].
        destruct (hget (st_heap st1) a) as [[s|l|m]|]; try exact Kst.
        + destruct (is_list_ref key); [|exact Kst].
          eapply good_trans; [exact Kst|]. apply IH; [exact G1|lia].
        + eapply good_trans; [exact Kst|]. apply IH; [exact G1|lia].
    Qed.

    Lemma resolve_reference_good st r :
      ginv st -> Lc <= length (st_chain st) -> In (r_res r) U ->
      good st (snd (resolve_reference ds rec st r)).
    Proof.
      intros G HL Hr. unfold resolve_reference, get_resolved_item.
      destruct (alookup (r_res r) (st_res st)) as [rs|].
      - destruct (rs_loaded rs); [now apply walk_keys_good|now apply good_refl].
      - destruct (compile_h_ok st (r_res r) G Hr) as (G1 & c1 & o1).
        destruct (compile_h ds st (r_res r)) as [[id loaded] st1]. cbn [snd] in *.
        assert (K : good st st1) by (split; [exact G1|split; [rewrite c1; lia|exact o1]]).
        destruct loaded; [|exact K].
        eapply good_trans; [exact K|]. apply walk_keys_good; [exact G1|rewrite c1; lia].
    Qed.

    Lemma resolve_dep_good st d :
      ginv st -> Lc <= length (st_chain st) -> dep_ok d -> good st (snd (resolve_dep ds wf rec st d)).
    Proof.
      intros G HL Hd. destruct d as [cp|r t|r t|a t]; cbn [resolve_dep].
      - now apply Hrec.
      - pose proof (resolve_reference_good st r G HL Hd) as K.
        destruct (resolve_reference ds rec st r) as [inc st1]. cbn [snd] in K.
        destruct inc as [ia|]; [|exact K].
        pose proof (sg_include_h wf st1 t (Some ia)) as S.
        destruct (include_h wf st1 t (Some ia)) as [[ok st2] t']. cbn [fst snd] in *.
        eapply good_trans; [exact K|]. apply good_sg; [apply K|exact S].
      - pose proof (resolve_reference_good st r G HL Hd) as K.
        destruct (resolve_reference ds rec st r) as [p st1]. cbn [snd] in K.
        destruct p as [pa|]; [|exact K].
        destruct (as_map st1 (Some pa)) as [[a' m]|]; [|exact K].
        pose proof (sg_patch_literal_h wf m st1 t) as S.
        destruct (patch_literal_h wf m st1 t) as [[ok st2] t']. cbn [fst snd] in *.
        eapply good_trans; [exact K|]. apply good_sg; [apply K|exact S].
      - destruct (as_map st (Some a)) as [[a' m]|].
        + pose proof (sg_patch_literal_h wf m st t) as S.
          destruct (patch_literal_h wf m st t) as [[ok st2] t']. cbn [fst snd] in *.
          now apply good_sg.
        + cbn. apply good_sg; [exact G|apply sg_set_ub].
    Qed.

    Lemma ginv_erase_head_dep st path : ginv st -> ginv (erase_head_dep st path).
    Proof.
      intros (H1 & H2 & H3 & H4). unfold erase_head_dep.
      destruct (deps_at st path) as [[|d l]|] eqn:E; try (repeat split; assumption).
      unfold ginv. cbn. repeat split; auto.
      - intros p Hin. apply In_fst_aset in Hin. destruct Hin as [->|Hin]; auto.
        apply H3. apply deps_at_In in E. apply in_map_iff. now exists (path, d :: l).
      - intros p l' x Hin Hx. apply In_aset in Hin. destruct Hin as [Eq|Hin]; [|eauto].
        inversion Eq; subst. eapply H4; [eapply deps_at_In; exact E|now right].
    Qed.

    Lemma erase_head_dep_same st path :
      st_chain (erase_head_dep st path) = st_chain st /\ st_oof (erase_head_dep st path) = st_oof st.
    Proof.
      unfold erase_head_dep. destruct (deps_at st path) as [[|d l]|]; split; reflexivity.
    Qed.

    Lemma resolve_loop_good path : forall l st,
      ginv st -> Lc <= length (st_chain st) -> (forall d, In d l -> dep_ok d) ->
      good st (snd (resolve_loop ds wf rec l path st)).
    Proof.
      induction l as [|d l IH]; intros st G HL Hd; cbn [resolve_loop].
      - now apply good_refl.
      - pose proof (resolve_dep_good st d G HL (Hd d (or_introl eq_refl))) as K.
        destruct (resolve_dep ds wf rec st d) as [ok st1]. cbn [snd] in K.
        destruct ok; [|exact K].
        destruct K as (G1 & L1 & O1).
        destruct (erase_head_dep_same st1 path) as [c2 o2].
        eapply good_trans; [|apply IH].
        + split; [apply ginv_erase_head_dep; exact G1|]. rewrite c2, o2. split; assumption.
        + apply ginv_erase_head_dep; exact G1.
        + rewrite c2. lia.
        + intros x Hx. apply Hd. now right.
    Qed.
  End WithRec.

  Lemma starts_with_refl s : starts_with s s = true.
  Proof. induction s as [|x s IH]; cbn; [reflexivity|]. rewrite IH. unfold beqb. now rewrite Byte.byte_dec_lb. Qed.

  Lemma has_circular_false_notin st path : has_circular st path = false -> ~ In path (st_chain st).
  Proof.
    unfold has_circular. intros H Hin.
    assert (existsb (fun x => starts_with x path &&
              ((length x =? length path) ||
               match nth_error x (length path) with Some c => beqb c c_slash | None => false end))
             (st_chain st) = true).
    { apply existsb_exists. exists path. split; [exact Hin|].
      now rewrite starts_with_refl, Nat.eqb_refl. }
    congruence.
  Qed.

  Lemma NoDup_removelast {A} (l : list A) : NoDup l -> NoDup (removelast l).
  Proof.
    induction l as [|x l IH]; intros H; cbn; [constructor|].
    destruct l as [|y l]; [constructor|].
    inversion H; subst. constructor.
    - intros Hin. apply H2. clear -Hin. revert Hin. generalize (y :: l). intros l0 Hin.
      induction l0 as [|z l0 IH0]; [destruct Hin|]. cbn in Hin. destruct l0 as [|w l0]; [destruct Hin|].
      destruct Hin as [->|Hin]; [now left|right; now apply IH0].
    - now apply IH.
  Qed.

  Lemma NoDup_snoc {A} (l : list A) x : NoDup l -> ~ In x l -> NoDup (l ++ [x]).
  Proof.
    induction l as [|y l IH]; intros H Hn; cbn; [constructor; [intros []|constructor]|].
    inversion H; subst. constructor.
    - intros Hin. apply in_app_or in Hin. destruct Hin as [Hin|[->|[]]]; [contradiction|].
      apply Hn. now left.
    - apply IH; [assumption|]. intros Hin. apply Hn. now right.
  Qed.

  Lemma In_removelast {A} (l : list A) x : In x (removelast l) -> In x l.
  Proof.
    induction l as [|y l IH]; cbn; [auto|]. destruct l as [|z l]; [intros []|].
    intros [->|H]; [now left|right; now apply IH].
  Qed.

  Lemma removelast_length {A} (l : list A) : length (removelast l) = length l - 1.
  Proof.
    induction l as [|y l IH]; cbn [removelast]; [reflexivity|]. destruct l as [|z l]; [reflexivity|].
    cbn [length] in *. rewrite IH. lia.
  Qed.

  Lemma resolve_deps_body_good rec path st :
    (length (st_chain st) < NP ->
     forall p st', ginv st' -> S (length (st_chain st)) <= length (st_chain st') -> good st' (snd (rec p st'))) ->
    ginv st -> good st (snd (resolve_deps_body ds wf rec path st)).
  Proof.
    intros Hrec G. unfold resolve_deps_body.
    destruct (deps_at st path) as [l|] eqn:E; [|now apply good_refl].
    destruct (has_circular st path) eqn:Hc; [now apply good_refl|].
    set (st1 := with_chain st (st_chain st ++ [path])).
    assert (G1 : ginv st1).
    { destruct G as (H1 & H2 & H3 & H4). unfold ginv. cbn. repeat split; auto.
      - apply NoDup_snoc; [exact H1|now apply has_circular_false_notin].
      - intros x Hx. apply in_app_or in Hx. destruct Hx as [Hx|[<-|[]]]; [now apply H2|].
        apply H3. apply deps_at_In in E. apply in_map_iff. now exists (path, l). }
    assert (Hlt : length (st_chain st) < NP).
    { pose proof (ginv_chain_le st1 G1) as K. cbn in K. rewrite app_length in K. cbn in K. lia. }
    assert (L1 : S (length (st_chain st)) <= length (st_chain st1)).
    { cbn. rewrite app_length. cbn. lia. }
    assert (Hd : forall d, In d l -> dep_ok d).
    { intros d Hd. destruct G as (_ & _ & _ & H4). eapply H4; [eapply deps_at_In; exact E|exact Hd]. }
    pose proof (resolve_loop_good rec (S (length (st_chain st))) (Hrec Hlt) path l st1 G1 L1 Hd) as K.
    destruct (resolve_loop ds wf rec l path st1) as [ok st2]. cbn [snd] in K.
    destruct K as (G2 & L2 & O2).
    destruct ok; cbn [snd].
    - split; [|split].
      + destruct G2 as (H1 & H2 & H3 & H4). unfold ginv. cbn. repeat split; auto.
        * now apply NoDup_removelast.
        * intros x Hx. apply H2. now apply In_removelast.
      + cbn. rewrite removelast_length. lia.
      + exact O2.
    - split; [exact G2|]. split; [lia|exact O2].
  Qed.

  Theorem resolve_deps_good : forall fuel path st,
    ginv st -> NP - length (st_chain st) < fuel -> good st (snd (resolve_deps ds wf fuel path st)).
  Proof.
    induction fuel as [|f IH]; intros path st G HF; [lia|].
    cbn [resolve_deps]. apply resolve_deps_body_good; [|exact G].
    intros Hlt p st' G' HL'. apply IH; [exact G'|lia].
  Qed.
End Term.

(** * a concrete universe and the explicit fuel bound *)
Definition doc_refs (ds : docs) : list str :=
  flat_map (fun e => map (fun s => r_res (create_reference (cur_of (fst e)) s)) (scalars (snd e))) ds.

(* [E]: the identifiers that enter from outside the documents (the target,
   "default", the import_preset values) *)
Definition mkU (ds : docs) (E : list str) : list str :=
  (E ++ doc_refs ds) ++ map (fun u => custom_id (to_resource_id u)) (E ++ doc_refs ds).

Fixpoint ynodes (y : ydoc) : nat :=
  S match y with
    | YSeq l => list_sum (map ynodes l)
    | YMap m => list_sum (map (fun e => ynodes (snd e)) m)
    | _ => 0
    end.

Definition nscalars (ds : docs) : nat := list_sum (map (fun e => length (scalars (snd e))) ds).
Definition maxnodes (ds : docs) : nat := list_max (map (fun e => ynodes (snd e)) ds).

(** the fuel that always suffices: quadratic in the size of the document set *)
Definition fuel_bound (ds : docs) : nat := 2 * (5 + nscalars ds) * (1 + maxnodes ds).

Lemma node_paths_length : forall y ks, length (node_paths y ks) = ynodes y.
Proof.
  induction y as [|s|l IHl|m IHm] using ydoc_ind'; intros ks; cbn [node_paths ynodes length]; try reflexivity.
  - f_equal. generalize 0 as i. induction l as [|c l IH]; intros i; cbn [seq_paths map list_sum]; [reflexivity|].
    inversion IHl; subst. rewrite app_length, H1, (IH H2). reflexivity.
  - f_equal. induction m as [|[k c] m IH]; cbn [map_paths map list_sum]; [reflexivity|].
    inversion IHm; subst. cbn [snd] in *. rewrite app_length, H1, (IH H2). reflexivity.
Qed.

Lemma starts_with_app p : forall r, starts_with (p ++ r) p = true.
Proof.
  induction p as [|x p IH]; intros r; cbn; [destruct r; reflexivity|].
  rewrite IH. unfold beqb. now rewrite Byte.byte_dec_lb.
Qed.

Lemma ends_with_custom x : ends_with (x ++ s_custom) s_custom = true.
Proof. unfold ends_with. rewrite rev_app_distr. apply starts_with_app. Qed.

Lemma to_resource_id_custom x : to_resource_id (x ++ s_custom) = x ++ s_custom.
Proof.
  unfold to_resource_id, remove_suffix, ends_with. rewrite rev_app_distr. reflexivity.
Qed.

Lemma mkU_custom ds E u :
  In u (mkU ds E) -> ends_with (to_resource_id u) s_custom = false ->
  In (custom_id (to_resource_id u)) (mkU ds E).
Proof.
  unfold mkU. intros H Hc. apply in_app_or in H. destruct H as [H|H].
  - apply in_or_app. right. apply in_map_iff. now exists u.
  - apply in_map_iff in H. destruct H as [v [<- _]]. unfold custom_id in Hc.
    now rewrite to_resource_id_custom, ends_with_custom in Hc.
Qed.

Lemma mkU_refs ds E u y :
  In u (mkU ds E) -> alookup (to_resource_id u) ds = Some y ->
  forall s, In s (scalars y) -> In (r_res (create_reference (cur_of (to_resource_id u)) s)) (mkU ds E).
Proof.
  intros _ Hl s Hs. unfold mkU. apply in_or_app. left. apply in_or_app. right.
  unfold doc_refs. apply in_flat_map. exists (to_resource_id u, y). split; [now apply alookup_In|].
  cbn [fst snd]. apply in_map_iff. now exists s.
Qed.

Lemma flat_map_length_le {A B} (f : A -> list B) c l :
  (forall x, In x l -> length (f x) <= c) -> length (flat_map f l) <= length l * c.
Proof.
  induction l as [|x l IH]; intros H; cbn [flat_map length]; [lia|].
  rewrite app_length. specialize (IH (fun y Hy => H y (or_intror Hy))).
  specialize (H x (or_introl eq_refl)). lia.
Qed.

Lemma list_max_ge l x : In x l -> x <= list_max l.
Proof.
  induction l as [|y l IH]; [intros []|]. cbn. intros [->|H]; [apply Nat.le_max_l|].
  specialize (IH H). etransitivity; [exact IH|apply Nat.le_max_r].
Qed.

Lemma doc_paths_length ds id : length (doc_paths ds id) <= 1 + maxnodes ds.
Proof.
  unfold doc_paths. destruct (alookup id ds) as [y|] eqn:E; [|cbn; lia].
  rewrite node_paths_length. apply alookup_In in E.
  assert (ynodes y <= maxnodes ds); [|lia].
  unfold maxnodes. apply list_max_ge. apply in_map_iff. now exists (id, y).
Qed.

Lemma doc_refs_length ds : length (doc_refs ds) = nscalars ds.
Proof.
  unfold doc_refs, nscalars. induction ds as [|e ds IH]; cbn [flat_map map list_sum]; [reflexivity|].
  rewrite app_length, map_length, IH. reflexivity.
Qed.

Lemma AP_mkU_bound ds E : length E <= 5 -> length (AP ds (mkU ds E)) <= fuel_bound ds.
Proof.
  intros HE. unfold AP.
  eapply Nat.le_trans; [apply flat_map_length_le with (c := 1 + maxnodes ds); intros; apply doc_paths_length|].
  unfold mkU, fuel_bound. rewrite !app_length, map_length, !app_length, doc_refs_length.
  apply Nat.mul_le_mono_r. lia.
Qed.

Lemma AP_mono ds U U' : incl U U' -> incl (AP ds U) (AP ds U').
Proof.
  intros H x Hx. unfold AP in *. apply in_flat_map in Hx. destruct Hx as [u [Hu Hx]].
  apply in_flat_map. exists u. auto.
Qed.

Lemma ginv_mono ds U U' st : incl U U' -> ginv ds U st -> ginv ds U' st.
Proof.
  intros H (H1 & H2 & H3 & H4). pose proof (AP_mono ds U U' H) as HA.
  unfold ginv. repeat split; auto.
  - intros x Hx. apply HA. now apply H2.
  - intros p l d Hin Hd. specialize (H4 p l d Hin Hd). destruct d; cbn in *; auto.
Qed.

Lemma mkU_mono ds E E' : incl E E' -> incl (mkU ds E) (mkU ds E').
Proof.
  intros H x Hx. unfold mkU in *. apply in_app_or in Hx. destruct Hx as [Hx|Hx].
  - apply in_or_app. left. apply in_app_or in Hx. apply in_or_app. destruct Hx; [left; auto|now right].
  - apply in_or_app. right. apply in_map_iff in Hx. destruct Hx as [v [<- Hv]]. apply in_map_iff. exists v.
    split; [reflexivity|]. apply in_app_or in Hv. apply in_or_app. destruct Hv; [left; auto|now right].
Qed.

(** * top level: ConfigBuilder::LoadConfig never runs out of resolve fuel *)
Section Top.
  Variable ds : docs.
  Variable wf : nat.
  Variable fuel : nat.
  Hypothesis Hfuel : fuel_bound ds < fuel.

  Definition tinv (k : nat) (st : state) : Prop :=
    exists E, length E <= k /\ ginv ds (mkU ds E) st.

  Lemma tinv_mono k k' st : k <= k' -> tinv k st -> tinv k' st.
  Proof. intros H [E [HE G]]. exists E. split; [lia|exact G]. Qed.

  Lemma tinv_sg k st st' : sg st st' -> tinv k st -> tinv k st'.
  Proof. intros S [E [HE G]]. exists E. split; [exact HE|eapply ginv_sg; eauto]. Qed.

  Lemma resolve_deps_top E path st :
    length E <= 5 -> ginv ds (mkU ds E) st ->
    good ds (mkU ds E) st (snd (resolve_deps ds wf fuel path st)).
  Proof.
    intros HE G. apply resolve_deps_good; [apply mkU_custom|apply mkU_refs|exact G|].
    pose proof (AP_mkU_bound ds E HE). unfold NP. lia.
  Qed.

  Lemma include_plugin_total k st target r :
    k < 5 -> tinv k st ->
    tinv (S k) (snd (fst (include_plugin ds wf fuel st target r))) /\
    st_oof (snd (fst (include_plugin ds wf fuel st target r))) = st_oof st.
  Proof.
    intros Hk [E [HE G]].
    set (E' := r_res r :: E).
    assert (HE' : length E' <= 5) by (cbn; lia).
    assert (G' : ginv ds (mkU ds E') st).
    { eapply ginv_mono; [|exact G]. apply mkU_mono. intros x Hx. now right. }
    assert (Hin : In (r_res r) (mkU ds E')).
    { unfold mkU. apply in_or_app. left. apply in_or_app. left. now left. }
    pose proof (resolve_reference_good ds (mkU ds E') (mkU_custom ds E') (mkU_refs ds E')
                  (resolve_deps ds wf fuel) 0
                  (fun p s Gs _ => resolve_deps_top E' p s HE' Gs) st r G' (Nat.le_0_l _) Hin) as K.
    unfold include_plugin.
    destruct (resolve_reference ds (resolve_deps ds wf fuel) st r) as [inc st1]. cbn [snd] in K.
    destruct K as (G1 & _ & O1).
    destruct inc as [ia|]; cbn [fst snd].
    - pose proof (sg_include_h wf st1 target (Some ia)) as S.
      destruct (include_h wf st1 target (Some ia)) as [[ok st2] t']. cbn [fst snd] in *.
      split.
      + exists E'. split; [cbn; lia|eapply ginv_sg; eauto].
      + destruct S as (_ & _ & o). congruence.
    - split; [exists E'; split; [cbn; lia|exact G1]|exact O1].
  Qed.

  Lemma preset_step_total k id section kb acc :
    k < 5 -> tinv k (snd acc) ->
    tinv (S k) (snd (preset_step_h ds wf fuel id section kb acc)) /\
    st_oof (snd (preset_step_h ds wf fuel id section kb acc)) = st_oof (snd acc).
  Proof.
    intros Hk T. destruct acc as [ok st]. cbn [snd] in T. unfold preset_step_h.
    assert (Base : tinv (S k) st) by (eapply tinv_mono; [|exact T]; lia).
    destruct ok; cbn [negb]; [|split; [exact Base|reflexivity]].
    destruct (traverse_h st (res_root st id) [section; s_import_preset]) as [pa|]; [|split; [exact Base|reflexivity]].
    destruct (hget (st_heap st) pa) as [[pid|l|m]|]; try (split; [exact Base|reflexivity]).
    set (pre := if kb then _ else _).
    assert (P : sg st (fst pre)).
    { subst pre. destruct kb; [|apply sg_refl].
      destruct (as_map st (get_item st (cow (RRes id) section))) as [[ka km]|]; [|apply sg_refl].
      destruct (map_get km s_bindings) as [b|]; [|apply sg_refl].
      pose proof (sg_set_item (cow (cow (RRes id) section) s_bindings_add) st (Some b)) as S1.
      destruct (set_item st (cow (cow (RRes id) section) s_bindings_add) (Some b)) as [st' c'].
      cbn [fst] in *.
      eapply sg_trans; [exact S1|].
      destruct (as_map st' _) as [[ka' km']|]; [apply sg_heap_map_set|apply sg_set_ub]. }
    destruct pre as [st1 target1]. cbn [fst] in P.
    pose proof (include_plugin_total k st1 target1 {| r_res := pid; r_path := section; r_opt := false |} Hk
                  (tinv_sg k st st1 P T)) as [T2 O2].
    destruct (include_plugin ds wf fuel st1 target1 _) as [[ok2 st2] t2]. cbn [fst snd] in *.
    split; [exact T2|]. destruct P as (_ & _ & o). congruence.
  Qed.
  Lemma link_h_total st id :
    tinv 1 st -> st_oof (snd (link_h ds wf fuel st id)) = st_oof st.
  Proof.
    intros T. unfold link_h.
    destruct (alookup id (st_res st)); [|reflexivity].
    destruct T as [E [HE G]].
    pose proof (resolve_deps_top E (id ++ [c_colon]) st ltac:(lia) G) as K.
    destruct (resolve_deps ds wf fuel (id ++ [c_colon]) st) as [ok st1]. cbn [snd] in K.
    destruct K as (G1 & _ & O1).
    destruct ok; cbn [negb]; [|exact O1].
    assert (T1 : tinv 1 st1) by (exists E; split; assumption).
    set (plug := if ends_with id s_schema then _ else _).
    assert (P : st_oof (snd plug) = st_oof st1).
    { subst plug. destruct (ends_with id s_schema); [|reflexivity].
      pose proof (include_plugin_total 1 st1 (cow (RRes id) s_menu)
                    {| r_res := s_default; r_path := s_menu; r_opt := true |} ltac:(lia) T1) as [T2 O2].
      destruct (include_plugin ds wf fuel st1 (cow (RRes id) s_menu) _) as [[okd std] td].
      cbn [fst snd] in *.
      pose proof (preset_step_total 2 id s_key_binder true (okd, std) ltac:(lia) T2) as [T3 O3].
      pose proof (preset_step_total 3 id s_punctuator false _ ltac:(lia) T3) as [T4 O4].
      pose proof (preset_step_total 4 id s_recognizer false _ ltac:(lia) T4) as [T5 O5].
      cbn [snd] in *. congruence. }
    destruct plug as [ok2 st2]. cbn [snd] in P.
    destruct ok2; cbn [negb snd]; [|congruence].
    pose proof (sg_alloc st2 (HMap [])) as S1.
    destruct (alloc st2 (HMap [])) as [b s'] eqn:Ea. cbn [snd] in S1.
    pose proof (sg_set_item (cow (RRes id) s_build_info) s' (Some b)) as S2.
    destruct S1 as (_ & _ & o1). destruct S2 as (_ & _ & o2). congruence.
  Qed.

  Lemma ginv_st0 U : ginv ds U st0.
  Proof.
    unfold ginv. cbn. split; [constructor|]. split; [intros ? []|]. split; [intros ? []|].
    intros q l d [].
  Qed.

  (** ConfigBuilder::LoadConfig never exhausts the resolve fuel, whatever the
      documents are (cyclic references included) *)
  Theorem compile_impl_resolve_total name : o_oof (compile_impl ds wf fuel name) = false.
  Proof.
    unfold compile_impl.
    assert (Hin : In name (mkU ds [name])).
    { unfold mkU. apply in_or_app. left. now left. }
    pose proof (compile_h_ok ds (mkU ds [name]) (mkU_custom ds [name]) (mkU_refs ds [name]) st0 name
                  (ginv_st0 _) Hin) as (G1 & _ & O1).
    destruct (compile_h ds st0 name) as [[id loaded] st1]. cbn [snd] in *.
    change (st_oof st0) with false in O1.
    assert (T1 : tinv 1 st1) by (exists [name]; split; [cbn; lia|exact G1]).
    pose proof (link_h_total st1 id T1) as L.
    destruct loaded.
    - destruct (link_h ds wf fuel st1 id) as [linked st2]. cbn [snd] in L.
      destruct (readback wf (st_heap st2) (res_root st2 id)) as [tree rok]. cbn. congruence.
    - destruct (readback wf (st_heap st1) (res_root st1 id)) as [tree rok]. cbn. exact O1.
  Qed.
End Top.
