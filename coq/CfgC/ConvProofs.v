(** C14: ConvertFromYaml on a directive-free document registers no
    dependency and builds, in a fresh region of the heap, the tree the
    document denotes. *)
From Coq Require Import List Arith Bool Lia.
From Coq.Strings Require Import Byte.
From RimeV Require Import Base.Bytes CfgC.Str CfgC.Tree CfgC.Spec CfgC.Impl CfgC.ImplFacts
  CfgC.DepsProofs CfgC.TermProofs CfgC.EditProofs CfgC.SpecProofs.
Import ListNotations.

Fixpoint ydepth (y : ydoc) : nat :=
  S match y with
    | YSeq l => list_max (map ydepth l)
    | YMap m => list_max (map (fun e => ydepth (snd e)) m)
    | _ => 0
    end.

(** heaps agree on the region [lo, hi) *)
Definition agree_on (lo hi : nat) (h h' : heap) : Prop :=
  forall a, lo <= a -> a < hi -> hget h' a = hget h a.

Lemma agree_on_sub lo hi lo' hi' h h' :
  lo <= lo' -> hi' <= hi -> agree_on lo hi h h' -> agree_on lo' hi' h h'.
Proof. intros H1 H2 A a Ha Hb. apply A; lia. Qed.

Lemma agree_on_trans lo hi h1 h2 h3 :
  agree_on lo hi h1 h2 -> agree_on lo hi h2 h3 -> agree_on lo hi h1 h3.
Proof. intros A B a Ha Hb. rewrite (B a Ha Hb). now apply A. Qed.

(** everything but the heap is as before *)
Definition only_heap (st st' : state) : Prop :=
  st_deps st' = st_deps st /\ st_res st' = st_res st /\ st_chain st' = st_chain st /\
  st_oof st' = st_oof st /\ st_woof st' = st_woof st /\ st_ub st' = st_ub st.

Lemma only_heap_refl st : only_heap st st. Proof. now repeat split. Qed.
Lemma only_heap_trans a b c : only_heap a b -> only_heap b c -> only_heap a c.
Proof. unfold only_heap. intros (?&?&?&?&?&?) (?&?&?&?&?&?). repeat split; congruence. Qed.
Lemma only_heap_with_heap st h : only_heap st (with_heap st h). Proof. now repeat split. Qed.

(** the result of converting [y] from a heap of length [L]:
    the new region is [L, length st'), older nodes are untouched, and the
    returned pointer reads back as [y2item y] in every heap that agrees with
    the new one on that region *)
Definition conv_plain_post (y : ydoc) (st : state) (r : ptr * state) : Prop :=
  let L := length (st_heap st) in
  only_heap st (snd r) /\
  L <= length (st_heap (snd r)) /\
  agree_on 0 L (st_heap st) (st_heap (snd r)) /\
  forall wf h'', ydepth y <= wf -> agree_on L (length (st_heap (snd r))) (st_heap (snd r)) h'' ->
    readback wf h'' (fst r) = (y2item y, true).

Definition conv_plain (y : ydoc) : Prop :=
  forall ns ks st, conv_plain_post y st (convert y ns ks st).

Lemma parse_h_plain st ns ks k p : plain_key_b k = true -> parse_h st ns ks k p = (false, st).
Proof.
  unfold plain_key_b, parse_h. intros H. apply andb_true_iff in H. destruct H as [H1 H2].
  apply negb_true_iff in H1, H2. now rewrite H1, H2.
Qed.

Lemma rb_map_sset rb k p m v vs :
  rb p = (v, true) -> rb_map rb m = (vs, true) ->
  rb_map rb (sset k p m) = (sset k v vs, true).
Proof.
  intros Hp. revert vs. induction m as [|[k' p'] m IH]; intros vs Hm; cbn [sset rb_map] in *.
  - inversion Hm; subst. now rewrite Hp.
  - destruct (rb p') as [v' o'] eqn:E'. destruct (rb_map rb m) as [vs' o2] eqn:Em.
    inversion Hm; subst. apply andb_true_iff in H1. destruct H1 as [-> ->].
    change (sset k v ((k', v') :: vs')) with
      (if str_eqb k k' then (k, v) :: vs'
       else if str_ltb k k' then (k, v) :: (k', v') :: vs' else (k', v') :: sset k v vs').
    destruct (str_eqb k k'); cbn [rb_map].
    + now rewrite Hp, Em.
    + destruct (str_ltb k k'); cbn [rb_map].
      * now rewrite Hp, E', Em.
      * rewrite E'. rewrite (IH vs' eq_refl). reflexivity.
Qed.

Lemma rb_list_app rb l p vs v :
  rb_list rb l = (vs, true) -> rb p = (v, true) -> rb_list rb (l ++ [p]) = (vs ++ [v], true).
Proof.
  revert vs. induction l as [|x l IH]; intros vs Hl Hp; cbn [app rb_list] in *.
  - inversion Hl; subst. now rewrite Hp.
  - destruct (rb x) as [vx ox]. destruct (rb_list rb l) as [vl ol] eqn:El.
    inversion Hl; subst. apply andb_true_iff in H1. destruct H1 as [-> ->].
    rewrite (IH vl eq_refl Hp). reflexivity.
Qed.

Lemma list_max_le_all l D : list_max l <= D -> Forall (fun x => x <= D) l.
Proof.
  induction l as [|x l IH]; intros H; constructor;
    change (list_max (x :: l)) with (Nat.max x (list_max l)) in H.
  - pose proof (Nat.le_max_l x (list_max l)). lia.
  - apply IH. pose proof (Nat.le_max_r x (list_max l)). lia.
Qed.

Section Loops.
  Variables (a : nat) (ns : list iref) (ks : list str) (D : nat).

  Lemma conv_map_plain : forall m st macc vacc,
    Forall (fun e => conv_plain (snd e)) m ->
    Forall (fun e => ydepth (snd e) <= D) m ->
    forallb (fun e => plain_key_b (fst e)) m = true ->
    a < length (st_heap st) ->
    hget (st_heap st) a = Some (HMap macc) ->
    (forall wf h'', D <= wf -> agree_on (S a) (length (st_heap st)) (st_heap st) h'' ->
       rb_map (readback wf h'') macc = (vacc, true)) ->
    let st' := conv_map (fun c => convert c) a ns ks m st in
    only_heap st st' /\
    length (st_heap st) <= length (st_heap st') /\
    agree_on 0 a (st_heap st) (st_heap st') /\
    exists mfin,
      hget (st_heap st') a = Some (HMap mfin) /\
      forall wf h'', D <= wf -> agree_on (S a) (length (st_heap st')) (st_heap st') h'' ->
        rb_map (readback wf h'') mfin =
        (fold_left (fun acc e => sset (fst e) (y2item (snd e)) acc) m vacc, true).
  Proof.
    induction m as [|[k c] m IH]; intros st macc vacc HC HD HK Ha Hg Hrb; cbn [conv_map fold_left].
    - split; [apply only_heap_refl|]. split; [lia|]. split; [intros x _ _; reflexivity|].
      exists macc. split; [exact Hg|exact Hrb].
    - inversion HC as [|? ? Cc Cm]; subst. inversion HD as [|? ? Dc Dm]; subst. cbn [snd fst] in *.
      cbn [forallb fst] in HK. apply andb_true_iff in HK. destruct HK as [Kc Km].
      specialize (Cc (RMapE a k :: ns) (k :: ks) st).
      destruct (convert c (RMapE a k :: ns) (k :: ks) st) as [p st1].
      destruct Cc as (O1 & L1 & A1 & R1). cbn [fst snd] in *.
      rewrite (parse_h_plain st1 ns ks k p Kc).
      assert (Hg1 : hget (st_heap st1) a = Some (HMap macc)) by (rewrite (A1 a); [exact Hg|lia|exact Ha]).
      unfold heap_map_set. rewrite Hg1.
      set (st2 := with_heap st1 (hset (st_heap st1) a (HMap (sset k p macc)))).
      assert (Len2 : length (st_heap st2) = length (st_heap st1)) by (subst st2; cbn; apply hset_length).
      assert (Hg2 : hget (st_heap st2) a = Some (HMap (sset k p macc))).
      { subst st2. cbn. apply hget_hset_same. lia. }
      assert (Hoth : forall x, x <> a -> hget (st_heap st2) x = hget (st_heap st1) x).
      { intros x Hx. subst st2. cbn. apply hget_hset_other. congruence. }
      assert (Hrb2 : forall wf h'', D <= wf ->
                agree_on (S a) (length (st_heap st2)) (st_heap st2) h'' ->
                rb_map (readback wf h'') (sset k p macc) = (sset k (y2item c) vacc, true)).
      { intros wf h'' Hwf Hag. apply rb_map_sset.
        - apply R1; [lia|]. intros x Hx1 Hx2. rewrite (Hag x) by lia. apply Hoth. lia.
        - apply Hrb; [exact Hwf|]. intros x Hx1 Hx2. rewrite (Hag x) by lia.
          rewrite Hoth by lia. apply A1; lia. }
      specialize (IH st2 (sset k p macc) (sset k (y2item c) vacc) Cm Dm Km ltac:(lia) Hg2 Hrb2).
      destruct IH as (O3 & L3 & A3 & mfin & Hf & Rf).
      split; [|split; [|split]].
      + eapply only_heap_trans; [exact O1|]. eapply only_heap_trans; [|exact O3].
        subst st2. apply only_heap_with_heap.
      + lia.
      + intros x Hx1 Hx2. rewrite (A3 x) by lia. rewrite Hoth by lia. apply A1; lia.
      + exists mfin. split; [exact Hf|exact Rf].
  Qed.

  Lemma conv_seq_plain : forall l i st lacc vacc,
    Forall conv_plain l ->
    Forall (fun c => ydepth c <= D) l ->
    a < length (st_heap st) ->
    hget (st_heap st) a = Some (HList lacc) ->
    (forall wf h'', D <= wf -> agree_on (S a) (length (st_heap st)) (st_heap st) h'' ->
       rb_list (readback wf h'') lacc = (vacc, true)) ->
    let st' := conv_seq (fun c => convert c) a ns ks l i st in
    only_heap st st' /\
    length (st_heap st) <= length (st_heap st') /\
    agree_on 0 a (st_heap st) (st_heap st') /\
    exists lfin,
      hget (st_heap st') a = Some (HList lfin) /\
      forall wf h'', D <= wf -> agree_on (S a) (length (st_heap st')) (st_heap st') h'' ->
        rb_list (readback wf h'') lfin = (vacc ++ map y2item l, true).
  Proof.
    induction l as [|c l IH]; intros i st lacc vacc HC HD Ha Hg Hrb; cbn [conv_seq map].
    - split; [apply only_heap_refl|]. split; [lia|]. split; [intros x _ _; reflexivity|].
      exists lacc. split; [exact Hg|]. now rewrite app_nil_r.
    - inversion HC as [|? ? Cc Cl]; subst. inversion HD as [|? ? Dc Dl]; subst.
      specialize (Cc (RListE a i :: ns) (idx_key i :: ks) st).
      destruct (convert c (RListE a i :: ns) (idx_key i :: ks) st) as [p st1].
      destruct Cc as (O1 & L1 & A1 & R1). cbn [fst snd] in *.
      assert (Hg1 : hget (st_heap st1) a = Some (HList lacc)) by (rewrite (A1 a); [exact Hg|lia|exact Ha]).
      unfold heap_list_append. rewrite Hg1.
      set (st2 := with_heap st1 (hset (st_heap st1) a (HList (lacc ++ [p])))).
      assert (Len2 : length (st_heap st2) = length (st_heap st1)) by (subst st2; cbn; apply hset_length).
      assert (Hg2 : hget (st_heap st2) a = Some (HList (lacc ++ [p]))).
      { subst st2. cbn. apply hget_hset_same. lia. }
      assert (Hoth : forall x, x <> a -> hget (st_heap st2) x = hget (st_heap st1) x).
      { intros x Hx. subst st2. cbn. apply hget_hset_other. congruence. }
      assert (Hrb2 : forall wf h'', D <= wf ->
                agree_on (S a) (length (st_heap st2)) (st_heap st2) h'' ->
                rb_list (readback wf h'') (lacc ++ [p]) = (vacc ++ [y2item c], true)).
      { intros wf h'' Hwf Hag. apply rb_list_app.
        - apply Hrb; [exact Hwf|]. intros x Hx1 Hx2. rewrite (Hag x) by lia.
          rewrite Hoth by lia. apply A1; lia.
        - apply R1; [lia|]. intros x Hx1 Hx2. rewrite (Hag x) by lia. apply Hoth. lia. }
      specialize (IH (S i) st2 (lacc ++ [p]) (vacc ++ [y2item c]) Cl Dl ltac:(lia) Hg2 Hrb2).
      destruct IH as (O3 & L3 & A3 & lfin & Hf & Rf).
      split; [|split; [|split]].
      + eapply only_heap_trans; [exact O1|]. eapply only_heap_trans; [|exact O3].
        subst st2. apply only_heap_with_heap.
      + lia.
      + intros x Hx1 Hx2. rewrite (A3 x) by lia. rewrite Hoth by lia. apply A1; lia.
      + exists lfin. split; [exact Hf|]. intros wf h'' Hwf Hag. rewrite (Rf wf h'' Hwf Hag).
        now rewrite <- app_assoc.
  Qed.
End Loops.

Lemma alloc_facts st n :
  let '(a, st1) := alloc st n in
  a = length (st_heap st) /\ st_heap st1 = st_heap st ++ [n] /\ only_heap st st1.
Proof. cbn. repeat split. Qed.

Theorem convert_plain : forall y, directive_free y = true -> conv_plain y.
Proof.
  induction y as [|s|l IHl|m IHm] using ydoc_ind'; intros Hd ns ks st; unfold conv_plain_post.
  - cbn [convert fst snd]. split; [apply only_heap_refl|]. split; [lia|]. split; [intros x _ _; reflexivity|].
    intros wf h'' Hwf _. destruct wf; [cbn in Hwf; lia|reflexivity].
  - cbn [convert]. unfold alloc. cbn [fst snd st_heap with_heap].
    split; [apply only_heap_with_heap|]. split; [rewrite app_length; lia|].
    split; [intros x _ Hx; now apply hget_app_old|].
    intros wf h'' Hwf Hag. destruct wf; [cbn in Hwf; lia|]. cbn [readback].
    rewrite (Hag (length (st_heap st))); [|lia|rewrite app_length; cbn; lia].
    now rewrite hget_app_new.
  - cbn [convert]. unfold alloc.
    set (a := length (st_heap st)). set (st1 := with_heap st (st_heap st ++ [HList []])).
    cbn [directive_free] in Hd.
    assert (HC : Forall conv_plain l).
    { apply Forall_forall. intros c Hc. rewrite Forall_forall in IHl. apply IHl; [exact Hc|].
      rewrite forallb_forall in Hd. now apply Hd. }
    pose proof (conv_seq_plain a ns ks (list_max (map ydepth l)) l 0 st1 [] []
                  HC (proj1 (Forall_map _ _ _) (list_max_le_all _ _ (Nat.le_refl _)))) as K.
    assert (Ha1 : a < length (st_heap st1)) by (subst st1 a; cbn; rewrite app_length; cbn; lia).
    assert (Hg1 : hget (st_heap st1) a = Some (HList [])) by (subst st1 a; cbn; apply hget_app_new).
    specialize (K Ha1 Hg1 (fun _ _ _ _ => eq_refl)).
    destruct K as (O & Ln & A & lfin & Hf & Rf). cbn [fst snd].
    split; [eapply only_heap_trans; [|exact O]; subst st1; apply only_heap_with_heap|].
    assert (Len1 : length (st_heap st1) = S a) by (subst st1 a; cbn; rewrite app_length; cbn; lia).
    split; [fold a; lia|]. split.
    + intros x _ Hx. fold a in Hx. rewrite (A x) by lia. subst st1. cbn. now apply hget_app_old.
    + intros wf h'' Hwf Hag. fold a in Hag. destruct wf; [cbn in Hwf; lia|]. cbn [readback ydepth] in *.
      rewrite (Hag a) by lia. rewrite Hf.
      rewrite (Rf wf h''); [reflexivity|lia|]. eapply agree_on_sub; [| |exact Hag]; lia.
  - cbn [convert]. unfold alloc.
    set (a := length (st_heap st)). set (st1 := with_heap st (st_heap st ++ [HMap []])).
    cbn [directive_free] in Hd.
    assert (HC : Forall (fun e => conv_plain (snd e)) m).
    { apply Forall_forall. intros e He. rewrite Forall_forall in IHm. apply IHm; [exact He|].
      rewrite forallb_forall in Hd. specialize (Hd e He). now apply andb_true_iff in Hd. }
    assert (HK : forallb (fun e => plain_key_b (fst e)) m = true).
    { apply forallb_forall. intros e He. rewrite forallb_forall in Hd. specialize (Hd e He).
      now apply andb_true_iff in Hd. }
    pose proof (conv_map_plain a ns ks (list_max (map (fun e => ydepth (snd e)) m)) m st1 [] []
                  HC (proj1 (Forall_map _ _ _) (list_max_le_all _ _ (Nat.le_refl _))) HK) as K.
    assert (Ha1 : a < length (st_heap st1)) by (subst st1 a; cbn; rewrite app_length; cbn; lia).
    assert (Hg1 : hget (st_heap st1) a = Some (HMap [])) by (subst st1 a; cbn; apply hget_app_new).
    specialize (K Ha1 Hg1 (fun _ _ _ _ => eq_refl)).
    destruct K as (O & Ln & A & mfin & Hf & Rf). cbn [fst snd].
    split; [eapply only_heap_trans; [|exact O]; subst st1; apply only_heap_with_heap|].
    assert (Len1 : length (st_heap st1) = S a) by (subst st1 a; cbn; rewrite app_length; cbn; lia).
    split; [fold a; lia|]. split.
    + intros x _ Hx. fold a in Hx. rewrite (A x) by lia. subst st1. cbn. now apply hget_app_old.
    + intros wf h'' Hwf Hag. fold a in Hag. destruct wf; [cbn in Hwf; lia|]. cbn [readback ydepth] in *.
      rewrite (Hag a) by lia. rewrite Hf.
      rewrite (Rf wf h''); [reflexivity|lia|]. eapply agree_on_sub; [| |exact Hag]; lia.
Qed.
