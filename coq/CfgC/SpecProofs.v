(** C14: the specification on directive-free documents. *)
From Coq Require Import List Arith Bool Lia.
From Coq.Strings Require Import Byte.
From RimeV Require Import Base.Bytes CfgC.Str CfgC.Tree CfgC.Spec CfgC.Impl CfgC.ImplFacts
  CfgC.DepsProofs CfgC.TermProofs.
Import ListNotations.

(** the tree a document denotes when no directive is involved: the same
    nodes, maps sorted by key (later duplicates win, as in ConfigMap::Set) *)
Fixpoint y2item (y : ydoc) : item :=
  match y with
  | YNull => Null
  | YScalar s => Scalar s
  | YSeq l => Lst (map y2item l)
  | YMap m => Map (fold_left (fun acc e => sset (fst e) (y2item (snd e)) acc) m [])
  end.

Definition plain_key_b (k : str) : bool := negb (str_eqb k s_include) && negb (str_eqb k s_patch).

Fixpoint directive_free (y : ydoc) : bool :=
  match y with
  | YSeq l => forallb directive_free l
  | YMap m => forallb (fun e => plain_key_b (fst e) && directive_free (snd e)) m
  | _ => true
  end.

Lemma spec_node_unfold ds f vis res path y :
  spec_node ds (S f) vis res path y =
  match y with
  | YNull => (Null, fl0)
  | YScalar s => (Scalar s, fl0)
  | YSeq l =>
      let vis' := (res, path) :: vis in
      let '(vs, fl) := seq_children (fun p c => spec_node ds (S f) vis' res p c) path l 0 in
      (Lst vs, fl)
  | YMap m =>
      let vis' := (res, path) :: vis in
      let '(es, incs, pats, fl1) := map_children (fun p c => spec_node ds (S f) vis' res p c) res path m in
      let cur := Map (plain_map es []) in
      let '(v, fl2) := apply_dirs (spec_node ds f) ds vis' (incs ++ pats ++ auto_dirs res path y) cur in
      (v, fl_or fl1 fl2)
  end.
Proof. destruct y; reflexivity. Qed.

Lemma parse_entry_plain res k v : plain_key_b k = true -> parse_entry res k v = ([], [], false).
Proof.
  unfold plain_key_b, parse_entry. intros H. apply andb_true_iff in H. destruct H as [H1 H2].
  apply negb_true_iff in H1, H2. now rewrite H1, H2.
Qed.

Lemma plain_map_fold es : forall acc,
  Forall (fun e => snd e = false) es ->
  plain_map es acc = fold_left (fun a e => sset (fst (fst e)) (snd (fst e)) a) es acc.
Proof.
  induction es as [|[[k v] c] es IH]; intros acc H; cbn [plain_map fold_left]; [reflexivity|].
  inversion H; subst. cbn [snd fst] in *. subst c. now apply IH.
Qed.

Section PlainFixed.
  Variable ds : docs.
  Variable f : nat.

  Definition fixed_at (y : ydoc) : Prop :=
    forall vis res path, path <> [] \/ alookup (custom_id res) ds = None ->
      spec_node ds (S f) vis res path y = (y2item y, fl0).

  Lemma seq_children_fixed comp l : forall path i,
    (forall p c, In c l -> p <> [] -> comp p c = (y2item c, fl0)) ->
    seq_children comp path l i = (map y2item l, fl0).
  Proof.
    induction l as [|c l IH]; intros path i H; cbn [seq_children map]; [reflexivity|].
    rewrite (H _ c (or_introl eq_refl)) by (now destruct path).
    rewrite IH by (intros; apply H; auto; now right). reflexivity.
  Qed.

  Lemma map_children_fixed comp res m : forall path,
    (forall p e, In e m -> p <> [] -> comp p (snd e) = (y2item (snd e), fl0)) ->
    forallb (fun e => plain_key_b (fst e)) m = true ->
    map_children comp res path m = (map (fun e => (fst e, y2item (snd e), false)) m, [], [], fl0).
  Proof.
    induction m as [|[k c] m IH]; intros path H Hk; cbn [map_children map]; [reflexivity|].
    cbn [forallb fst] in Hk. apply andb_true_iff in Hk. destruct Hk as [Hk Hm].
    rewrite (H _ (k, c) (or_introl eq_refl)) by (now destruct path). cbn [snd fst].
    rewrite (parse_entry_plain res k _ Hk).
    rewrite IH by (auto; intros; apply H; auto; now right).
    unfold plain_key_b in Hk. apply andb_true_iff in Hk. destruct Hk as [_ Hp].
    apply negb_true_iff in Hp. rewrite Hp. reflexivity.
  Qed.

  Lemma plain_map_of_children (m : list (str * ydoc)) :
    plain_map (map (fun e => (fst e, y2item (snd e), false)) m) [] =
    fold_left (fun acc e => sset (fst e) (y2item (snd e)) acc) m [].
  Proof.
    rewrite plain_map_fold by (apply Forall_forall; intros x Hx; apply in_map_iff in Hx;
                               destruct Hx as [e [<- _]]; reflexivity).
    generalize (@nil (str * item)). induction m as [|e m IH]; intros acc; cbn [map fold_left]; [reflexivity|].
    apply IH.
  Qed.

  Lemma auto_dirs_vacuous rec vis res path y cur :
    path <> [] \/ alookup (custom_id res) ds = None ->
    apply_dirs rec ds vis ([] ++ [] ++ auto_dirs res path y) cur = (cur, fl0).
  Proof.
    intros H. unfold auto_dirs. destruct path as [|k path]; [|reflexivity].
    destruct H as [H|H]; [congruence|].
    destruct (auto_patched res y); [|reflexivity].
    cbn [app apply_dirs]. unfold lookup_ref. cbn [r_res auto_patch_ref]. rewrite H. reflexivity.
  Qed.

  Lemma directive_free_fixed : forall y, directive_free y = true -> fixed_at y.
  Proof.
    induction y as [|s|l IHl|m IHm] using ydoc_ind'; intros Hd vis res path Hp;
      rewrite spec_node_unfold; try reflexivity.
    - cbn [directive_free] in Hd. cbn zeta.
      rewrite (seq_children_fixed _ l path 0); [reflexivity|].
      intros p c Hc Hne. rewrite Forall_forall in IHl. apply IHl; [exact Hc| |now left].
      rewrite forallb_forall in Hd. now apply Hd.
    - cbn [directive_free] in Hd. cbn zeta.
      assert (Hk : forallb (fun e => plain_key_b (fst e)) m = true).
      { apply forallb_forall. intros e He. rewrite forallb_forall in Hd. specialize (Hd e He).
        now apply andb_true_iff in Hd. }
      rewrite (map_children_fixed _ res m path); [|
        intros p e He Hne; rewrite Forall_forall in IHm; apply IHm; [exact He| |now left];
        rewrite forallb_forall in Hd; specialize (Hd e He); now apply andb_true_iff in Hd | exact Hk].
      rewrite plain_map_of_children.
      rewrite (auto_dirs_vacuous _ _ res path (YMap m) _ Hp). reflexivity.
  Qed.

  (** a directive-free document without a .custom companion compiles to itself *)
  Theorem spec_plain_fixed name y :
    alookup (to_resource_id name) ds = Some y ->
    directive_free y = true ->
    alookup (custom_id (to_resource_id name)) ds = None ->
    ends_with (to_resource_id name) s_schema = false ->
    spec_link ds (S f) name = (true, y2item y, fl0, true).
  Proof.
    intros Hy Hd Hc Hs. unfold spec_link. rewrite Hy.
    rewrite (directive_free_fixed y Hd [] (to_resource_id name) [] (or_intror Hc)).
    cbn [f_err f_cyc f_oof fl0 orb]. now rewrite Hs.
  Qed.
End PlainFixed.
