(** Byte-string helpers used by the config-compiler models (C14).
    Model file: definitions only. *)
From Coq Require Import List NArith Arith Bool.
From Coq.Strings Require Import Byte.
From Coq.Strings Require String.
From RimeV Require Import Base.Bytes.
Import ListNotations.

Definition str := list byte.

Definition bs (s : String.string) : str := String.list_byte_of_string s.

Definition beqb (a b : byte) : bool := Byte.eqb a b.

Fixpoint str_eqb (a b : str) : bool :=
  match a, b with
  | [], [] => true
  | x :: a', y :: b' => beqb x y && str_eqb a' b'
  | _, _ => false
  end.

(* byte-wise lexicographic order: the order of std::map<string,_> *)
Fixpoint str_ltb (a b : str) : bool :=
  match a, b with
  | _, [] => false
  | [], _ :: _ => true
  | x :: a', y :: b' =>
      if N.ltb (N_of_byte x) (N_of_byte y) then true
      else if N.ltb (N_of_byte y) (N_of_byte x) then false
      else str_ltb a' b'
  end.

Fixpoint starts_with (s p : str) : bool :=
  match p, s with
  | [], _ => true
  | y :: p', x :: s' => beqb x y && starts_with s' p'
  | _ :: _, [] => false
  end.

Definition ends_with (s p : str) : bool := starts_with (rev s) (rev p).

(* boost::erase_last_copy(s, sub): remove the last occurrence of sub (if any).
   Done on the reversed strings: remove the first occurrence of rev sub. *)
Fixpoint erase_first (s sub : str) : str :=
  match s with
  | [] => []
  | x :: s' => if starts_with s sub then skipn (length sub) s else x :: erase_first s' sub
  end.
Definition erase_last (s sub : str) : str :=
  match sub with
  | [] => s
  | _ => rev (erase_first (rev s) (rev sub))
  end.

Definition remove_suffix (s suf : str) : str :=
  if ends_with s suf then firstn (length s - length suf) s else s.

(* split on one separator byte, keeping empty tokens (boost::split, compress off) *)
Fixpoint split_on (c : byte) (s : str) (cur : str) : list str :=
  match s with
  | [] => [rev cur]
  | x :: s' => if beqb x c then rev cur :: split_on c s' [] else split_on c s' (x :: cur)
  end.

Fixpoint trim_left (c : byte) (s : str) : str :=
  match s with
  | x :: s' => if beqb x c then trim_left c s' else s
  | [] => []
  end.
Definition trim_right (c : byte) (s : str) : str := rev (trim_left c (rev s)).

Fixpoint join_with (sep : str) (l : list str) : str :=
  match l with
  | [] => []
  | [x] => x
  | x :: l' => x ++ sep ++ join_with sep l'
  end.

Fixpoint find_first (c : byte) (s : str) : option nat :=
  match s with
  | [] => None
  | x :: s' => if beqb x c then Some 0 else option_map S (find_first c s')
  end.
Definition find_last (c : byte) (s : str) : option nat :=
  match find_first c (rev s) with
  | Some i => Some (length s - 1 - i)
  | None => None
  end.

(* substr(pos, len) for pos <= size *)
Definition substr (s : str) (pos len : nat) : str := firstn len (skipn pos s).

Definition is_digit (b : byte) : bool :=
  let n := N_of_byte b in N.leb 48 n && N.leb n 57.
Definition is_alnum (b : byte) : bool :=
  let n := N_of_byte b in
  (N.leb 48 n && N.leb n 57) || (N.leb 65 n && N.leb n 90) || (N.leb 97 n && N.leb n 122).
Definition is_space (b : byte) : bool :=
  let n := N_of_byte b in N.eqb n 32 || (N.leb 9 n && N.leb n 13).

Fixpoint parse_digits (s : str) (acc : nat) : nat :=
  match s with
  | x :: s' => if is_digit x then parse_digits s' (10 * acc + N.to_nat (N_of_byte x) - 48) else acc
  | [] => acc
  end.
Fixpoint skip_spaces (s : str) : str :=
  match s with
  | x :: s' => if is_space x then skip_spaces s' else s
  | [] => []
  end.
(* strtoul(s, NULL, 10) on the domain without a minus sign: blanks, optional '+', digits *)
Definition strtoul (s : str) : nat :=
  let s1 := skip_spaces s in
  let s2 := match s1 with x :: r => if beqb x "+"%byte then r else s1 | [] => [] end in
  parse_digits s2 0.

Definition digit_byte (d : nat) : byte := byte_of_N (N.of_nat (48 + d)).
Fixpoint fmt_nat_aux (fuel n : nat) (acc : str) : str :=
  match fuel with
  | 0 => acc
  | S f => let acc' := digit_byte (n mod 10) :: acc in
           if n / 10 =? 0 then acc' else fmt_nat_aux f (n / 10) acc'
  end.
Definition fmt_nat (n : nat) : str := fmt_nat_aux (S n) n [].

(* assoc lists keyed by strings *)
Fixpoint alookup {A} (k : str) (m : list (str * A)) : option A :=
  match m with
  | [] => None
  | (k', v) :: m' => if str_eqb k k' then Some v else alookup k m'
  end.
Fixpoint aset {A} (k : str) (v : A) (m : list (str * A)) : list (str * A) :=
  match m with
  | [] => [(k, v)]
  | (k', v') :: m' => if str_eqb k k' then (k, v) :: m' else (k', v') :: aset k v m'
  end.
(* sorted insertion: std::map<string,_>::operator[] = *)
Fixpoint sset {A} (k : str) (v : A) (m : list (str * A)) : list (str * A) :=
  match m with
  | [] => [(k, v)]
  | (k', v') :: m' =>
      if str_eqb k k' then (k, v) :: m'
      else if str_ltb k k' then (k, v) :: (k', v') :: m'
      else (k', v') :: sset k v m'
  end.
Definition mem_str (k : str) (l : list str) : bool := existsb (str_eqb k) l.
