(** C09 – spelling algebra and the prism preserve the spelling-to-syllable relation.
    Property theorems only; each closed by [exact] of a lemma proved in
    Dict/AlgebraProofs.v or Dict/PrismProofs.v.

    Throughout, a calculation is a record [mkCalc kind apply] whose [apply] – the
    effect of boost::regex / the xlit map on one string – is an ARBITRARY function
    [bytes -> option spelling]; the theorems hold for all of them, for all
    syllabaries and all rule lists (induction over the lists). *)
From Coq Require Import List Arith ZArith.
From Coq.Strings Require Import Byte.
From RimeV Require Import Base.Bytes Dict.Algebra Dict.PrismModel Dict.AlgebraProofs Dict.PrismProofs.
Import ListNotations.

(** The non-deleting rule kinds are exactly derive, fuzz and abbrev (calculus.h). *)
Theorem C09_non_deleting_kinds :
  forall k, kind_deletion k = false <-> (k = Derive \/ k = Fuzz \/ k = Abbrev).
Proof. exact kind_flags_non_deleting. Qed.
Print Assumptions C09_non_deleting_kinds.

(** Every script the algebra produces from a syllabary is a well-formed std::map:
    keys strictly increasing in std::string order. *)
Theorem C09_script_sorted :
  forall syls calcs, script_ok (project_script calcs (init_script syls)).
Proof. exact script_always_sorted. Qed.
Print Assumptions C09_script_sorted.

(** (a) Every spelling of the resulting table denotes at least one syllable, all its
    syllables belong to the syllabary, and the spelling is not the empty string. *)
Theorem C09_denotes_some_syllable :
  forall syls calcs k l,
  (forall s, In s syls -> s <> []) ->
  map_find k (project_script calcs (init_script syls)) = Some l ->
  k <> [] /\ l <> [] /\ forall x, In x l -> In (sstr x) syls.
Proof. exact denotes_some_syllable. Qed.
Print Assumptions C09_denotes_some_syllable.

(** (b) A non-deleting rule (derive, fuzz, abbrev) removes no existing (spelling,
    syllable) pair – and leaves its type no worse and its credibility no lower.
    For any script whatsoever. *)
Theorem C09_additive_rule_keeps :
  forall c sc k l x,
  deletion c = false -> map_find k sc = Some l -> In x l ->
  exists l' x', map_find k (round c sc) = Some l' /\ In x' l' /\ le_sp x' x.
Proof. exact additive_rule_keeps. Qed.
Print Assumptions C09_additive_rule_keeps.

Theorem C09_additive_rules_keep :
  forall calcs sc k l x,
  (forall c, In c calcs -> deletion c = false) ->
  map_find k sc = Some l -> In x l ->
  exists l' x', map_find k (project_script calcs sc) = Some l' /\ In x' l' /\ le_sp x' x.
Proof. exact additive_rules_keep. Qed.
Print Assumptions C09_additive_rules_keep.

(** (c) One round: a (spelling, syllable) pair disappears only if the rule is a
    deleting one and matched the spelling. *)
Theorem C09_round_loses_only_if_matched :
  forall c sc k l x,
  map_find k sc = Some l -> In x l ->
  ~ spells (round c sc) k (sstr x) ->
  deletion c = true /\ capply c k <> None.
Proof. exact round_loses_only_if_matched. Qed.
Print Assumptions C09_round_loses_only_if_matched.

(** (c) A syllable stops being spellable by its own name only if a replacing or
    erasing rule of the list matches that name. *)
Theorem C09_own_name_lost_only_if_matched :
  forall syls calcs s,
  In s syls ->
  ~ spells (project_script calcs (init_script syls)) s s ->
  exists c, In c calcs /\ deletion c = true /\ capply c s <> None.
Proof. exact own_name_lost_only_if_matched. Qed.
Print Assumptions C09_own_name_lost_only_if_matched.

(** ... and as long as no such rule matches it, it stays a normal spelling of
    undiminished credibility. *)
Theorem C09_own_name_stays_normal :
  forall syls calcs s,
  In s syls ->
  (forall c, In c calcs -> matched_by_deleting s c = false) ->
  exists l x, map_find s (project_script calcs (init_script syls)) = Some l /\ In x l /\
              sstr x = s /\ ptype (sprops x) = kNormalSpelling /\ (0 <= pcred (sprops x))%Z.
Proof. exact own_name_stays_normal. Qed.
Print Assumptions C09_own_name_stays_normal.

(** (d) Prism round trip, any script: for every spelling of the script GetValue
    returns its rank in map order and QuerySpelling of that id returns exactly the
    script's list (syllable id, type, credibility through the float cast, tips);
    for every other string GetValue fails.  [fcast] is arbitrary. *)
Theorem C09_prism_roundtrip :
  forall (fcred : Type) (fcast : Z -> fcred) syls (sc : script),
  let p := build fcred fcast syls (Some sc) in
  (forall k l, map_find k sc = Some l -> l <> [] ->
     exists i, get_value fcred p k = Some i /\ nth_error sc i = Some (k, l) /\
               query_spelling fcred fcast p i = map (desc_of fcred fcast syls) l) /\
  (forall k, map_find k sc = None -> get_value fcred p k = None).
Proof. exact prism_roundtrip. Qed.
Print Assumptions C09_prism_roundtrip.

(** (d) The same for the prism compiled from a syllabary and a rule list
    (dict_compiler.cc): every descriptor read back names, by its rank in the
    syllabary, the syllable the script has at that position, with the same type,
    credibility (cast) and tips. *)
Theorem C09_prism_roundtrip_compiled :
  forall (fcred : Type) (fcast : Z -> fcred) syls calcs sc,
  (forall s, In s syls -> s <> []) ->
  compile_script syls calcs = Some sc ->
  let p := compile fcred fcast syls calcs in
  (forall k l, map_find k sc = Some l ->
     exists i, get_value fcred p k = Some i /\ nth_error sc i = Some (k, l) /\
               Forall2 (desc_matches fcred fcast syls) (query_spelling fcred fcast p i) l) /\
  (forall k, map_find k sc = None -> get_value fcred p k = None).
Proof. exact prism_roundtrip_compiled. Qed.
Print Assumptions C09_prism_roundtrip_compiled.

(** (d) When the algebra does not apply (or erases everything) the prism is built from
    the syllabary alone: every syllable is its own spelling. *)
Theorem C09_prism_roundtrip_null :
  forall (fcred : Type) (fcast : Z -> fcred) syls,
  let p := build fcred fcast syls None in
  (forall s i, nth_error syls i = Some s -> NoDup syls ->
     get_value fcred p s = Some i /\
     query_spelling fcred fcast p i = [mkDesc fcred i kNormalSpelling (fcast 0%Z) []]) /\
  (forall s, ~ In s syls -> get_value fcred p s = None).
Proof. exact prism_roundtrip_null. Qed.
Print Assumptions C09_prism_roundtrip_null.

(** (e) Exact-match search agrees with the key set: the id is the position of the key. *)
Theorem C09_exact_match :
  forall (fcred : Type) (p : prism fcred) key,
  get_value fcred p key = index_of key (p_keys fcred p).
Proof. exact get_value_index. Qed.
Print Assumptions C09_exact_match.

(** (e) Common-prefix search returns exactly the (id, length) of every non-empty prefix
    of the query that is a key, shortest first. *)
Theorem C09_common_prefix_exact :
  forall (fcred : Type) (p : prism fcred) q,
  common_prefix_search fcred p q = cps_spec (p_keys fcred p) q.
Proof. exact common_prefix_exact. Qed.
Print Assumptions C09_common_prefix_exact.

Theorem C09_common_prefix_members :
  forall keys q v m, NoDup keys ->
  (In (v, m) (cps_spec keys q) <-> 1 <= m <= length q /\ nth_error keys v = Some (firstn m q)).
Proof. exact cps_spec_In. Qed.
Print Assumptions C09_common_prefix_members.

(** (e) Expand search, as coded (FIFO queue, alphabet scan, early return at the limit):
    it never runs out of the fuel the model gives it and returns [expand_spec] – the
    query itself if it is a key, then level by level every key extending the query, in
    lexicographic order of the stored (signed-char sorted) alphabet – cut at the limit
    (0 = no limit). *)
Theorem C09_expand_exact :
  forall (fcred : Type) (p : prism fcred) q L,
  wf_prism fcred p ->
  expand_search_fuel fcred p q L =
  (let all := expand_spec (p_keys fcred p) (p_alphabet fcred p) q
                          (node_weight (walk q (trie_root (p_keys fcred p)))) in
   if L =? 0 then all else firstn L all, true).
Proof. exact expand_exact. Qed.
Print Assumptions C09_expand_exact.

Theorem C09_built_prism_wf :
  forall (fcred : Type) (fcast : Z -> fcred) syls sc, wf_prism fcred (build fcred fcast syls sc).
Proof. exact build_wf. Qed.
Print Assumptions C09_built_prism_wf.

(** The stored alphabet is the set of bytes of the keys, strictly increasing as signed
    chars (std::set<char>), hence duplicate-free. *)
Theorem C09_alphabet :
  forall keys,
  asorted (alphabet_of keys) /\
  forall c, In c (alphabet_of keys) <-> exists k, In k keys /\ In c k.
Proof. exact alphabet_of_spec. Qed.
Print Assumptions C09_alphabet.

(** (e) ... and the unlimited result contains exactly the keys extending the query. *)
Theorem C09_expand_members :
  forall (fcred : Type) (p : prism fcred) q v n,
  wf_prism fcred p -> NoDup (p_keys fcred p) ->
  (In (v, n) (expand_search fcred p q 0) <->
   exists w, nth_error (p_keys fcred p) v = Some (q ++ w) /\ n = length (q ++ w)).
Proof. exact expand_members. Qed.
Print Assumptions C09_expand_members.

(** Non-vacuity: a concrete syllabary {ba, bo, pa} with derive, fuzz, abbrev and erase
    rules: the table, a syllable that lost its own name to the erase rule, one that
    kept it, and the compiled prism's answers. *)
Theorem C09_example_table :
  AlgebraProofs.Example.result =
  [ ([x62], [mkSp [x62; x61] (mkProps 2 (-1) []); mkSp [x70; x61] (mkProps 2 (-2) []);
             mkSp [x62; x6f] (mkProps 2 (-1) [])]);
    ([x62; x61], [mkSp [x62; x61] (mkProps 0 0 []); mkSp [x70; x61] (mkProps 1 (-1) [])]);
    ([x70], [mkSp [x62; x61] (mkProps 2 (-1) []); mkSp [x70; x61] (mkProps 2 (-1) [])]);
    ([x70; x61], [mkSp [x62; x61] (mkProps 0 0 []); mkSp [x70; x61] (mkProps 0 0 [])]) ].
Proof. exact AlgebraProofs.Example.result_value. Qed.
Print Assumptions C09_example_table.

Theorem C09_example_own_name_lost :
  ~ spells AlgebraProofs.Example.result [x62; x6f] [x62; x6f] /\
  In AlgebraProofs.Example.c_erase AlgebraProofs.Example.rules /\
  deletion AlgebraProofs.Example.c_erase = true /\
  capply AlgebraProofs.Example.c_erase [x62; x6f] <> None.
Proof. exact (conj AlgebraProofs.Example.bo_lost AlgebraProofs.Example.bo_matched). Qed.
Print Assumptions C09_example_own_name_lost.

Theorem C09_example_own_name_kept :
  forall c, In c AlgebraProofs.Example.rules -> matched_by_deleting [x62; x61] c = false.
Proof. exact AlgebraProofs.Example.ba_unmatched. Qed.
Print Assumptions C09_example_own_name_kept.

Theorem C09_example_prism :
  get_value Z PrismExample.p [x62; x61] = Some 1 /\
  query_spelling Z (fun c => c) PrismExample.p 1 = [mkDesc Z 0 0 0%Z []; mkDesc Z 2 1 (-1)%Z []] /\
  get_value Z PrismExample.p [x62; x6f] = None /\
  common_prefix_search Z PrismExample.p [x70; x61; x6f] = [(2, 1); (3, 2)] /\
  expand_search_fuel Z PrismExample.p [] 0 = ([(0, 1); (2, 1); (1, 2); (3, 2)], true) /\
  expand_search_fuel Z PrismExample.p [] 3 = ([(0, 1); (2, 1); (1, 2)], true).
Proof.
  exact (conj PrismExample.get_ba (conj PrismExample.query_ba (conj PrismExample.get_bo
        (conj PrismExample.cps_pa (conj PrismExample.expand_empty PrismExample.expand_empty_3))))).
Qed.
Print Assumptions C09_example_prism.
