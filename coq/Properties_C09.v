(** C09 – spelling algebra and the prism preserve the spelling-to-syllable relation.
    Property theorems only; each closed by [exact] of a lemma proved elsewhere. *)
From Coq Require Import List Arith ZArith.
From RimeV Require Import Base.Bytes Dict.Algebra Dict.PrismModel Dict.AlgebraProofs.
Import ListNotations.

(** The non-deleting rule kinds are exactly derive, fuzz and abbrev (calculus.h). *)
Theorem C09_non_deleting_kinds :
  forall k, kind_deletion k = false <-> (k = Derive \/ k = Fuzz \/ k = Abbrev).
Proof. exact kind_flags_non_deleting. Qed.
Print Assumptions C09_non_deleting_kinds.
