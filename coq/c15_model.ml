
(** val negb : bool -> bool **)

let negb = function
| true -> false
| false -> true

type nat =
| O
| S of nat

(** val fst : ('a1 * 'a2) -> 'a1 **)

let fst = function
| (x, _) -> x

(** val snd : ('a1 * 'a2) -> 'a2 **)

let snd = function
| (_, y) -> y

(** val app : 'a1 list -> 'a1 list -> 'a1 list **)

let rec app l m =
  match l with
  | [] -> m
  | a :: l1 -> a :: (app l1 m)

(** val sub : nat -> nat -> nat **)

let rec sub n0 m =
  match n0 with
  | O -> n0
  | S k -> (match m with
            | O -> n0
            | S l -> sub k l)

type positive =
| XI of positive
| XO of positive
| XH

type n =
| N0
| Npos of positive

(** val eqb : bool -> bool -> bool **)

let eqb b1 b2 =
  if b1 then b2 else if b2 then false else true

module Nat =
 struct
  (** val eqb : nat -> nat -> bool **)

  let rec eqb n0 m =
    match n0 with
    | O -> (match m with
            | O -> true
            | S _ -> false)
    | S n' -> (match m with
               | O -> false
               | S m' -> eqb n' m')

  (** val leb : nat -> nat -> bool **)

  let rec leb n0 m =
    match n0 with
    | O -> true
    | S n' -> (match m with
               | O -> false
               | S m' -> leb n' m')
 end

module Pos =
 struct
  (** val succ : positive -> positive **)

  let rec succ = function
  | XI p -> XO (succ p)
  | XO p -> XI p
  | XH -> XO XH

  (** val of_succ_nat : nat -> positive **)

  let rec of_succ_nat = function
  | O -> XH
  | S x -> succ (of_succ_nat x)
 end

module N =
 struct
  (** val of_nat : nat -> n **)

  let of_nat = function
  | O -> N0
  | S n' -> Npos (Pos.of_succ_nat n')
 end

(** val nth : nat -> 'a1 list -> 'a1 -> 'a1 **)

let rec nth n0 l default =
  match n0 with
  | O -> (match l with
          | [] -> default
          | x :: _ -> x)
  | S m -> (match l with
            | [] -> default
            | _ :: t -> nth m t default)

(** val nth_error : 'a1 list -> nat -> 'a1 option **)

let rec nth_error l = function
| O -> (match l with
        | [] -> None
        | x :: _ -> Some x)
| S n1 -> (match l with
           | [] -> None
           | _ :: l0 -> nth_error l0 n1)

(** val map : ('a1 -> 'a2) -> 'a1 list -> 'a2 list **)

let rec map f = function
| [] -> []
| a :: t -> (f a) :: (map f t)

(** val existsb : ('a1 -> bool) -> 'a1 list -> bool **)

let rec existsb f = function
| [] -> false
| a :: l0 -> (||) (f a) (existsb f l0)

(** val forallb : ('a1 -> bool) -> 'a1 list -> bool **)

let rec forallb f = function
| [] -> true
| a :: l0 -> (&&) (f a) (forallb f l0)

(** val filter : ('a1 -> bool) -> 'a1 list -> 'a1 list **)

let rec filter f = function
| [] -> []
| x :: l0 -> if f x then x :: (filter f l0) else filter f l0

type ascii =
| Ascii of bool * bool * bool * bool * bool * bool * bool * bool

(** val eqb0 : ascii -> ascii -> bool **)

let eqb0 a b =
  let Ascii (a0, a1, a2, a3, a4, a5, a6, a7) = a in
  let Ascii (b0, b1, b2, b3, b4, b5, b6, b7) = b in
  if if if if if if if eqb a0 b0 then eqb a1 b1 else false
                 then eqb a2 b2
                 else false
              then eqb a3 b3
              else false
           then eqb a4 b4
           else false
        then eqb a5 b5
        else false
     then eqb a6 b6
     else false
  then eqb a7 b7
  else false

type string =
| EmptyString
| String of ascii * string

(** val eqb1 : string -> string -> bool **)

let rec eqb1 s1 s2 =
  match s1 with
  | EmptyString ->
    (match s2 with
     | EmptyString -> true
     | String (_, _) -> false)
  | String (c1, s1') ->
    (match s2 with
     | EmptyString -> false
     | String (c2, s2') -> if eqb0 c1 c2 then eqb1 s1' s2' else false)

type akind =
| ARead
| AWrite
| ACall
| AUnknown

type acc_row = { a_fn : string; a_var : string; a_kind : akind;
                 a_locks : string list }

(** val akind_eqb : akind -> akind -> bool **)

let akind_eqb a b =
  match a with
  | ARead -> (match b with
              | ARead -> true
              | _ -> false)
  | AWrite -> (match b with
               | AWrite -> true
               | _ -> false)
  | ACall -> (match b with
              | ACall -> true
              | _ -> false)
  | AUnknown -> (match b with
                 | AUnknown -> true
                 | _ -> false)

(** val has_lock : string -> acc_row -> bool **)

let has_lock m r =
  existsb (eqb1 m) r.a_locks

(** val rows : acc_row list -> string -> acc_row list **)

let rows tbl fn =
  filter (fun r -> eqb1 r.a_fn fn) tbl

(** val rows_var : acc_row list -> string -> string -> acc_row list **)

let rows_var tbl fn var =
  filter (fun r -> eqb1 r.a_var var) (rows tbl fn)

(** val all_locked : string -> acc_row list -> bool **)

let all_locked m rs =
  (&&) (negb (match rs with
              | [] -> true
              | _ :: _ -> false)) (forallb (has_lock m) rs)

(** val dMUTEX : string **)

let dMUTEX =
  String ((Ascii (false, false, true, false, false, false, true, false)),
    (String ((Ascii (true, false, true, false, false, true, true, false)),
    (String ((Ascii (false, false, false, false, true, true, true, false)),
    (String ((Ascii (false, false, true, true, false, true, true, false)),
    (String ((Ascii (true, true, true, true, false, true, true, false)),
    (String ((Ascii (true, false, false, true, true, true, true, false)),
    (String ((Ascii (true, false, true, false, false, true, true, false)),
    (String ((Ascii (false, true, false, false, true, true, true, false)),
    (String ((Ascii (false, true, false, true, true, true, false, false)),
    (String ((Ascii (false, true, false, true, true, true, false, false)),
    (String ((Ascii (true, false, true, true, false, true, true, false)),
    (String ((Ascii (true, false, true, false, true, true, true, false)),
    (String ((Ascii (false, false, true, false, true, true, true, false)),
    (String ((Ascii (true, false, true, false, false, true, true, false)),
    (String ((Ascii (false, false, false, true, true, true, true, false)),
    (String ((Ascii (true, true, true, true, true, false, true, false)),
    EmptyString)))))))))))))))))))))))))))))))

(** val sMUTEX : string **)

let sMUTEX =
  String ((Ascii (true, true, false, false, true, false, true, false)),
    (String ((Ascii (true, false, true, false, false, true, true, false)),
    (String ((Ascii (false, true, false, false, true, true, true, false)),
    (String ((Ascii (false, true, true, false, true, true, true, false)),
    (String ((Ascii (true, false, false, true, false, true, true, false)),
    (String ((Ascii (true, true, false, false, false, true, true, false)),
    (String ((Ascii (true, false, true, false, false, true, true, false)),
    (String ((Ascii (false, true, false, true, true, true, false, false)),
    (String ((Ascii (false, true, false, true, true, true, false, false)),
    (String ((Ascii (true, false, true, true, false, true, true, false)),
    (String ((Ascii (true, false, true, false, true, true, true, false)),
    (String ((Ascii (false, false, true, false, true, true, true, false)),
    (String ((Ascii (true, false, true, false, false, true, true, false)),
    (String ((Ascii (false, false, false, true, true, true, true, false)),
    (String ((Ascii (true, true, true, true, true, false, true, false)),
    EmptyString)))))))))))))))))))))))))))))

(** val vQUEUE : string **)

let vQUEUE =
  String ((Ascii (false, false, true, false, false, false, true, false)),
    (String ((Ascii (true, false, true, false, false, true, true, false)),
    (String ((Ascii (false, false, false, false, true, true, true, false)),
    (String ((Ascii (false, false, true, true, false, true, true, false)),
    (String ((Ascii (true, true, true, true, false, true, true, false)),
    (String ((Ascii (true, false, false, true, true, true, true, false)),
    (String ((Ascii (true, false, true, false, false, true, true, false)),
    (String ((Ascii (false, true, false, false, true, true, true, false)),
    (String ((Ascii (false, true, false, true, true, true, false, false)),
    (String ((Ascii (false, true, false, true, true, true, false, false)),
    (String ((Ascii (false, false, false, false, true, true, true, false)),
    (String ((Ascii (true, false, true, false, false, true, true, false)),
    (String ((Ascii (false, true, true, true, false, true, true, false)),
    (String ((Ascii (false, false, true, false, false, true, true, false)),
    (String ((Ascii (true, false, false, true, false, true, true, false)),
    (String ((Ascii (false, true, true, true, false, true, true, false)),
    (String ((Ascii (true, true, true, false, false, true, true, false)),
    (String ((Ascii (true, true, true, true, true, false, true, false)),
    (String ((Ascii (false, false, true, false, true, true, true, false)),
    (String ((Ascii (true, false, false, false, false, true, true, false)),
    (String ((Ascii (true, true, false, false, true, true, true, false)),
    (String ((Ascii (true, true, false, true, false, true, true, false)),
    (String ((Ascii (true, true, false, false, true, true, true, false)),
    (String ((Ascii (true, true, true, true, true, false, true, false)),
    EmptyString)))))))))))))))))))))))))))))))))))))))))))))))

(** val vHANDLER : string **)

let vHANDLER =
  String ((Ascii (true, true, false, false, true, false, true, false)),
    (String ((Ascii (true, false, true, false, false, true, true, false)),
    (String ((Ascii (false, true, false, false, true, true, true, false)),
    (String ((Ascii (false, true, true, false, true, true, true, false)),
    (String ((Ascii (true, false, false, true, false, true, true, false)),
    (String ((Ascii (true, true, false, false, false, true, true, false)),
    (String ((Ascii (true, false, true, false, false, true, true, false)),
    (String ((Ascii (false, true, false, true, true, true, false, false)),
    (String ((Ascii (false, true, false, true, true, true, false, false)),
    (String ((Ascii (false, true, true, true, false, true, true, false)),
    (String ((Ascii (true, true, true, true, false, true, true, false)),
    (String ((Ascii (false, false, true, false, true, true, true, false)),
    (String ((Ascii (true, false, false, true, false, true, true, false)),
    (String ((Ascii (false, true, true, false, false, true, true, false)),
    (String ((Ascii (true, false, false, true, false, true, true, false)),
    (String ((Ascii (true, true, false, false, false, true, true, false)),
    (String ((Ascii (true, false, false, false, false, true, true, false)),
    (String ((Ascii (false, false, true, false, true, true, true, false)),
    (String ((Ascii (true, false, false, true, false, true, true, false)),
    (String ((Ascii (true, true, true, true, false, true, true, false)),
    (String ((Ascii (false, true, true, true, false, true, true, false)),
    (String ((Ascii (true, true, true, true, true, false, true, false)),
    (String ((Ascii (false, false, false, true, false, true, true, false)),
    (String ((Ascii (true, false, false, false, false, true, true, false)),
    (String ((Ascii (false, true, true, true, false, true, true, false)),
    (String ((Ascii (false, false, true, false, false, true, true, false)),
    (String ((Ascii (false, false, true, true, false, true, true, false)),
    (String ((Ascii (true, false, true, false, false, true, true, false)),
    (String ((Ascii (false, true, false, false, true, true, true, false)),
    (String ((Ascii (true, true, true, true, true, false, true, false)),
    EmptyString)))))))))))))))))))))))))))))))))))))))))))))))))))))))))))

(** val vSINK : string **)

let vSINK =
  String ((Ascii (false, false, true, false, false, false, true, false)),
    (String ((Ascii (true, false, true, false, false, true, true, false)),
    (String ((Ascii (false, false, false, false, true, true, true, false)),
    (String ((Ascii (false, false, true, true, false, true, true, false)),
    (String ((Ascii (true, true, true, true, false, true, true, false)),
    (String ((Ascii (true, false, false, true, true, true, true, false)),
    (String ((Ascii (true, false, true, false, false, true, true, false)),
    (String ((Ascii (false, true, false, false, true, true, true, false)),
    (String ((Ascii (false, true, false, true, true, true, false, false)),
    (String ((Ascii (false, true, false, true, true, true, false, false)),
    (String ((Ascii (true, false, true, true, false, true, true, false)),
    (String ((Ascii (true, false, true, false, false, true, true, false)),
    (String ((Ascii (true, true, false, false, true, true, true, false)),
    (String ((Ascii (true, true, false, false, true, true, true, false)),
    (String ((Ascii (true, false, false, false, false, true, true, false)),
    (String ((Ascii (true, true, true, false, false, true, true, false)),
    (String ((Ascii (true, false, true, false, false, true, true, false)),
    (String ((Ascii (true, true, true, true, true, false, true, false)),
    (String ((Ascii (true, true, false, false, true, true, true, false)),
    (String ((Ascii (true, false, false, true, false, true, true, false)),
    (String ((Ascii (false, true, true, true, false, true, true, false)),
    (String ((Ascii (true, true, false, true, false, true, true, false)),
    (String ((Ascii (true, true, true, true, true, false, true, false)),
    EmptyString)))))))))))))))))))))))))))))))))))))))))))))

(** val vRUNNING : string **)

let vRUNNING =
  String ((Ascii (false, false, true, false, false, false, true, false)),
    (String ((Ascii (true, false, true, false, false, true, true, false)),
    (String ((Ascii (false, false, false, false, true, true, true, false)),
    (String ((Ascii (false, false, true, true, false, true, true, false)),
    (String ((Ascii (true, true, true, true, false, true, true, false)),
    (String ((Ascii (true, false, false, true, true, true, true, false)),
    (String ((Ascii (true, false, true, false, false, true, true, false)),
    (String ((Ascii (false, true, false, false, true, true, true, false)),
    (String ((Ascii (false, true, false, true, true, true, false, false)),
    (String ((Ascii (false, true, false, true, true, true, false, false)),
    (String ((Ascii (false, true, false, false, true, true, true, false)),
    (String ((Ascii (true, false, true, false, true, true, true, false)),
    (String ((Ascii (false, true, true, true, false, true, true, false)),
    (String ((Ascii (false, true, true, true, false, true, true, false)),
    (String ((Ascii (true, false, false, true, false, true, true, false)),
    (String ((Ascii (false, true, true, true, false, true, true, false)),
    (String ((Ascii (true, true, true, false, false, true, true, false)),
    (String ((Ascii (true, true, true, true, true, false, true, false)),
    EmptyString)))))))))))))))))))))))))))))))))))

(** val vMM : string **)

let vMM =
  String ((Ascii (false, false, true, false, false, false, true, false)),
    (String ((Ascii (true, false, true, false, false, true, true, false)),
    (String ((Ascii (false, false, false, false, true, true, true, false)),
    (String ((Ascii (false, false, true, true, false, true, true, false)),
    (String ((Ascii (true, true, true, true, false, true, true, false)),
    (String ((Ascii (true, false, false, true, true, true, true, false)),
    (String ((Ascii (true, false, true, false, false, true, true, false)),
    (String ((Ascii (false, true, false, false, true, true, true, false)),
    (String ((Ascii (false, true, false, true, true, true, false, false)),
    (String ((Ascii (false, true, false, true, true, true, false, false)),
    (String ((Ascii (true, false, true, true, false, true, true, false)),
    (String ((Ascii (true, false, false, false, false, true, true, false)),
    (String ((Ascii (true, false, false, true, false, true, true, false)),
    (String ((Ascii (false, true, true, true, false, true, true, false)),
    (String ((Ascii (false, false, true, false, true, true, true, false)),
    (String ((Ascii (true, false, true, false, false, true, true, false)),
    (String ((Ascii (false, true, true, true, false, true, true, false)),
    (String ((Ascii (true, false, false, false, false, true, true, false)),
    (String ((Ascii (false, true, true, true, false, true, true, false)),
    (String ((Ascii (true, true, false, false, false, true, true, false)),
    (String ((Ascii (true, false, true, false, false, true, true, false)),
    (String ((Ascii (true, true, true, true, true, false, true, false)),
    (String ((Ascii (true, false, true, true, false, true, true, false)),
    (String ((Ascii (true, true, true, true, false, true, true, false)),
    (String ((Ascii (false, false, true, false, false, true, true, false)),
    (String ((Ascii (true, false, true, false, false, true, true, false)),
    (String ((Ascii (true, true, true, true, true, false, true, false)),
    EmptyString)))))))))))))))))))))))))))))))))))))))))))))))))))))

(** val vWORK : string **)

let vWORK =
  String ((Ascii (false, false, true, false, false, false, true, false)),
    (String ((Ascii (true, false, true, false, false, true, true, false)),
    (String ((Ascii (false, false, false, false, true, true, true, false)),
    (String ((Ascii (false, false, true, true, false, true, true, false)),
    (String ((Ascii (true, true, true, true, false, true, true, false)),
    (String ((Ascii (true, false, false, true, true, true, true, false)),
    (String ((Ascii (true, false, true, false, false, true, true, false)),
    (String ((Ascii (false, true, false, false, true, true, true, false)),
    (String ((Ascii (false, true, false, true, true, true, false, false)),
    (String ((Ascii (false, true, false, true, true, true, false, false)),
    (String ((Ascii (true, true, true, false, true, true, true, false)),
    (String ((Ascii (true, true, true, true, false, true, true, false)),
    (String ((Ascii (false, true, false, false, true, true, true, false)),
    (String ((Ascii (true, true, false, true, false, true, true, false)),
    (String ((Ascii (true, true, true, true, true, false, true, false)),
    EmptyString)))))))))))))))))))))))))))))

type handover =
| HFuture
| HFlag
| HUnrecognised

(** val handover_eqb : handover -> handover -> bool **)

let handover_eqb a b =
  match a with
  | HFuture -> (match b with
                | HFuture -> true
                | _ -> false)
  | HFlag -> (match b with
              | HFlag -> true
              | _ -> false)
  | HUnrecognised -> (match b with
                      | HUnrecognised -> true
                      | _ -> false)

type cfg = { lk_sched : bool; lk_next : bool; lk_hasp : bool; lk_set : 
             bool; lk_clear : bool; lk_ntest : bool; lk_ncall : bool;
             ho : handover }

(** val nw : cfg -> bool **)

let nw c =
  match c.ho with
  | HFlag -> true
  | _ -> false

(** val nth_locked : acc_row list -> nat -> string -> bool **)

let nth_locked rs n0 m =
  match nth_error rs n0 with
  | Some r -> has_lock m r
  | None -> false

(** val shape : acc_row list -> string -> (string * akind) list **)

let shape tbl fn =
  map (fun r -> (r.a_var, r.a_kind)) (rows tbl fn)

(** val pair_eqb : (string * akind) -> (string * akind) -> bool **)

let pair_eqb a b =
  (&&) (eqb1 (fst a) (fst b)) (akind_eqb (snd a) (snd b))

(** val list_eqb : ('a1 -> 'a1 -> bool) -> 'a1 list -> 'a1 list -> bool **)

let rec list_eqb eqb2 a b =
  match a with
  | [] -> (match b with
           | [] -> true
           | _ :: _ -> false)
  | x :: a' ->
    (match b with
     | [] -> false
     | y :: b' -> (&&) (eqb2 x y) (list_eqb eqb2 a' b'))

(** val expected_shapes : (string * (string * akind) list) list **)

let expected_shapes =
  ((String ((Ascii (false, false, true, false, false, false, true, false)),
    (String ((Ascii (true, false, true, false, false, true, true, false)),
    (String ((Ascii (false, false, false, false, true, true, true, false)),
    (String ((Ascii (false, false, true, true, false, true, true, false)),
    (String ((Ascii (true, true, true, true, false, true, true, false)),
    (String ((Ascii (true, false, false, true, true, true, true, false)),
    (String ((Ascii (true, false, true, false, false, true, true, false)),
    (String ((Ascii (false, true, false, false, true, true, true, false)),
    (String ((Ascii (false, true, false, true, true, true, false, false)),
    (String ((Ascii (false, true, false, true, true, true, false, false)),
    (String ((Ascii (true, true, false, false, true, false, true, false)),
    (String ((Ascii (true, true, false, false, false, true, true, false)),
    (String ((Ascii (false, false, false, true, false, true, true, false)),
    (String ((Ascii (true, false, true, false, false, true, true, false)),
    (String ((Ascii (false, false, true, false, false, true, true, false)),
    (String ((Ascii (true, false, true, false, true, true, true, false)),
    (String ((Ascii (false, false, true, true, false, true, true, false)),
    (String ((Ascii (true, false, true, false, false, true, true, false)),
    (String ((Ascii (false, false, true, false, true, false, true, false)),
    (String ((Ascii (true, false, false, false, false, true, true, false)),
    (String ((Ascii (true, true, false, false, true, true, true, false)),
    (String ((Ascii (true, true, false, true, false, true, true, false)),
    EmptyString)))))))))))))))))))))))))))))))))))))))))))), (((String
    ((Ascii (false, false, true, false, false, false, true, false)), (String
    ((Ascii (true, false, true, false, false, true, true, false)), (String
    ((Ascii (false, false, false, false, true, true, true, false)), (String
    ((Ascii (false, false, true, true, false, true, true, false)), (String
    ((Ascii (true, true, true, true, false, true, true, false)), (String
    ((Ascii (true, false, false, true, true, true, true, false)), (String
    ((Ascii (true, false, true, false, false, true, true, false)), (String
    ((Ascii (false, true, false, false, true, true, true, false)), (String
    ((Ascii (false, true, false, true, true, true, false, false)), (String
    ((Ascii (false, true, false, true, true, true, false, false)), (String
    ((Ascii (true, true, false, false, true, false, true, false)), (String
    ((Ascii (true, true, false, false, false, true, true, false)), (String
    ((Ascii (false, false, false, true, false, true, true, false)), (String
    ((Ascii (true, false, true, false, false, true, true, false)), (String
    ((Ascii (false, false, true, false, false, true, true, false)), (String
    ((Ascii (true, false, true, false, true, true, true, false)), (String
    ((Ascii (false, false, true, true, false, true, true, false)), (String
    ((Ascii (true, false, true, false, false, true, true, false)), (String
    ((Ascii (false, false, true, false, true, false, true, false)), (String
    ((Ascii (true, false, false, false, false, true, true, false)), (String
    ((Ascii (true, true, false, false, true, true, true, false)), (String
    ((Ascii (true, true, false, true, false, true, true, false)),
    EmptyString)))))))))))))))))))))))))))))))))))))))))))),
    ACall) :: ((vQUEUE, AWrite) :: []))) :: (((String ((Ascii (false, false,
    true, false, false, false, true, false)), (String ((Ascii (true, false,
    true, false, false, true, true, false)), (String ((Ascii (false, false,
    false, false, true, true, true, false)), (String ((Ascii (false, false,
    true, true, false, true, true, false)), (String ((Ascii (true, true,
    true, true, false, true, true, false)), (String ((Ascii (true, false,
    false, true, true, true, true, false)), (String ((Ascii (true, false,
    true, false, false, true, true, false)), (String ((Ascii (false, true,
    false, false, true, true, true, false)), (String ((Ascii (false, true,
    false, true, true, true, false, false)), (String ((Ascii (false, true,
    false, true, true, true, false, false)), (String ((Ascii (false, true,
    true, true, false, false, true, false)), (String ((Ascii (true, false,
    true, false, false, true, true, false)), (String ((Ascii (false, false,
    false, true, true, true, true, false)), (String ((Ascii (false, false,
    true, false, true, true, true, false)), (String ((Ascii (false, false,
    true, false, true, false, true, false)), (String ((Ascii (true, false,
    false, false, false, true, true, false)), (String ((Ascii (true, true,
    false, false, true, true, true, false)), (String ((Ascii (true, true,
    false, true, false, true, true, false)),
    EmptyString)))))))))))))))))))))))))))))))))))), ((vQUEUE,
    ARead) :: ((vQUEUE, ARead) :: ((vQUEUE, AWrite) :: [])))) :: (((String
    ((Ascii (false, false, true, false, false, false, true, false)), (String
    ((Ascii (true, false, true, false, false, true, true, false)), (String
    ((Ascii (false, false, false, false, true, true, true, false)), (String
    ((Ascii (false, false, true, true, false, true, true, false)), (String
    ((Ascii (true, true, true, true, false, true, true, false)), (String
    ((Ascii (true, false, false, true, true, true, true, false)), (String
    ((Ascii (true, false, true, false, false, true, true, false)), (String
    ((Ascii (false, true, false, false, true, true, true, false)), (String
    ((Ascii (false, true, false, true, true, true, false, false)), (String
    ((Ascii (false, true, false, true, true, true, false, false)), (String
    ((Ascii (false, false, false, true, false, false, true, false)), (String
    ((Ascii (true, false, false, false, false, true, true, false)), (String
    ((Ascii (true, true, false, false, true, true, true, false)), (String
    ((Ascii (false, false, false, false, true, false, true, false)), (String
    ((Ascii (true, false, true, false, false, true, true, false)), (String
    ((Ascii (false, true, true, true, false, true, true, false)), (String
    ((Ascii (false, false, true, false, false, true, true, false)), (String
    ((Ascii (true, false, false, true, false, true, true, false)), (String
    ((Ascii (false, true, true, true, false, true, true, false)), (String
    ((Ascii (true, true, true, false, false, true, true, false)), (String
    ((Ascii (false, false, true, false, true, false, true, false)), (String
    ((Ascii (true, false, false, false, false, true, true, false)), (String
    ((Ascii (true, true, false, false, true, true, true, false)), (String
    ((Ascii (true, true, false, true, false, true, true, false)), (String
    ((Ascii (true, true, false, false, true, true, true, false)),
    EmptyString)))))))))))))))))))))))))))))))))))))))))))))))))), ((vQUEUE,
    ARead) :: [])) :: (((String ((Ascii (false, false, true, false, false,
    false, true, false)), (String ((Ascii (true, false, true, false, false,
    true, true, false)), (String ((Ascii (false, false, false, false, true,
    true, true, false)), (String ((Ascii (false, false, true, true, false,
    true, true, false)), (String ((Ascii (true, true, true, true, false,
    true, true, false)), (String ((Ascii (true, false, false, true, true,
    true, true, false)), (String ((Ascii (true, false, true, false, false,
    true, true, false)), (String ((Ascii (false, true, false, false, true,
    true, true, false)), (String ((Ascii (false, true, false, true, true,
    true, false, false)), (String ((Ascii (false, true, false, true, true,
    true, false, false)), (String ((Ascii (true, true, false, false, true,
    false, true, false)), (String ((Ascii (false, false, true, false, true,
    true, true, false)), (String ((Ascii (true, false, false, false, false,
    true, true, false)), (String ((Ascii (false, true, false, false, true,
    true, true, false)), (String ((Ascii (false, false, true, false, true,
    true, true, false)), (String ((Ascii (true, false, true, true, false,
    false, true, false)), (String ((Ascii (true, false, false, false, false,
    true, true, false)), (String ((Ascii (true, false, false, true, false,
    true, true, false)), (String ((Ascii (false, true, true, true, false,
    true, true, false)), (String ((Ascii (false, false, true, false, true,
    true, true, false)), (String ((Ascii (true, false, true, false, false,
    true, true, false)), (String ((Ascii (false, true, true, true, false,
    true, true, false)), (String ((Ascii (true, false, false, false, false,
    true, true, false)), (String ((Ascii (false, true, true, true, false,
    true, true, false)), (String ((Ascii (true, true, false, false, false,
    true, true, false)), (String ((Ascii (true, false, true, false, false,
    true, true, false)),
    EmptyString)))))))))))))))))))))))))))))))))))))))))))))))))))),
    (((String ((Ascii (false, false, true, false, false, false, true,
    false)), (String ((Ascii (true, false, true, false, false, true, true,
    false)), (String ((Ascii (false, false, false, false, true, true, true,
    false)), (String ((Ascii (false, false, true, true, false, true, true,
    false)), (String ((Ascii (true, true, true, true, false, true, true,
    false)), (String ((Ascii (true, false, false, true, true, true, true,
    false)), (String ((Ascii (true, false, true, false, false, true, true,
    false)), (String ((Ascii (false, true, false, false, true, true, true,
    false)), (String ((Ascii (false, true, false, true, true, true, false,
    false)), (String ((Ascii (false, true, false, true, true, true, false,
    false)), (String ((Ascii (true, true, false, false, true, false, true,
    false)), (String ((Ascii (false, false, true, false, true, true, true,
    false)), (String ((Ascii (true, false, false, false, false, true, true,
    false)), (String ((Ascii (false, true, false, false, true, true, true,
    false)), (String ((Ascii (false, false, true, false, true, true, true,
    false)), (String ((Ascii (true, true, true, false, true, false, true,
    false)), (String ((Ascii (true, true, true, true, false, true, true,
    false)), (String ((Ascii (false, true, false, false, true, true, true,
    false)), (String ((Ascii (true, true, false, true, false, true, true,
    false)), EmptyString)))))))))))))))))))))))))))))))))))))),
    ACall) :: [])) :: (((String ((Ascii (false, false, true, false, false,
    false, true, false)), (String ((Ascii (true, false, true, false, false,
    true, true, false)), (String ((Ascii (false, false, false, false, true,
    true, true, false)), (String ((Ascii (false, false, true, true, false,
    true, true, false)), (String ((Ascii (true, true, true, true, false,
    true, true, false)), (String ((Ascii (true, false, false, true, true,
    true, true, false)), (String ((Ascii (true, false, true, false, false,
    true, true, false)), (String ((Ascii (false, true, false, false, true,
    true, true, false)), (String ((Ascii (false, true, false, true, true,
    true, false, false)), (String ((Ascii (false, true, false, true, true,
    true, false, false)), (String ((Ascii (true, false, false, true, false,
    false, true, false)), (String ((Ascii (true, true, false, false, true,
    true, true, false)), (String ((Ascii (true, true, true, false, true,
    false, true, false)), (String ((Ascii (true, true, true, true, false,
    true, true, false)), (String ((Ascii (false, true, false, false, true,
    true, true, false)), (String ((Ascii (true, true, false, true, false,
    true, true, false)), (String ((Ascii (true, false, false, true, false,
    true, true, false)), (String ((Ascii (false, true, true, true, false,
    true, true, false)), (String ((Ascii (true, true, true, false, false,
    true, true, false)), EmptyString)))))))))))))))))))))))))))))))))))))),
    ((vWORK, ARead) :: ((vWORK, ARead) :: []))) :: (((String ((Ascii (false,
    false, true, false, false, false, true, false)), (String ((Ascii (true,
    false, true, false, false, true, true, false)), (String ((Ascii (false,
    false, false, false, true, true, true, false)), (String ((Ascii (false,
    false, true, true, false, true, true, false)), (String ((Ascii (true,
    true, true, true, false, true, true, false)), (String ((Ascii (true,
    false, false, true, true, true, true, false)), (String ((Ascii (true,
    false, true, false, false, true, true, false)), (String ((Ascii (false,
    true, false, false, true, true, true, false)), (String ((Ascii (false,
    true, false, true, true, true, false, false)), (String ((Ascii (false,
    true, false, true, true, true, false, false)), (String ((Ascii (true,
    false, false, true, false, false, true, false)), (String ((Ascii (true,
    true, false, false, true, true, true, false)), (String ((Ascii (true,
    false, true, true, false, false, true, false)), (String ((Ascii (true,
    false, false, false, false, true, true, false)), (String ((Ascii (true,
    false, false, true, false, true, true, false)), (String ((Ascii (false,
    true, true, true, false, true, true, false)), (String ((Ascii (false,
    false, true, false, true, true, true, false)), (String ((Ascii (true,
    false, true, false, false, true, true, false)), (String ((Ascii (false,
    true, true, true, false, true, true, false)), (String ((Ascii (true,
    false, false, false, false, true, true, false)), (String ((Ascii (false,
    true, true, true, false, true, true, false)), (String ((Ascii (true,
    true, false, false, false, true, true, false)), (String ((Ascii (true,
    false, true, false, false, true, true, false)), (String ((Ascii (true,
    false, true, true, false, false, true, false)), (String ((Ascii (true,
    true, true, true, false, true, true, false)), (String ((Ascii (false,
    false, true, false, false, true, true, false)), (String ((Ascii (true,
    false, true, false, false, true, true, false)),
    EmptyString)))))))))))))))))))))))))))))))))))))))))))))))))))))), ((vMM,
    ARead) :: (((String ((Ascii (false, false, true, false, false, false,
    true, false)), (String ((Ascii (true, false, true, false, false, true,
    true, false)), (String ((Ascii (false, false, false, false, true, true,
    true, false)), (String ((Ascii (false, false, true, true, false, true,
    true, false)), (String ((Ascii (true, true, true, true, false, true,
    true, false)), (String ((Ascii (true, false, false, true, true, true,
    true, false)), (String ((Ascii (true, false, true, false, false, true,
    true, false)), (String ((Ascii (false, true, false, false, true, true,
    true, false)), (String ((Ascii (false, true, false, true, true, true,
    false, false)), (String ((Ascii (false, true, false, true, true, true,
    false, false)), (String ((Ascii (true, false, false, true, false, false,
    true, false)), (String ((Ascii (true, true, false, false, true, true,
    true, false)), (String ((Ascii (true, true, true, false, true, false,
    true, false)), (String ((Ascii (true, true, true, true, false, true,
    true, false)), (String ((Ascii (false, true, false, false, true, true,
    true, false)), (String ((Ascii (true, true, false, true, false, true,
    true, false)), (String ((Ascii (true, false, false, true, false, true,
    true, false)), (String ((Ascii (false, true, true, true, false, true,
    true, false)), (String ((Ascii (true, true, true, false, false, true,
    true, false)), EmptyString)))))))))))))))))))))))))))))))))))))),
    ACall) :: []))) :: (((String ((Ascii (false, false, true, false, false,
    false, true, false)), (String ((Ascii (true, false, true, false, false,
    true, true, false)), (String ((Ascii (false, false, false, false, true,
    true, true, false)), (String ((Ascii (false, false, true, true, false,
    true, true, false)), (String ((Ascii (true, true, true, true, false,
    true, true, false)), (String ((Ascii (true, false, false, true, true,
    true, true, false)), (String ((Ascii (true, false, true, false, false,
    true, true, false)), (String ((Ascii (false, true, false, false, true,
    true, true, false)), (String ((Ascii (false, true, false, true, true,
    true, false, false)), (String ((Ascii (false, true, false, true, true,
    true, false, false)), (String ((Ascii (false, true, false, true, false,
    false, true, false)), (String ((Ascii (true, true, true, true, false,
    true, true, false)), (String ((Ascii (true, false, false, true, false,
    true, true, false)), (String ((Ascii (false, true, true, true, false,
    true, true, false)), (String ((Ascii (true, true, true, false, true,
    false, true, false)), (String ((Ascii (true, true, true, true, false,
    true, true, false)), (String ((Ascii (false, true, false, false, true,
    true, true, false)), (String ((Ascii (true, true, false, true, false,
    true, true, false)), (String ((Ascii (false, false, true, false, true,
    false, true, false)), (String ((Ascii (false, false, false, true, false,
    true, true, false)), (String ((Ascii (false, true, false, false, true,
    true, true, false)), (String ((Ascii (true, false, true, false, false,
    true, true, false)), (String ((Ascii (true, false, false, false, false,
    true, true, false)), (String ((Ascii (false, false, true, false, false,
    true, true, false)),
    EmptyString)))))))))))))))))))))))))))))))))))))))))))))))), ((vWORK,
    ARead) :: ((vWORK, AWrite) :: []))) :: (((String ((Ascii (false, false,
    true, false, false, false, true, false)), (String ((Ascii (true, false,
    true, false, false, true, true, false)), (String ((Ascii (false, false,
    false, false, true, true, true, false)), (String ((Ascii (false, false,
    true, true, false, true, true, false)), (String ((Ascii (true, true,
    true, true, false, true, true, false)), (String ((Ascii (true, false,
    false, true, true, true, true, false)), (String ((Ascii (true, false,
    true, false, false, true, true, false)), (String ((Ascii (false, true,
    false, false, true, true, true, false)), (String ((Ascii (false, true,
    false, true, true, true, false, false)), (String ((Ascii (false, true,
    false, true, true, true, false, false)), (String ((Ascii (false, true,
    false, true, false, false, true, false)), (String ((Ascii (true, true,
    true, true, false, true, true, false)), (String ((Ascii (true, false,
    false, true, false, true, true, false)), (String ((Ascii (false, true,
    true, true, false, true, true, false)), (String ((Ascii (true, false,
    true, true, false, false, true, false)), (String ((Ascii (true, false,
    false, false, false, true, true, false)), (String ((Ascii (true, false,
    false, true, false, true, true, false)), (String ((Ascii (false, true,
    true, true, false, true, true, false)), (String ((Ascii (false, false,
    true, false, true, true, true, false)), (String ((Ascii (true, false,
    true, false, false, true, true, false)), (String ((Ascii (false, true,
    true, true, false, true, true, false)), (String ((Ascii (true, false,
    false, false, false, true, true, false)), (String ((Ascii (false, true,
    true, true, false, true, true, false)), (String ((Ascii (true, true,
    false, false, false, true, true, false)), (String ((Ascii (true, false,
    true, false, false, true, true, false)), (String ((Ascii (false, false,
    true, false, true, false, true, false)), (String ((Ascii (false, false,
    false, true, false, true, true, false)), (String ((Ascii (false, true,
    false, false, true, true, true, false)), (String ((Ascii (true, false,
    true, false, false, true, true, false)), (String ((Ascii (true, false,
    false, false, false, true, true, false)), (String ((Ascii (false, false,
    true, false, false, true, true, false)),
    EmptyString)))))))))))))))))))))))))))))))))))))))))))))))))))))))))))))),
    (((String ((Ascii (false, false, true, false, false, false, true,
    false)), (String ((Ascii (true, false, true, false, false, true, true,
    false)), (String ((Ascii (false, false, false, false, true, true, true,
    false)), (String ((Ascii (false, false, true, true, false, true, true,
    false)), (String ((Ascii (true, true, true, true, false, true, true,
    false)), (String ((Ascii (true, false, false, true, true, true, true,
    false)), (String ((Ascii (true, false, true, false, false, true, true,
    false)), (String ((Ascii (false, true, false, false, true, true, true,
    false)), (String ((Ascii (false, true, false, true, true, true, false,
    false)), (String ((Ascii (false, true, false, true, true, true, false,
    false)), (String ((Ascii (false, true, false, true, false, false, true,
    false)), (String ((Ascii (true, true, true, true, false, true, true,
    false)), (String ((Ascii (true, false, false, true, false, true, true,
    false)), (String ((Ascii (false, true, true, true, false, true, true,
    false)), (String ((Ascii (true, true, true, false, true, false, true,
    false)), (String ((Ascii (true, true, true, true, false, true, true,
    false)), (String ((Ascii (false, true, false, false, true, true, true,
    false)), (String ((Ascii (true, true, false, true, false, true, true,
    false)), (String ((Ascii (false, false, true, false, true, false, true,
    false)), (String ((Ascii (false, false, false, true, false, true, true,
    false)), (String ((Ascii (false, true, false, false, true, true, true,
    false)), (String ((Ascii (true, false, true, false, false, true, true,
    false)), (String ((Ascii (true, false, false, false, false, true, true,
    false)), (String ((Ascii (false, false, true, false, false, true, true,
    false)), EmptyString)))))))))))))))))))))))))))))))))))))))))))))))),
    ACall) :: [])) :: (((String ((Ascii (true, true, false, false, true,
    false, true, false)), (String ((Ascii (true, false, true, false, false,
    true, true, false)), (String ((Ascii (false, true, false, false, true,
    true, true, false)), (String ((Ascii (false, true, true, false, true,
    true, true, false)), (String ((Ascii (true, false, false, true, false,
    true, true, false)), (String ((Ascii (true, true, false, false, false,
    true, true, false)), (String ((Ascii (true, false, true, false, false,
    true, true, false)), (String ((Ascii (false, true, false, true, true,
    true, false, false)), (String ((Ascii (false, true, false, true, true,
    true, false, false)), (String ((Ascii (false, false, true, false, false,
    true, true, false)), (String ((Ascii (true, false, false, true, false,
    true, true, false)), (String ((Ascii (true, true, false, false, true,
    true, true, false)), (String ((Ascii (true, false, false, false, false,
    true, true, false)), (String ((Ascii (false, true, false, false, false,
    true, true, false)), (String ((Ascii (false, false, true, true, false,
    true, true, false)), (String ((Ascii (true, false, true, false, false,
    true, true, false)), (String ((Ascii (false, false, true, false, false,
    true, true, false)), EmptyString)))))))))))))))))))))))))))))))))),
    (((String ((Ascii (true, true, false, false, true, false, true, false)),
    (String ((Ascii (true, false, true, false, false, true, true, false)),
    (String ((Ascii (false, true, false, false, true, true, true, false)),
    (String ((Ascii (false, true, true, false, true, true, true, false)),
    (String ((Ascii (true, false, false, true, false, true, true, false)),
    (String ((Ascii (true, true, false, false, false, true, true, false)),
    (String ((Ascii (true, false, true, false, false, true, true, false)),
    (String ((Ascii (false, true, false, true, true, true, false, false)),
    (String ((Ascii (false, true, false, true, true, true, false, false)),
    (String ((Ascii (true, true, false, false, true, true, true, false)),
    (String ((Ascii (false, false, true, false, true, true, true, false)),
    (String ((Ascii (true, false, false, false, false, true, true, false)),
    (String ((Ascii (false, true, false, false, true, true, true, false)),
    (String ((Ascii (false, false, true, false, true, true, true, false)),
    (String ((Ascii (true, false, true, false, false, true, true, false)),
    (String ((Ascii (false, false, true, false, false, true, true, false)),
    (String ((Ascii (true, true, true, true, true, false, true, false)),
    EmptyString)))))))))))))))))))))))))))))))))), ARead) :: (((String
    ((Ascii (false, false, true, false, false, false, true, false)), (String
    ((Ascii (true, false, true, false, false, true, true, false)), (String
    ((Ascii (false, false, false, false, true, true, true, false)), (String
    ((Ascii (false, false, true, true, false, true, true, false)), (String
    ((Ascii (true, true, true, true, false, true, true, false)), (String
    ((Ascii (true, false, false, true, true, true, true, false)), (String
    ((Ascii (true, false, true, false, false, true, true, false)), (String
    ((Ascii (false, true, false, false, true, true, true, false)), (String
    ((Ascii (false, true, false, true, true, true, false, false)), (String
    ((Ascii (false, true, false, true, true, true, false, false)), (String
    ((Ascii (true, false, false, true, false, false, true, false)), (String
    ((Ascii (true, true, false, false, true, true, true, false)), (String
    ((Ascii (true, false, true, true, false, false, true, false)), (String
    ((Ascii (true, false, false, false, false, true, true, false)), (String
    ((Ascii (true, false, false, true, false, true, true, false)), (String
    ((Ascii (false, true, true, true, false, true, true, false)), (String
    ((Ascii (false, false, true, false, true, true, true, false)), (String
    ((Ascii (true, false, true, false, false, true, true, false)), (String
    ((Ascii (false, true, true, true, false, true, true, false)), (String
    ((Ascii (true, false, false, false, false, true, true, false)), (String
    ((Ascii (false, true, true, true, false, true, true, false)), (String
    ((Ascii (true, true, false, false, false, true, true, false)), (String
    ((Ascii (true, false, true, false, false, true, true, false)), (String
    ((Ascii (true, false, true, true, false, false, true, false)), (String
    ((Ascii (true, true, true, true, false, true, true, false)), (String
    ((Ascii (false, false, true, false, false, true, true, false)), (String
    ((Ascii (true, false, true, false, false, true, true, false)),
    EmptyString)))))))))))))))))))))))))))))))))))))))))))))))))))))),
    ACall) :: []))) :: (((String ((Ascii (true, true, false, false, true,
    false, true, false)), (String ((Ascii (true, false, true, false, false,
    true, true, false)), (String ((Ascii (false, true, false, false, true,
    true, true, false)), (String ((Ascii (false, true, true, false, true,
    true, true, false)), (String ((Ascii (true, false, false, true, false,
    true, true, false)), (String ((Ascii (true, true, false, false, false,
    true, true, false)), (String ((Ascii (true, false, true, false, false,
    true, true, false)), (String ((Ascii (false, true, false, true, true,
    true, false, false)), (String ((Ascii (false, true, false, true, true,
    true, false, false)), (String ((Ascii (true, true, false, false, false,
    false, true, false)), (String ((Ascii (false, true, false, false, true,
    true, true, false)), (String ((Ascii (true, false, true, false, false,
    true, true, false)), (String ((Ascii (true, false, false, false, false,
    true, true, false)), (String ((Ascii (false, false, true, false, true,
    true, true, false)), (String ((Ascii (true, false, true, false, false,
    true, true, false)), (String ((Ascii (true, true, false, false, true,
    false, true, false)), (String ((Ascii (true, false, true, false, false,
    true, true, false)), (String ((Ascii (true, true, false, false, true,
    true, true, false)), (String ((Ascii (true, true, false, false, true,
    true, true, false)), (String ((Ascii (true, false, false, true, false,
    true, true, false)), (String ((Ascii (true, true, true, true, false,
    true, true, false)), (String ((Ascii (false, true, true, true, false,
    true, true, false)),
    EmptyString)))))))))))))))))))))))))))))))))))))))))))), (((String
    ((Ascii (true, true, false, false, true, false, true, false)), (String
    ((Ascii (true, false, true, false, false, true, true, false)), (String
    ((Ascii (false, true, false, false, true, true, true, false)), (String
    ((Ascii (false, true, true, false, true, true, true, false)), (String
    ((Ascii (true, false, false, true, false, true, true, false)), (String
    ((Ascii (true, true, false, false, false, true, true, false)), (String
    ((Ascii (true, false, true, false, false, true, true, false)), (String
    ((Ascii (false, true, false, true, true, true, false, false)), (String
    ((Ascii (false, true, false, true, true, true, false, false)), (String
    ((Ascii (false, false, true, false, false, true, true, false)), (String
    ((Ascii (true, false, false, true, false, true, true, false)), (String
    ((Ascii (true, true, false, false, true, true, true, false)), (String
    ((Ascii (true, false, false, false, false, true, true, false)), (String
    ((Ascii (false, true, false, false, false, true, true, false)), (String
    ((Ascii (false, false, true, true, false, true, true, false)), (String
    ((Ascii (true, false, true, false, false, true, true, false)), (String
    ((Ascii (false, false, true, false, false, true, true, false)),
    EmptyString)))))))))))))))))))))))))))))))))), ACall) :: (((String
    ((Ascii (true, true, false, false, true, false, true, false)), (String
    ((Ascii (true, false, true, false, false, true, true, false)), (String
    ((Ascii (false, true, false, false, true, true, true, false)), (String
    ((Ascii (false, true, true, false, true, true, true, false)), (String
    ((Ascii (true, false, false, true, false, true, true, false)), (String
    ((Ascii (true, true, false, false, false, true, true, false)), (String
    ((Ascii (true, false, true, false, false, true, true, false)), (String
    ((Ascii (false, true, false, true, true, true, false, false)), (String
    ((Ascii (false, true, false, true, true, true, false, false)), (String
    ((Ascii (true, true, false, false, true, true, true, false)), (String
    ((Ascii (true, false, true, false, false, true, true, false)), (String
    ((Ascii (true, true, false, false, true, true, true, false)), (String
    ((Ascii (true, true, false, false, true, true, true, false)), (String
    ((Ascii (true, false, false, true, false, true, true, false)), (String
    ((Ascii (true, true, true, true, false, true, true, false)), (String
    ((Ascii (false, true, true, true, false, true, true, false)), (String
    ((Ascii (true, true, false, false, true, true, true, false)), (String
    ((Ascii (true, true, true, true, true, false, true, false)),
    EmptyString)))))))))))))))))))))))))))))))))))),
    AWrite) :: []))) :: (((String ((Ascii (true, true, false, false, true,
    false, true, false)), (String ((Ascii (true, false, true, false, false,
    true, true, false)), (String ((Ascii (false, true, false, false, true,
    true, true, false)), (String ((Ascii (false, true, true, false, true,
    true, true, false)), (String ((Ascii (true, false, false, true, false,
    true, true, false)), (String ((Ascii (true, true, false, false, false,
    true, true, false)), (String ((Ascii (true, false, true, false, false,
    true, true, false)), (String ((Ascii (false, true, false, true, true,
    true, false, false)), (String ((Ascii (false, true, false, true, true,
    true, false, false)), (String ((Ascii (true, true, true, false, false,
    false, true, false)), (String ((Ascii (true, false, true, false, false,
    true, true, false)), (String ((Ascii (false, false, true, false, true,
    true, true, false)), (String ((Ascii (true, true, false, false, true,
    false, true, false)), (String ((Ascii (true, false, true, false, false,
    true, true, false)), (String ((Ascii (true, true, false, false, true,
    true, true, false)), (String ((Ascii (true, true, false, false, true,
    true, true, false)), (String ((Ascii (true, false, false, true, false,
    true, true, false)), (String ((Ascii (true, true, true, true, false,
    true, true, false)), (String ((Ascii (false, true, true, true, false,
    true, true, false)), EmptyString)))))))))))))))))))))))))))))))))))))),
    (((String ((Ascii (true, true, false, false, true, false, true, false)),
    (String ((Ascii (true, false, true, false, false, true, true, false)),
    (String ((Ascii (false, true, false, false, true, true, true, false)),
    (String ((Ascii (false, true, true, false, true, true, true, false)),
    (String ((Ascii (true, false, false, true, false, true, true, false)),
    (String ((Ascii (true, true, false, false, false, true, true, false)),
    (String ((Ascii (true, false, true, false, false, true, true, false)),
    (String ((Ascii (false, true, false, true, true, true, false, false)),
    (String ((Ascii (false, true, false, true, true, true, false, false)),
    (String ((Ascii (false, false, true, false, false, true, true, false)),
    (String ((Ascii (true, false, false, true, false, true, true, false)),
    (String ((Ascii (true, true, false, false, true, true, true, false)),
    (String ((Ascii (true, false, false, false, false, true, true, false)),
    (String ((Ascii (false, true, false, false, false, true, true, false)),
    (String ((Ascii (false, false, true, true, false, true, true, false)),
    (String ((Ascii (true, false, true, false, false, true, true, false)),
    (String ((Ascii (false, false, true, false, false, true, true, false)),
    EmptyString)))))))))))))))))))))))))))))))))), ACall) :: (((String
    ((Ascii (true, true, false, false, true, false, true, false)), (String
    ((Ascii (true, false, true, false, false, true, true, false)), (String
    ((Ascii (false, true, false, false, true, true, true, false)), (String
    ((Ascii (false, true, true, false, true, true, true, false)), (String
    ((Ascii (true, false, false, true, false, true, true, false)), (String
    ((Ascii (true, true, false, false, false, true, true, false)), (String
    ((Ascii (true, false, true, false, false, true, true, false)), (String
    ((Ascii (false, true, false, true, true, true, false, false)), (String
    ((Ascii (false, true, false, true, true, true, false, false)), (String
    ((Ascii (true, true, false, false, true, true, true, false)), (String
    ((Ascii (true, false, true, false, false, true, true, false)), (String
    ((Ascii (true, true, false, false, true, true, true, false)), (String
    ((Ascii (true, true, false, false, true, true, true, false)), (String
    ((Ascii (true, false, false, true, false, true, true, false)), (String
    ((Ascii (true, true, true, true, false, true, true, false)), (String
    ((Ascii (false, true, true, true, false, true, true, false)), (String
    ((Ascii (true, true, false, false, true, true, true, false)), (String
    ((Ascii (true, true, true, true, true, false, true, false)),
    EmptyString)))))))))))))))))))))))))))))))))))), ARead) :: (((String
    ((Ascii (true, true, false, false, true, false, true, false)), (String
    ((Ascii (true, false, true, false, false, true, true, false)), (String
    ((Ascii (false, true, false, false, true, true, true, false)), (String
    ((Ascii (false, true, true, false, true, true, true, false)), (String
    ((Ascii (true, false, false, true, false, true, true, false)), (String
    ((Ascii (true, true, false, false, false, true, true, false)), (String
    ((Ascii (true, false, true, false, false, true, true, false)), (String
    ((Ascii (false, true, false, true, true, true, false, false)), (String
    ((Ascii (false, true, false, true, true, true, false, false)), (String
    ((Ascii (true, true, false, false, true, true, true, false)), (String
    ((Ascii (true, false, true, false, false, true, true, false)), (String
    ((Ascii (true, true, false, false, true, true, true, false)), (String
    ((Ascii (true, true, false, false, true, true, true, false)), (String
    ((Ascii (true, false, false, true, false, true, true, false)), (String
    ((Ascii (true, true, true, true, false, true, true, false)), (String
    ((Ascii (false, true, true, true, false, true, true, false)), (String
    ((Ascii (true, true, false, false, true, true, true, false)), (String
    ((Ascii (true, true, true, true, true, false, true, false)),
    EmptyString)))))))))))))))))))))))))))))))))))),
    ARead) :: [])))) :: (((String ((Ascii (true, true, false, false, true,
    false, true, false)), (String ((Ascii (true, false, true, false, false,
    true, true, false)), (String ((Ascii (false, true, false, false, true,
    true, true, false)), (String ((Ascii (false, true, true, false, true,
    true, true, false)), (String ((Ascii (true, false, false, true, false,
    true, true, false)), (String ((Ascii (true, true, false, false, false,
    true, true, false)), (String ((Ascii (true, false, true, false, false,
    true, true, false)), (String ((Ascii (false, true, false, true, true,
    true, false, false)), (String ((Ascii (false, true, false, true, true,
    true, false, false)), (String ((Ascii (false, false, true, false, false,
    false, true, false)), (String ((Ascii (true, false, true, false, false,
    true, true, false)), (String ((Ascii (true, true, false, false, true,
    true, true, false)), (String ((Ascii (false, false, true, false, true,
    true, true, false)), (String ((Ascii (false, true, false, false, true,
    true, true, false)), (String ((Ascii (true, true, true, true, false,
    true, true, false)), (String ((Ascii (true, false, false, true, true,
    true, true, false)), (String ((Ascii (true, true, false, false, true,
    false, true, false)), (String ((Ascii (true, false, true, false, false,
    true, true, false)), (String ((Ascii (true, true, false, false, true,
    true, true, false)), (String ((Ascii (true, true, false, false, true,
    true, true, false)), (String ((Ascii (true, false, false, true, false,
    true, true, false)), (String ((Ascii (true, true, true, true, false,
    true, true, false)), (String ((Ascii (false, true, true, true, false,
    true, true, false)),
    EmptyString)))))))))))))))))))))))))))))))))))))))))))))), (((String
    ((Ascii (true, true, false, false, true, false, true, false)), (String
    ((Ascii (true, false, true, false, false, true, true, false)), (String
    ((Ascii (false, true, false, false, true, true, true, false)), (String
    ((Ascii (false, true, true, false, true, true, true, false)), (String
    ((Ascii (true, false, false, true, false, true, true, false)), (String
    ((Ascii (true, true, false, false, false, true, true, false)), (String
    ((Ascii (true, false, true, false, false, true, true, false)), (String
    ((Ascii (false, true, false, true, true, true, false, false)), (String
    ((Ascii (false, true, false, true, true, true, false, false)), (String
    ((Ascii (true, true, false, false, true, true, true, false)), (String
    ((Ascii (true, false, true, false, false, true, true, false)), (String
    ((Ascii (true, true, false, false, true, true, true, false)), (String
    ((Ascii (true, true, false, false, true, true, true, false)), (String
    ((Ascii (true, false, false, true, false, true, true, false)), (String
    ((Ascii (true, true, true, true, false, true, true, false)), (String
    ((Ascii (false, true, true, true, false, true, true, false)), (String
    ((Ascii (true, true, false, false, true, true, true, false)), (String
    ((Ascii (true, true, true, true, true, false, true, false)),
    EmptyString)))))))))))))))))))))))))))))))))))), ARead) :: (((String
    ((Ascii (true, true, false, false, true, false, true, false)), (String
    ((Ascii (true, false, true, false, false, true, true, false)), (String
    ((Ascii (false, true, false, false, true, true, true, false)), (String
    ((Ascii (false, true, true, false, true, true, true, false)), (String
    ((Ascii (true, false, false, true, false, true, true, false)), (String
    ((Ascii (true, true, false, false, false, true, true, false)), (String
    ((Ascii (true, false, true, false, false, true, true, false)), (String
    ((Ascii (false, true, false, true, true, true, false, false)), (String
    ((Ascii (false, true, false, true, true, true, false, false)), (String
    ((Ascii (true, true, false, false, true, true, true, false)), (String
    ((Ascii (true, false, true, false, false, true, true, false)), (String
    ((Ascii (true, true, false, false, true, true, true, false)), (String
    ((Ascii (true, true, false, false, true, true, true, false)), (String
    ((Ascii (true, false, false, true, false, true, true, false)), (String
    ((Ascii (true, true, true, true, false, true, true, false)), (String
    ((Ascii (false, true, true, true, false, true, true, false)), (String
    ((Ascii (true, true, false, false, true, true, true, false)), (String
    ((Ascii (true, true, true, true, true, false, true, false)),
    EmptyString)))))))))))))))))))))))))))))))))))), ARead) :: (((String
    ((Ascii (true, true, false, false, true, false, true, false)), (String
    ((Ascii (true, false, true, false, false, true, true, false)), (String
    ((Ascii (false, true, false, false, true, true, true, false)), (String
    ((Ascii (false, true, true, false, true, true, true, false)), (String
    ((Ascii (true, false, false, true, false, true, true, false)), (String
    ((Ascii (true, true, false, false, false, true, true, false)), (String
    ((Ascii (true, false, true, false, false, true, true, false)), (String
    ((Ascii (false, true, false, true, true, true, false, false)), (String
    ((Ascii (false, true, false, true, true, true, false, false)), (String
    ((Ascii (true, true, false, false, true, true, true, false)), (String
    ((Ascii (true, false, true, false, false, true, true, false)), (String
    ((Ascii (true, true, false, false, true, true, true, false)), (String
    ((Ascii (true, true, false, false, true, true, true, false)), (String
    ((Ascii (true, false, false, true, false, true, true, false)), (String
    ((Ascii (true, true, true, true, false, true, true, false)), (String
    ((Ascii (false, true, true, true, false, true, true, false)), (String
    ((Ascii (true, true, false, false, true, true, true, false)), (String
    ((Ascii (true, true, true, true, true, false, true, false)),
    EmptyString)))))))))))))))))))))))))))))))))))),
    AWrite) :: [])))) :: (((String ((Ascii (true, true, false, false, true,
    false, true, false)), (String ((Ascii (true, false, true, false, false,
    true, true, false)), (String ((Ascii (false, true, false, false, true,
    true, true, false)), (String ((Ascii (false, true, true, false, true,
    true, true, false)), (String ((Ascii (true, false, false, true, false,
    true, true, false)), (String ((Ascii (true, true, false, false, false,
    true, true, false)), (String ((Ascii (true, false, true, false, false,
    true, true, false)), (String ((Ascii (false, true, false, true, true,
    true, false, false)), (String ((Ascii (false, true, false, true, true,
    true, false, false)), (String ((Ascii (true, true, false, false, false,
    false, true, false)), (String ((Ascii (false, false, true, true, false,
    true, true, false)), (String ((Ascii (true, false, true, false, false,
    true, true, false)), (String ((Ascii (true, false, false, false, false,
    true, true, false)), (String ((Ascii (false, true, true, true, false,
    true, true, false)), (String ((Ascii (true, false, true, false, true,
    true, true, false)), (String ((Ascii (false, false, false, false, true,
    true, true, false)), (String ((Ascii (true, false, false, false, false,
    false, true, false)), (String ((Ascii (false, false, true, true, false,
    true, true, false)), (String ((Ascii (false, false, true, true, false,
    true, true, false)), (String ((Ascii (true, true, false, false, true,
    false, true, false)), (String ((Ascii (true, false, true, false, false,
    true, true, false)), (String ((Ascii (true, true, false, false, true,
    true, true, false)), (String ((Ascii (true, true, false, false, true,
    true, true, false)), (String ((Ascii (true, false, false, true, false,
    true, true, false)), (String ((Ascii (true, true, true, true, false,
    true, true, false)), (String ((Ascii (false, true, true, true, false,
    true, true, false)), (String ((Ascii (true, true, false, false, true,
    true, true, false)),
    EmptyString)))))))))))))))))))))))))))))))))))))))))))))))))))))),
    (((String ((Ascii (true, true, false, false, true, false, true, false)),
    (String ((Ascii (true, false, true, false, false, true, true, false)),
    (String ((Ascii (false, true, false, false, true, true, true, false)),
    (String ((Ascii (false, true, true, false, true, true, true, false)),
    (String ((Ascii (true, false, false, true, false, true, true, false)),
    (String ((Ascii (true, true, false, false, false, true, true, false)),
    (String ((Ascii (true, false, true, false, false, true, true, false)),
    (String ((Ascii (false, true, false, true, true, true, false, false)),
    (String ((Ascii (false, true, false, true, true, true, false, false)),
    (String ((Ascii (true, true, false, false, true, true, true, false)),
    (String ((Ascii (true, false, true, false, false, true, true, false)),
    (String ((Ascii (true, true, false, false, true, true, true, false)),
    (String ((Ascii (true, true, false, false, true, true, true, false)),
    (String ((Ascii (true, false, false, true, false, true, true, false)),
    (String ((Ascii (true, true, true, true, false, true, true, false)),
    (String ((Ascii (false, true, true, true, false, true, true, false)),
    (String ((Ascii (true, true, false, false, true, true, true, false)),
    (String ((Ascii (true, true, true, true, true, false, true, false)),
    EmptyString)))))))))))))))))))))))))))))))))))),
    AWrite) :: [])) :: (((String ((Ascii (true, true, false, false, true,
    false, true, false)), (String ((Ascii (true, false, true, false, false,
    true, true, false)), (String ((Ascii (false, true, false, false, true,
    true, true, false)), (String ((Ascii (false, true, true, false, true,
    true, true, false)), (String ((Ascii (true, false, false, true, false,
    true, true, false)), (String ((Ascii (true, true, false, false, false,
    true, true, false)), (String ((Ascii (true, false, true, false, false,
    true, true, false)), (String ((Ascii (false, true, false, true, true,
    true, false, false)), (String ((Ascii (false, true, false, true, true,
    true, false, false)), (String ((Ascii (true, true, false, false, true,
    false, true, false)), (String ((Ascii (true, false, true, false, false,
    true, true, false)), (String ((Ascii (false, false, true, false, true,
    true, true, false)), (String ((Ascii (false, true, true, true, false,
    false, true, false)), (String ((Ascii (true, true, true, true, false,
    true, true, false)), (String ((Ascii (false, false, true, false, true,
    true, true, false)), (String ((Ascii (true, false, false, true, false,
    true, true, false)), (String ((Ascii (false, true, true, false, false,
    true, true, false)), (String ((Ascii (true, false, false, true, false,
    true, true, false)), (String ((Ascii (true, true, false, false, false,
    true, true, false)), (String ((Ascii (true, false, false, false, false,
    true, true, false)), (String ((Ascii (false, false, true, false, true,
    true, true, false)), (String ((Ascii (true, false, false, true, false,
    true, true, false)), (String ((Ascii (true, true, true, true, false,
    true, true, false)), (String ((Ascii (false, true, true, true, false,
    true, true, false)), (String ((Ascii (false, false, false, true, false,
    false, true, false)), (String ((Ascii (true, false, false, false, false,
    true, true, false)), (String ((Ascii (false, true, true, true, false,
    true, true, false)), (String ((Ascii (false, false, true, false, false,
    true, true, false)), (String ((Ascii (false, false, true, true, false,
    true, true, false)), (String ((Ascii (true, false, true, false, false,
    true, true, false)), (String ((Ascii (false, true, false, false, true,
    true, true, false)),
    EmptyString)))))))))))))))))))))))))))))))))))))))))))))))))))))))))))))),
    ((vHANDLER, AWrite) :: [])) :: (((String ((Ascii (true, true, false,
    false, true, false, true, false)), (String ((Ascii (true, false, true,
    false, false, true, true, false)), (String ((Ascii (false, true, false,
    false, true, true, true, false)), (String ((Ascii (false, true, true,
    false, true, true, true, false)), (String ((Ascii (true, false, false,
    true, false, true, true, false)), (String ((Ascii (true, true, false,
    false, false, true, true, false)), (String ((Ascii (true, false, true,
    false, false, true, true, false)), (String ((Ascii (false, true, false,
    true, true, true, false, false)), (String ((Ascii (false, true, false,
    true, true, true, false, false)), (String ((Ascii (true, true, false,
    false, false, false, true, false)), (String ((Ascii (false, false, true,
    true, false, true, true, false)), (String ((Ascii (true, false, true,
    false, false, true, true, false)), (String ((Ascii (true, false, false,
    false, false, true, true, false)), (String ((Ascii (false, true, false,
    false, true, true, true, false)), (String ((Ascii (false, true, true,
    true, false, false, true, false)), (String ((Ascii (true, true, true,
    true, false, true, true, false)), (String ((Ascii (false, false, true,
    false, true, true, true, false)), (String ((Ascii (true, false, false,
    true, false, true, true, false)), (String ((Ascii (false, true, true,
    false, false, true, true, false)), (String ((Ascii (true, false, false,
    true, false, true, true, false)), (String ((Ascii (true, true, false,
    false, false, true, true, false)), (String ((Ascii (true, false, false,
    false, false, true, true, false)), (String ((Ascii (false, false, true,
    false, true, true, true, false)), (String ((Ascii (true, false, false,
    true, false, true, true, false)), (String ((Ascii (true, true, true,
    true, false, true, true, false)), (String ((Ascii (false, true, true,
    true, false, true, true, false)), (String ((Ascii (false, false, false,
    true, false, false, true, false)), (String ((Ascii (true, false, false,
    false, false, true, true, false)), (String ((Ascii (false, true, true,
    true, false, true, true, false)), (String ((Ascii (false, false, true,
    false, false, true, true, false)), (String ((Ascii (false, false, true,
    true, false, true, true, false)), (String ((Ascii (true, false, true,
    false, false, true, true, false)), (String ((Ascii (false, true, false,
    false, true, true, true, false)),
    EmptyString)))))))))))))))))))))))))))))))))))))))))))))))))))))))))))))))))),
    ((vHANDLER, AWrite) :: [])) :: (((String ((Ascii (true, true, false,
    false, true, false, true, false)), (String ((Ascii (true, false, true,
    false, false, true, true, false)), (String ((Ascii (false, true, false,
    false, true, true, true, false)), (String ((Ascii (false, true, true,
    false, true, true, true, false)), (String ((Ascii (true, false, false,
    true, false, true, true, false)), (String ((Ascii (true, true, false,
    false, false, true, true, false)), (String ((Ascii (true, false, true,
    false, false, true, true, false)), (String ((Ascii (false, true, false,
    true, true, true, false, false)), (String ((Ascii (false, true, false,
    true, true, true, false, false)), (String ((Ascii (false, true, true,
    true, false, false, true, false)), (String ((Ascii (true, true, true,
    true, false, true, true, false)), (String ((Ascii (false, false, true,
    false, true, true, true, false)), (String ((Ascii (true, false, false,
    true, false, true, true, false)), (String ((Ascii (false, true, true,
    false, false, true, true, false)), (String ((Ascii (true, false, false,
    true, true, true, true, false)),
    EmptyString)))))))))))))))))))))))))))))), ((vHANDLER,
    ARead) :: ((vHANDLER, ARead) :: []))) :: [])))))))))))))))

(** val expected_shapes_future : (string * (string * akind) list) list **)

let expected_shapes_future =
  ((String ((Ascii (false, false, true, false, false, false, true, false)),
    (String ((Ascii (true, false, true, false, false, true, true, false)),
    (String ((Ascii (false, false, false, false, true, true, true, false)),
    (String ((Ascii (false, false, true, true, false, true, true, false)),
    (String ((Ascii (true, true, true, true, false, true, true, false)),
    (String ((Ascii (true, false, false, true, true, true, true, false)),
    (String ((Ascii (true, false, true, false, false, true, true, false)),
    (String ((Ascii (false, true, false, false, true, true, true, false)),
    (String ((Ascii (false, true, false, true, true, true, false, false)),
    (String ((Ascii (false, true, false, true, true, true, false, false)),
    (String ((Ascii (false, true, false, false, true, false, true, false)),
    (String ((Ascii (true, false, true, false, true, true, true, false)),
    (String ((Ascii (false, true, true, true, false, true, true, false)),
    EmptyString)))))))))))))))))))))))))), ((vSINK, ARead) :: (((String
    ((Ascii (false, false, true, false, false, false, true, false)), (String
    ((Ascii (true, false, true, false, false, true, true, false)), (String
    ((Ascii (false, false, false, false, true, true, true, false)), (String
    ((Ascii (false, false, true, true, false, true, true, false)), (String
    ((Ascii (true, true, true, true, false, true, true, false)), (String
    ((Ascii (true, false, false, true, true, true, true, false)), (String
    ((Ascii (true, false, true, false, false, true, true, false)), (String
    ((Ascii (false, true, false, false, true, true, true, false)), (String
    ((Ascii (false, true, false, true, true, true, false, false)), (String
    ((Ascii (false, true, false, true, true, true, false, false)), (String
    ((Ascii (false, true, true, true, false, false, true, false)), (String
    ((Ascii (true, false, true, false, false, true, true, false)), (String
    ((Ascii (false, false, false, true, true, true, true, false)), (String
    ((Ascii (false, false, true, false, true, true, true, false)), (String
    ((Ascii (false, false, true, false, true, false, true, false)), (String
    ((Ascii (true, false, false, false, false, true, true, false)), (String
    ((Ascii (true, true, false, false, true, true, true, false)), (String
    ((Ascii (true, true, false, true, false, true, true, false)),
    EmptyString)))))))))))))))))))))))))))))))))))), ACall) :: ((vSINK,
    ARead) :: (((String ((Ascii (false, false, true, false, false, false,
    true, false)), (String ((Ascii (true, false, true, false, false, true,
    true, false)), (String ((Ascii (false, false, false, false, true, true,
    true, false)), (String ((Ascii (false, false, true, true, false, true,
    true, false)), (String ((Ascii (true, true, true, true, false, true,
    true, false)), (String ((Ascii (true, false, false, true, true, true,
    true, false)), (String ((Ascii (true, false, true, false, false, true,
    true, false)), (String ((Ascii (false, true, false, false, true, true,
    true, false)), (String ((Ascii (false, true, false, true, true, true,
    false, false)), (String ((Ascii (false, true, false, true, true, true,
    false, false)), (String ((Ascii (false, false, false, true, false, false,
    true, false)), (String ((Ascii (true, false, false, false, false, true,
    true, false)), (String ((Ascii (true, true, false, false, true, true,
    true, false)), (String ((Ascii (false, false, false, false, true, false,
    true, false)), (String ((Ascii (true, false, true, false, false, true,
    true, false)), (String ((Ascii (false, true, true, true, false, true,
    true, false)), (String ((Ascii (false, false, true, false, false, true,
    true, false)), (String ((Ascii (true, false, false, true, false, true,
    true, false)), (String ((Ascii (false, true, true, true, false, true,
    true, false)), (String ((Ascii (true, true, true, false, false, true,
    true, false)), (String ((Ascii (false, false, true, false, true, false,
    true, false)), (String ((Ascii (true, false, false, false, false, true,
    true, false)), (String ((Ascii (true, true, false, false, true, true,
    true, false)), (String ((Ascii (true, true, false, true, false, true,
    true, false)), (String ((Ascii (true, true, false, false, true, true,
    true, false)),
    EmptyString)))))))))))))))))))))))))))))))))))))))))))))))))),
    ACall) :: []))))) :: (((String ((Ascii (false, false, true, false, false,
    false, true, false)), (String ((Ascii (true, false, true, false, false,
    true, true, false)), (String ((Ascii (false, false, false, false, true,
    true, true, false)), (String ((Ascii (false, false, true, true, false,
    true, true, false)), (String ((Ascii (true, true, true, true, false,
    true, true, false)), (String ((Ascii (true, false, false, true, true,
    true, true, false)), (String ((Ascii (true, false, true, false, false,
    true, true, false)), (String ((Ascii (false, true, false, false, true,
    true, true, false)), (String ((Ascii (false, true, false, true, true,
    true, false, false)), (String ((Ascii (false, true, false, true, true,
    true, false, false)), (String ((Ascii (false, true, true, false, false,
    false, true, false)), (String ((Ascii (true, false, false, true, false,
    true, true, false)), (String ((Ascii (false, true, true, true, false,
    true, true, false)), (String ((Ascii (true, false, false, true, false,
    true, true, false)), (String ((Ascii (true, true, false, false, true,
    true, true, false)), (String ((Ascii (false, false, false, true, false,
    true, true, false)), (String ((Ascii (true, true, true, false, true,
    false, true, false)), (String ((Ascii (true, true, true, true, false,
    true, true, false)), (String ((Ascii (false, true, false, false, true,
    true, true, false)), (String ((Ascii (true, true, false, true, false,
    true, true, false)), EmptyString)))))))))))))))))))))))))))))))))))))))),
    []) :: (((String ((Ascii (false, false, true, false, false, false, true,
    false)), (String ((Ascii (true, false, true, false, false, true, true,
    false)), (String ((Ascii (false, false, false, false, true, true, true,
    false)), (String ((Ascii (false, false, true, true, false, true, true,
    false)), (String ((Ascii (true, true, true, true, false, true, true,
    false)), (String ((Ascii (true, false, false, true, true, true, true,
    false)), (String ((Ascii (true, false, true, false, false, true, true,
    false)), (String ((Ascii (false, true, false, false, true, true, true,
    false)), (String ((Ascii (false, true, false, true, true, true, false,
    false)), (String ((Ascii (false, true, false, true, true, true, false,
    false)), (String ((Ascii (true, true, false, false, true, false, true,
    false)), (String ((Ascii (false, false, true, false, true, true, true,
    false)), (String ((Ascii (true, false, false, false, false, true, true,
    false)), (String ((Ascii (false, true, false, false, true, true, true,
    false)), (String ((Ascii (false, false, true, false, true, true, true,
    false)), (String ((Ascii (true, true, true, false, true, false, true,
    false)), (String ((Ascii (true, true, true, true, false, true, true,
    false)), (String ((Ascii (false, true, false, false, true, true, true,
    false)), (String ((Ascii (true, true, false, true, false, true, true,
    false)), EmptyString)))))))))))))))))))))))))))))))))))))), (((String
    ((Ascii (false, false, true, false, false, false, true, false)), (String
    ((Ascii (true, false, true, false, false, true, true, false)), (String
    ((Ascii (false, false, false, false, true, true, true, false)), (String
    ((Ascii (false, false, true, true, false, true, true, false)), (String
    ((Ascii (true, true, true, true, false, true, true, false)), (String
    ((Ascii (true, false, false, true, true, true, true, false)), (String
    ((Ascii (true, false, true, false, false, true, true, false)), (String
    ((Ascii (false, true, false, false, true, true, true, false)), (String
    ((Ascii (false, true, false, true, true, true, false, false)), (String
    ((Ascii (false, true, false, true, true, true, false, false)), (String
    ((Ascii (true, false, false, true, false, false, true, false)), (String
    ((Ascii (true, true, false, false, true, true, true, false)), (String
    ((Ascii (true, true, true, false, true, false, true, false)), (String
    ((Ascii (true, true, true, true, false, true, true, false)), (String
    ((Ascii (false, true, false, false, true, true, true, false)), (String
    ((Ascii (true, true, false, true, false, true, true, false)), (String
    ((Ascii (true, false, false, true, false, true, true, false)), (String
    ((Ascii (false, true, true, true, false, true, true, false)), (String
    ((Ascii (true, true, true, false, false, true, true, false)),
    EmptyString)))))))))))))))))))))))))))))))))))))), ACall) :: ((vMM,
    AWrite) :: ((vQUEUE, ARead) :: ((vQUEUE, ARead) :: ((vWORK,
    AWrite) :: (((String ((Ascii (false, false, true, false, false, false,
    true, false)), (String ((Ascii (true, false, true, false, false, true,
    true, false)), (String ((Ascii (false, false, false, false, true, true,
    true, false)), (String ((Ascii (false, false, true, true, false, true,
    true, false)), (String ((Ascii (true, true, true, true, false, true,
    true, false)), (String ((Ascii (true, false, false, true, true, true,
    true, false)), (String ((Ascii (true, false, true, false, false, true,
    true, false)), (String ((Ascii (false, true, false, false, true, true,
    true, false)), (String ((Ascii (false, true, false, true, true, true,
    false, false)), (String ((Ascii (false, true, false, true, true, true,
    false, false)), (String ((Ascii (false, true, false, false, true, false,
    true, false)), (String ((Ascii (true, false, true, false, true, true,
    true, false)), (String ((Ascii (false, true, true, true, false, true,
    true, false)), EmptyString)))))))))))))))))))))))))), ACall) :: ((vWORK,
    ARead) :: [])))))))) :: []))

(** val expected_shapes_flag : (string * (string * akind) list) list **)

let expected_shapes_flag =
  ((String ((Ascii (false, false, true, false, false, false, true, false)),
    (String ((Ascii (true, false, true, false, false, true, true, false)),
    (String ((Ascii (false, false, false, false, true, true, true, false)),
    (String ((Ascii (false, false, true, true, false, true, true, false)),
    (String ((Ascii (true, true, true, true, false, true, true, false)),
    (String ((Ascii (true, false, false, true, true, true, true, false)),
    (String ((Ascii (true, false, true, false, false, true, true, false)),
    (String ((Ascii (false, true, false, false, true, true, true, false)),
    (String ((Ascii (false, true, false, true, true, true, false, false)),
    (String ((Ascii (false, true, false, true, true, true, false, false)),
    (String ((Ascii (false, true, false, false, true, false, true, false)),
    (String ((Ascii (true, false, true, false, true, true, true, false)),
    (String ((Ascii (false, true, true, true, false, true, true, false)),
    EmptyString)))))))))))))))))))))))))), ((vSINK, ARead) :: (((String
    ((Ascii (false, false, true, false, false, false, true, false)), (String
    ((Ascii (true, false, true, false, false, true, true, false)), (String
    ((Ascii (false, false, false, false, true, true, true, false)), (String
    ((Ascii (false, false, true, true, false, true, true, false)), (String
    ((Ascii (true, true, true, true, false, true, true, false)), (String
    ((Ascii (true, false, false, true, true, true, true, false)), (String
    ((Ascii (true, false, true, false, false, true, true, false)), (String
    ((Ascii (false, true, false, false, true, true, true, false)), (String
    ((Ascii (false, true, false, true, true, true, false, false)), (String
    ((Ascii (false, true, false, true, true, true, false, false)), (String
    ((Ascii (false, true, true, true, false, false, true, false)), (String
    ((Ascii (true, false, true, false, false, true, true, false)), (String
    ((Ascii (false, false, false, true, true, true, true, false)), (String
    ((Ascii (false, false, true, false, true, true, true, false)), (String
    ((Ascii (false, false, true, false, true, false, true, false)), (String
    ((Ascii (true, false, false, false, false, true, true, false)), (String
    ((Ascii (true, true, false, false, true, true, true, false)), (String
    ((Ascii (true, true, false, true, false, true, true, false)),
    EmptyString)))))))))))))))))))))))))))))))))))), ACall) :: ((vSINK,
    ARead) :: (((String ((Ascii (false, false, true, false, false, false,
    true, false)), (String ((Ascii (true, false, true, false, false, true,
    true, false)), (String ((Ascii (false, false, false, false, true, true,
    true, false)), (String ((Ascii (false, false, true, true, false, true,
    true, false)), (String ((Ascii (true, true, true, true, false, true,
    true, false)), (String ((Ascii (true, false, false, true, true, true,
    true, false)), (String ((Ascii (true, false, true, false, false, true,
    true, false)), (String ((Ascii (false, true, false, false, true, true,
    true, false)), (String ((Ascii (false, true, false, true, true, true,
    false, false)), (String ((Ascii (false, true, false, true, true, true,
    false, false)), (String ((Ascii (false, true, true, false, false, false,
    true, false)), (String ((Ascii (true, false, false, true, false, true,
    true, false)), (String ((Ascii (false, true, true, true, false, true,
    true, false)), (String ((Ascii (true, false, false, true, false, true,
    true, false)), (String ((Ascii (true, true, false, false, true, true,
    true, false)), (String ((Ascii (false, false, false, true, false, true,
    true, false)), (String ((Ascii (true, true, true, false, true, false,
    true, false)), (String ((Ascii (true, true, true, true, false, true,
    true, false)), (String ((Ascii (false, true, false, false, true, true,
    true, false)), (String ((Ascii (true, true, false, true, false, true,
    true, false)), EmptyString)))))))))))))))))))))))))))))))))))))))),
    ACall) :: []))))) :: (((String ((Ascii (false, false, true, false, false,
    false, true, false)), (String ((Ascii (true, false, true, false, false,
    true, true, false)), (String ((Ascii (false, false, false, false, true,
    true, true, false)), (String ((Ascii (false, false, true, true, false,
    true, true, false)), (String ((Ascii (true, true, true, true, false,
    true, true, false)), (String ((Ascii (true, false, false, true, true,
    true, true, false)), (String ((Ascii (true, false, true, false, false,
    true, true, false)), (String ((Ascii (false, true, false, false, true,
    true, true, false)), (String ((Ascii (false, true, false, true, true,
    true, false, false)), (String ((Ascii (false, true, false, true, true,
    true, false, false)), (String ((Ascii (false, true, true, false, false,
    false, true, false)), (String ((Ascii (true, false, false, true, false,
    true, true, false)), (String ((Ascii (false, true, true, true, false,
    true, true, false)), (String ((Ascii (true, false, false, true, false,
    true, true, false)), (String ((Ascii (true, true, false, false, true,
    true, true, false)), (String ((Ascii (false, false, false, true, false,
    true, true, false)), (String ((Ascii (true, true, true, false, true,
    false, true, false)), (String ((Ascii (true, true, true, true, false,
    true, true, false)), (String ((Ascii (false, true, false, false, true,
    true, true, false)), (String ((Ascii (true, true, false, true, false,
    true, true, false)), EmptyString)))))))))))))))))))))))))))))))))))))))),
    ((vQUEUE, ARead) :: ((vRUNNING, AWrite) :: []))) :: (((String ((Ascii
    (false, false, true, false, false, false, true, false)), (String ((Ascii
    (true, false, true, false, false, true, true, false)), (String ((Ascii
    (false, false, false, false, true, true, true, false)), (String ((Ascii
    (false, false, true, true, false, true, true, false)), (String ((Ascii
    (true, true, true, true, false, true, true, false)), (String ((Ascii
    (true, false, false, true, true, true, true, false)), (String ((Ascii
    (true, false, true, false, false, true, true, false)), (String ((Ascii
    (false, true, false, false, true, true, true, false)), (String ((Ascii
    (false, true, false, true, true, true, false, false)), (String ((Ascii
    (false, true, false, true, true, true, false, false)), (String ((Ascii
    (true, true, false, false, true, false, true, false)), (String ((Ascii
    (false, false, true, false, true, true, true, false)), (String ((Ascii
    (true, false, false, false, false, true, true, false)), (String ((Ascii
    (false, true, false, false, true, true, true, false)), (String ((Ascii
    (false, false, true, false, true, true, true, false)), (String ((Ascii
    (true, true, true, false, true, false, true, false)), (String ((Ascii
    (true, true, true, true, false, true, true, false)), (String ((Ascii
    (false, true, false, false, true, true, true, false)), (String ((Ascii
    (true, true, false, true, false, true, true, false)),
    EmptyString)))))))))))))))))))))))))))))))))))))), ((vRUNNING,
    ARead) :: ((vMM, AWrite) :: ((vQUEUE, ARead) :: ((vQUEUE,
    ARead) :: ((vRUNNING, AWrite) :: ((vWORK, ARead) :: ((vWORK,
    ARead) :: ((vWORK, AWrite) :: (((String ((Ascii (false, false, true,
    false, false, false, true, false)), (String ((Ascii (true, false, true,
    false, false, true, true, false)), (String ((Ascii (false, false, false,
    false, true, true, true, false)), (String ((Ascii (false, false, true,
    true, false, true, true, false)), (String ((Ascii (true, true, true,
    true, false, true, true, false)), (String ((Ascii (true, false, false,
    true, true, true, true, false)), (String ((Ascii (true, false, true,
    false, false, true, true, false)), (String ((Ascii (false, true, false,
    false, true, true, true, false)), (String ((Ascii (false, true, false,
    true, true, true, false, false)), (String ((Ascii (false, true, false,
    true, true, true, false, false)), (String ((Ascii (false, true, false,
    false, true, false, true, false)), (String ((Ascii (true, false, true,
    false, true, true, true, false)), (String ((Ascii (false, true, true,
    true, false, true, true, false)), EmptyString)))))))))))))))))))))))))),
    ACall) :: ((vRUNNING, AWrite) :: ((vWORK, ARead) :: [])))))))))))) :: []))

(** val shapes_match :
    acc_row list -> (string * (string * akind) list) list -> bool **)

let shapes_match tbl es =
  forallb (fun e -> list_eqb pair_eqb (shape tbl (fst e)) (snd e)) es

(** val flag_locked : acc_row list -> bool **)

let flag_locked tbl =
  (&&)
    ((&&)
      ((&&)
        ((&&)
          ((&&)
            ((&&)
              (forallb (fun r ->
                (||) (negb (eqb1 r.a_var vRUNNING)) (has_lock dMUTEX r)) tbl)
              (all_locked dMUTEX
                (rows_var tbl (String ((Ascii (false, false, true, false,
                  false, false, true, false)), (String ((Ascii (true, false,
                  true, false, false, true, true, false)), (String ((Ascii
                  (false, false, false, false, true, true, true, false)),
                  (String ((Ascii (false, false, true, true, false, true,
                  true, false)), (String ((Ascii (true, true, true, true,
                  false, true, true, false)), (String ((Ascii (true, false,
                  false, true, true, true, true, false)), (String ((Ascii
                  (true, false, true, false, false, true, true, false)),
                  (String ((Ascii (false, true, false, false, true, true,
                  true, false)), (String ((Ascii (false, true, false, true,
                  true, true, false, false)), (String ((Ascii (false, true,
                  false, true, true, true, false, false)), (String ((Ascii
                  (false, true, true, false, false, false, true, false)),
                  (String ((Ascii (true, false, false, true, false, true,
                  true, false)), (String ((Ascii (false, true, true, true,
                  false, true, true, false)), (String ((Ascii (true, false,
                  false, true, false, true, true, false)), (String ((Ascii
                  (true, true, false, false, true, true, true, false)),
                  (String ((Ascii (false, false, false, true, false, true,
                  true, false)), (String ((Ascii (true, true, true, false,
                  true, false, true, false)), (String ((Ascii (true, true,
                  true, true, false, true, true, false)), (String ((Ascii
                  (false, true, false, false, true, true, true, false)),
                  (String ((Ascii (true, true, false, true, false, true,
                  true, false)),
                  EmptyString)))))))))))))))))))))))))))))))))))))))) vQUEUE)))
            (all_locked dMUTEX
              (rows_var tbl (String ((Ascii (false, false, true, false,
                false, false, true, false)), (String ((Ascii (true, false,
                true, false, false, true, true, false)), (String ((Ascii
                (false, false, false, false, true, true, true, false)),
                (String ((Ascii (false, false, true, true, false, true, true,
                false)), (String ((Ascii (true, true, true, true, false,
                true, true, false)), (String ((Ascii (true, false, false,
                true, true, true, true, false)), (String ((Ascii (true,
                false, true, false, false, true, true, false)), (String
                ((Ascii (false, true, false, false, true, true, true,
                false)), (String ((Ascii (false, true, false, true, true,
                true, false, false)), (String ((Ascii (false, true, false,
                true, true, true, false, false)), (String ((Ascii (false,
                true, true, false, false, false, true, false)), (String
                ((Ascii (true, false, false, true, false, true, true,
                false)), (String ((Ascii (false, true, true, true, false,
                true, true, false)), (String ((Ascii (true, false, false,
                true, false, true, true, false)), (String ((Ascii (true,
                true, false, false, true, true, true, false)), (String
                ((Ascii (false, false, false, true, false, true, true,
                false)), (String ((Ascii (true, true, true, false, true,
                false, true, false)), (String ((Ascii (true, true, true,
                true, false, true, true, false)), (String ((Ascii (false,
                true, false, false, true, true, true, false)), (String
                ((Ascii (true, true, false, true, false, true, true, false)),
                EmptyString)))))))))))))))))))))))))))))))))))))))) vRUNNING)))
          (all_locked dMUTEX
            (rows_var tbl (String ((Ascii (false, false, true, false, false,
              false, true, false)), (String ((Ascii (true, false, true,
              false, false, true, true, false)), (String ((Ascii (false,
              false, false, false, true, true, true, false)), (String ((Ascii
              (false, false, true, true, false, true, true, false)), (String
              ((Ascii (true, true, true, true, false, true, true, false)),
              (String ((Ascii (true, false, false, true, true, true, true,
              false)), (String ((Ascii (true, false, true, false, false,
              true, true, false)), (String ((Ascii (false, true, false,
              false, true, true, true, false)), (String ((Ascii (false, true,
              false, true, true, true, false, false)), (String ((Ascii
              (false, true, false, true, true, true, false, false)), (String
              ((Ascii (true, true, false, false, true, false, true, false)),
              (String ((Ascii (false, false, true, false, true, true, true,
              false)), (String ((Ascii (true, false, false, false, false,
              true, true, false)), (String ((Ascii (false, true, false,
              false, true, true, true, false)), (String ((Ascii (false,
              false, true, false, true, true, true, false)), (String ((Ascii
              (true, true, true, false, true, false, true, false)), (String
              ((Ascii (true, true, true, true, false, true, true, false)),
              (String ((Ascii (false, true, false, false, true, true, true,
              false)), (String ((Ascii (true, true, false, true, false, true,
              true, false)),
              EmptyString)))))))))))))))))))))))))))))))))))))) vQUEUE)))
        (all_locked dMUTEX
          (rows_var tbl (String ((Ascii (false, false, true, false, false,
            false, true, false)), (String ((Ascii (true, false, true, false,
            false, true, true, false)), (String ((Ascii (false, false, false,
            false, true, true, true, false)), (String ((Ascii (false, false,
            true, true, false, true, true, false)), (String ((Ascii (true,
            true, true, true, false, true, true, false)), (String ((Ascii
            (true, false, false, true, true, true, true, false)), (String
            ((Ascii (true, false, true, false, false, true, true, false)),
            (String ((Ascii (false, true, false, false, true, true, true,
            false)), (String ((Ascii (false, true, false, true, true, true,
            false, false)), (String ((Ascii (false, true, false, true, true,
            true, false, false)), (String ((Ascii (true, true, false, false,
            true, false, true, false)), (String ((Ascii (false, false, true,
            false, true, true, true, false)), (String ((Ascii (true, false,
            false, false, false, true, true, false)), (String ((Ascii (false,
            true, false, false, true, true, true, false)), (String ((Ascii
            (false, false, true, false, true, true, true, false)), (String
            ((Ascii (true, true, true, false, true, false, true, false)),
            (String ((Ascii (true, true, true, true, false, true, true,
            false)), (String ((Ascii (false, true, false, false, true, true,
            true, false)), (String ((Ascii (true, true, false, true, false,
            true, true, false)),
            EmptyString)))))))))))))))))))))))))))))))))))))) vRUNNING)))
      (all_locked dMUTEX
        (rows_var tbl (String ((Ascii (false, false, true, false, false,
          false, true, false)), (String ((Ascii (true, false, true, false,
          false, true, true, false)), (String ((Ascii (false, false, false,
          false, true, true, true, false)), (String ((Ascii (false, false,
          true, true, false, true, true, false)), (String ((Ascii (true,
          true, true, true, false, true, true, false)), (String ((Ascii
          (true, false, false, true, true, true, true, false)), (String
          ((Ascii (true, false, true, false, false, true, true, false)),
          (String ((Ascii (false, true, false, false, true, true, true,
          false)), (String ((Ascii (false, true, false, true, true, true,
          false, false)), (String ((Ascii (false, true, false, true, true,
          true, false, false)), (String ((Ascii (true, true, false, false,
          true, false, true, false)), (String ((Ascii (true, true, false,
          false, false, true, true, false)), (String ((Ascii (false, false,
          false, true, false, true, true, false)), (String ((Ascii (true,
          false, true, false, false, true, true, false)), (String ((Ascii
          (false, false, true, false, false, true, true, false)), (String
          ((Ascii (true, false, true, false, true, true, true, false)),
          (String ((Ascii (false, false, true, true, false, true, true,
          false)), (String ((Ascii (true, false, true, false, false, true,
          true, false)), (String ((Ascii (false, false, true, false, true,
          false, true, false)), (String ((Ascii (true, false, false, false,
          false, true, true, false)), (String ((Ascii (true, true, false,
          false, true, true, true, false)), (String ((Ascii (true, true,
          false, true, false, true, true, false)),
          EmptyString)))))))))))))))))))))))))))))))))))))))))))) vQUEUE)))
    (all_locked dMUTEX
      (rows_var tbl (String ((Ascii (false, false, true, false, false, false,
        true, false)), (String ((Ascii (true, false, true, false, false,
        true, true, false)), (String ((Ascii (false, false, false, false,
        true, true, true, false)), (String ((Ascii (false, false, true, true,
        false, true, true, false)), (String ((Ascii (true, true, true, true,
        false, true, true, false)), (String ((Ascii (true, false, false,
        true, true, true, true, false)), (String ((Ascii (true, false, true,
        false, false, true, true, false)), (String ((Ascii (false, true,
        false, false, true, true, true, false)), (String ((Ascii (false,
        true, false, true, true, true, false, false)), (String ((Ascii
        (false, true, false, true, true, true, false, false)), (String
        ((Ascii (false, true, true, true, false, false, true, false)),
        (String ((Ascii (true, false, true, false, false, true, true,
        false)), (String ((Ascii (false, false, false, true, true, true,
        true, false)), (String ((Ascii (false, false, true, false, true,
        true, true, false)), (String ((Ascii (false, false, true, false,
        true, false, true, false)), (String ((Ascii (true, false, false,
        false, false, true, true, false)), (String ((Ascii (true, true,
        false, false, true, true, true, false)), (String ((Ascii (true, true,
        false, true, false, true, true, false)),
        EmptyString)))))))))))))))))))))))))))))))))))) vQUEUE))

(** val no_flag : acc_row list -> bool **)

let no_flag tbl =
  forallb (fun r -> negb (eqb1 r.a_var vRUNNING)) tbl

(** val handover_of_table : acc_row list -> handover **)

let handover_of_table tbl =
  if (&&) (shapes_match tbl expected_shapes_future) (no_flag tbl)
  then HFuture
  else if (&&) (shapes_match tbl expected_shapes_flag) (flag_locked tbl)
       then HFlag
       else HUnrecognised

(** val table_shape_ok : acc_row list -> bool **)

let table_shape_ok tbl =
  (&&) (shapes_match tbl expected_shapes)
    (negb (handover_eqb (handover_of_table tbl) HUnrecognised))

(** val cfg_of_table : acc_row list -> cfg **)

let cfg_of_table tbl =
  let nrows =
    rows_var tbl (String ((Ascii (true, true, false, false, true, false,
      true, false)), (String ((Ascii (true, false, true, false, false, true,
      true, false)), (String ((Ascii (false, true, false, false, true, true,
      true, false)), (String ((Ascii (false, true, true, false, true, true,
      true, false)), (String ((Ascii (true, false, false, true, false, true,
      true, false)), (String ((Ascii (true, true, false, false, false, true,
      true, false)), (String ((Ascii (true, false, true, false, false, true,
      true, false)), (String ((Ascii (false, true, false, true, true, true,
      false, false)), (String ((Ascii (false, true, false, true, true, true,
      false, false)), (String ((Ascii (false, true, true, true, false, false,
      true, false)), (String ((Ascii (true, true, true, true, false, true,
      true, false)), (String ((Ascii (false, false, true, false, true, true,
      true, false)), (String ((Ascii (true, false, false, true, false, true,
      true, false)), (String ((Ascii (false, true, true, false, false, true,
      true, false)), (String ((Ascii (true, false, false, true, true, true,
      true, false)), EmptyString)))))))))))))))))))))))))))))) vHANDLER
  in
  { lk_sched =
  (all_locked dMUTEX
    (rows_var tbl (String ((Ascii (false, false, true, false, false, false,
      true, false)), (String ((Ascii (true, false, true, false, false, true,
      true, false)), (String ((Ascii (false, false, false, false, true, true,
      true, false)), (String ((Ascii (false, false, true, true, false, true,
      true, false)), (String ((Ascii (true, true, true, true, false, true,
      true, false)), (String ((Ascii (true, false, false, true, true, true,
      true, false)), (String ((Ascii (true, false, true, false, false, true,
      true, false)), (String ((Ascii (false, true, false, false, true, true,
      true, false)), (String ((Ascii (false, true, false, true, true, true,
      false, false)), (String ((Ascii (false, true, false, true, true, true,
      false, false)), (String ((Ascii (true, true, false, false, true, false,
      true, false)), (String ((Ascii (true, true, false, false, false, true,
      true, false)), (String ((Ascii (false, false, false, true, false, true,
      true, false)), (String ((Ascii (true, false, true, false, false, true,
      true, false)), (String ((Ascii (false, false, true, false, false, true,
      true, false)), (String ((Ascii (true, false, true, false, true, true,
      true, false)), (String ((Ascii (false, false, true, true, false, true,
      true, false)), (String ((Ascii (true, false, true, false, false, true,
      true, false)), (String ((Ascii (false, false, true, false, true, false,
      true, false)), (String ((Ascii (true, false, false, false, false, true,
      true, false)), (String ((Ascii (true, true, false, false, true, true,
      true, false)), (String ((Ascii (true, true, false, true, false, true,
      true, false)), EmptyString))))))))))))))))))))))))))))))))))))))))))))
      vQUEUE)); lk_next =
  (all_locked dMUTEX
    (rows_var tbl (String ((Ascii (false, false, true, false, false, false,
      true, false)), (String ((Ascii (true, false, true, false, false, true,
      true, false)), (String ((Ascii (false, false, false, false, true, true,
      true, false)), (String ((Ascii (false, false, true, true, false, true,
      true, false)), (String ((Ascii (true, true, true, true, false, true,
      true, false)), (String ((Ascii (true, false, false, true, true, true,
      true, false)), (String ((Ascii (true, false, true, false, false, true,
      true, false)), (String ((Ascii (false, true, false, false, true, true,
      true, false)), (String ((Ascii (false, true, false, true, true, true,
      false, false)), (String ((Ascii (false, true, false, true, true, true,
      false, false)), (String ((Ascii (false, true, true, true, false, false,
      true, false)), (String ((Ascii (true, false, true, false, false, true,
      true, false)), (String ((Ascii (false, false, false, true, true, true,
      true, false)), (String ((Ascii (false, false, true, false, true, true,
      true, false)), (String ((Ascii (false, false, true, false, true, false,
      true, false)), (String ((Ascii (true, false, false, false, false, true,
      true, false)), (String ((Ascii (true, true, false, false, true, true,
      true, false)), (String ((Ascii (true, true, false, true, false, true,
      true, false)), EmptyString)))))))))))))))))))))))))))))))))))) vQUEUE));
  lk_hasp =
  (all_locked dMUTEX
    (rows_var tbl (String ((Ascii (false, false, true, false, false, false,
      true, false)), (String ((Ascii (true, false, true, false, false, true,
      true, false)), (String ((Ascii (false, false, false, false, true, true,
      true, false)), (String ((Ascii (false, false, true, true, false, true,
      true, false)), (String ((Ascii (true, true, true, true, false, true,
      true, false)), (String ((Ascii (true, false, false, true, true, true,
      true, false)), (String ((Ascii (true, false, true, false, false, true,
      true, false)), (String ((Ascii (false, true, false, false, true, true,
      true, false)), (String ((Ascii (false, true, false, true, true, true,
      false, false)), (String ((Ascii (false, true, false, true, true, true,
      false, false)), (String ((Ascii (false, false, false, true, false,
      false, true, false)), (String ((Ascii (true, false, false, false,
      false, true, true, false)), (String ((Ascii (true, true, false, false,
      true, true, true, false)), (String ((Ascii (false, false, false, false,
      true, false, true, false)), (String ((Ascii (true, false, true, false,
      false, true, true, false)), (String ((Ascii (false, true, true, true,
      false, true, true, false)), (String ((Ascii (false, false, true, false,
      false, true, true, false)), (String ((Ascii (true, false, false, true,
      false, true, true, false)), (String ((Ascii (false, true, true, true,
      false, true, true, false)), (String ((Ascii (true, true, true, false,
      false, true, true, false)), (String ((Ascii (false, false, true, false,
      true, false, true, false)), (String ((Ascii (true, false, false, false,
      false, true, true, false)), (String ((Ascii (true, true, false, false,
      true, true, true, false)), (String ((Ascii (true, true, false, true,
      false, true, true, false)), (String ((Ascii (true, true, false, false,
      true, true, true, false)),
      EmptyString)))))))))))))))))))))))))))))))))))))))))))))))))) vQUEUE));
  lk_set =
  (all_locked sMUTEX
    (rows_var tbl (String ((Ascii (true, true, false, false, true, false,
      true, false)), (String ((Ascii (true, false, true, false, false, true,
      true, false)), (String ((Ascii (false, true, false, false, true, true,
      true, false)), (String ((Ascii (false, true, true, false, true, true,
      true, false)), (String ((Ascii (true, false, false, true, false, true,
      true, false)), (String ((Ascii (true, true, false, false, false, true,
      true, false)), (String ((Ascii (true, false, true, false, false, true,
      true, false)), (String ((Ascii (false, true, false, true, true, true,
      false, false)), (String ((Ascii (false, true, false, true, true, true,
      false, false)), (String ((Ascii (true, true, false, false, true, false,
      true, false)), (String ((Ascii (true, false, true, false, false, true,
      true, false)), (String ((Ascii (false, false, true, false, true, true,
      true, false)), (String ((Ascii (false, true, true, true, false, false,
      true, false)), (String ((Ascii (true, true, true, true, false, true,
      true, false)), (String ((Ascii (false, false, true, false, true, true,
      true, false)), (String ((Ascii (true, false, false, true, false, true,
      true, false)), (String ((Ascii (false, true, true, false, false, true,
      true, false)), (String ((Ascii (true, false, false, true, false, true,
      true, false)), (String ((Ascii (true, true, false, false, false, true,
      true, false)), (String ((Ascii (true, false, false, false, false, true,
      true, false)), (String ((Ascii (false, false, true, false, true, true,
      true, false)), (String ((Ascii (true, false, false, true, false, true,
      true, false)), (String ((Ascii (true, true, true, true, false, true,
      true, false)), (String ((Ascii (false, true, true, true, false, true,
      true, false)), (String ((Ascii (false, false, false, true, false,
      false, true, false)), (String ((Ascii (true, false, false, false,
      false, true, true, false)), (String ((Ascii (false, true, true, true,
      false, true, true, false)), (String ((Ascii (false, false, true, false,
      false, true, true, false)), (String ((Ascii (false, false, true, true,
      false, true, true, false)), (String ((Ascii (true, false, true, false,
      false, true, true, false)), (String ((Ascii (false, true, false, false,
      true, true, true, false)),
      EmptyString))))))))))))))))))))))))))))))))))))))))))))))))))))))))))))))
      vHANDLER)); lk_clear =
  (all_locked sMUTEX
    (rows_var tbl (String ((Ascii (true, true, false, false, true, false,
      true, false)), (String ((Ascii (true, false, true, false, false, true,
      true, false)), (String ((Ascii (false, true, false, false, true, true,
      true, false)), (String ((Ascii (false, true, true, false, true, true,
      true, false)), (String ((Ascii (true, false, false, true, false, true,
      true, false)), (String ((Ascii (true, true, false, false, false, true,
      true, false)), (String ((Ascii (true, false, true, false, false, true,
      true, false)), (String ((Ascii (false, true, false, true, true, true,
      false, false)), (String ((Ascii (false, true, false, true, true, true,
      false, false)), (String ((Ascii (true, true, false, false, false,
      false, true, false)), (String ((Ascii (false, false, true, true, false,
      true, true, false)), (String ((Ascii (true, false, true, false, false,
      true, true, false)), (String ((Ascii (true, false, false, false, false,
      true, true, false)), (String ((Ascii (false, true, false, false, true,
      true, true, false)), (String ((Ascii (false, true, true, true, false,
      false, true, false)), (String ((Ascii (true, true, true, true, false,
      true, true, false)), (String ((Ascii (false, false, true, false, true,
      true, true, false)), (String ((Ascii (true, false, false, true, false,
      true, true, false)), (String ((Ascii (false, true, true, false, false,
      true, true, false)), (String ((Ascii (true, false, false, true, false,
      true, true, false)), (String ((Ascii (true, true, false, false, false,
      true, true, false)), (String ((Ascii (true, false, false, false, false,
      true, true, false)), (String ((Ascii (false, false, true, false, true,
      true, true, false)), (String ((Ascii (true, false, false, true, false,
      true, true, false)), (String ((Ascii (true, true, true, true, false,
      true, true, false)), (String ((Ascii (false, true, true, true, false,
      true, true, false)), (String ((Ascii (false, false, false, true, false,
      false, true, false)), (String ((Ascii (true, false, false, false,
      false, true, true, false)), (String ((Ascii (false, true, true, true,
      false, true, true, false)), (String ((Ascii (false, false, true, false,
      false, true, true, false)), (String ((Ascii (false, false, true, true,
      false, true, true, false)), (String ((Ascii (true, false, true, false,
      false, true, true, false)), (String ((Ascii (false, true, false, false,
      true, true, true, false)),
      EmptyString))))))))))))))))))))))))))))))))))))))))))))))))))))))))))))))))))
      vHANDLER)); lk_ntest = (nth_locked nrows O sMUTEX); lk_ncall =
  (nth_locked nrows (S O) sMUTEX); ho = (handover_of_table tbl) }

type tid =
| Client
| Worker

(** val tid_eqb : tid -> tid -> bool **)

let tid_eqb a b =
  match a with
  | Client -> (match b with
               | Client -> true
               | Worker -> false)
  | Worker -> (match b with
               | Client -> false
               | Worker -> true)

type fut =
| FNone
| FRunning
| FReturned
| FReady

type outcome =
| OOk
| OFail
| OThrow

(** val outcome_ok : outcome -> bool **)

let outcome_ok = function
| OOk -> true
| _ -> false

type task = nat * outcome

type msg =
| MStart
| MResult

type npc =
| N1
| N2
| N3
| N4

type wpc =
| WEnter
| WN of msg * npc
| WNext
| WBody of nat * outcome
| WHasP
| WRet
| WThrow
| WFin

type call =
| CStartMaint of outcome list
| CSyncUser of outcome list
| CIsMaint
| CJoin
| CCreate
| CProcessKey of nat
| CGetContext of nat
| CFind of nat
| CDestroy of nat
| CSetHandler of bool
| CPlan of outcome

type kont =
| KMaint
| KSync

type sop =
| OpKey
| OpCtx
| OpFind

type cpc =
| CIdle
| CSched of outcome list * kont
| CSW0 of kont
| CSW1 of kont
| CSW2 of kont
| CSW3 of kont
| CSW4 of kont
| CCreate1
| CGet1 of sop * nat

type rname =
| RStartMaint
| RSyncUser
| RIsMaint
| RJoin
| RCreate
| RKey
| RCtx
| RFind
| RDestroy
| RSetHandler
| RPlan

type nmsg =
| NStart
| NSuccess
| NFailure

type event =
| ERet of rname * nat
| ENotify of nmsg
| EHEnter of nat
| EHLeave
| ESched of nat
| EExec of nat
| EAccept
| ESpawn
| EDone
| EBadCall
| EJoinThrow

type state = { queue : task list; mm : bool; running : bool; work : fut;
               wexc : bool; started : bool; sessions : nat list;
               next_sid : nat; created : nat list; handler : bool;
               hgen : nat; hplan : outcome list; smutex : tid option;
               next_task : nat; wfail : bool; wpcs : wpc option; cpcs : 
               cpc; script : call list; log : event list }

(** val log : state -> event list **)

let log s =
  s.log

(** val set_queue : task list -> state -> state **)

let set_queue v s =
  { queue = v; mm = s.mm; running = s.running; work = s.work; wexc = s.wexc;
    started = s.started; sessions = s.sessions; next_sid = s.next_sid;
    created = s.created; handler = s.handler; hgen = s.hgen; hplan = s.hplan;
    smutex = s.smutex; next_task = s.next_task; wfail = s.wfail; wpcs =
    s.wpcs; cpcs = s.cpcs; script = s.script; log = s.log }

(** val set_mm : bool -> state -> state **)

let set_mm v s =
  { queue = s.queue; mm = v; running = s.running; work = s.work; wexc =
    s.wexc; started = s.started; sessions = s.sessions; next_sid =
    s.next_sid; created = s.created; handler = s.handler; hgen = s.hgen;
    hplan = s.hplan; smutex = s.smutex; next_task = s.next_task; wfail =
    s.wfail; wpcs = s.wpcs; cpcs = s.cpcs; script = s.script; log = s.log }

(** val set_running : bool -> state -> state **)

let set_running v s =
  { queue = s.queue; mm = s.mm; running = v; work = s.work; wexc = s.wexc;
    started = s.started; sessions = s.sessions; next_sid = s.next_sid;
    created = s.created; handler = s.handler; hgen = s.hgen; hplan = s.hplan;
    smutex = s.smutex; next_task = s.next_task; wfail = s.wfail; wpcs =
    s.wpcs; cpcs = s.cpcs; script = s.script; log = s.log }

(** val set_work : fut -> state -> state **)

let set_work v s =
  { queue = s.queue; mm = s.mm; running = s.running; work = v; wexc = s.wexc;
    started = s.started; sessions = s.sessions; next_sid = s.next_sid;
    created = s.created; handler = s.handler; hgen = s.hgen; hplan = s.hplan;
    smutex = s.smutex; next_task = s.next_task; wfail = s.wfail; wpcs =
    s.wpcs; cpcs = s.cpcs; script = s.script; log = s.log }

(** val set_wexc : bool -> state -> state **)

let set_wexc v s =
  { queue = s.queue; mm = s.mm; running = s.running; work = s.work; wexc = v;
    started = s.started; sessions = s.sessions; next_sid = s.next_sid;
    created = s.created; handler = s.handler; hgen = s.hgen; hplan = s.hplan;
    smutex = s.smutex; next_task = s.next_task; wfail = s.wfail; wpcs =
    s.wpcs; cpcs = s.cpcs; script = s.script; log = s.log }

(** val set_sessions : nat list -> state -> state **)

let set_sessions v s =
  { queue = s.queue; mm = s.mm; running = s.running; work = s.work; wexc =
    s.wexc; started = s.started; sessions = v; next_sid = s.next_sid;
    created = s.created; handler = s.handler; hgen = s.hgen; hplan = s.hplan;
    smutex = s.smutex; next_task = s.next_task; wfail = s.wfail; wpcs =
    s.wpcs; cpcs = s.cpcs; script = s.script; log = s.log }

(** val set_next_sid : nat -> state -> state **)

let set_next_sid v s =
  { queue = s.queue; mm = s.mm; running = s.running; work = s.work; wexc =
    s.wexc; started = s.started; sessions = s.sessions; next_sid = v;
    created = s.created; handler = s.handler; hgen = s.hgen; hplan = s.hplan;
    smutex = s.smutex; next_task = s.next_task; wfail = s.wfail; wpcs =
    s.wpcs; cpcs = s.cpcs; script = s.script; log = s.log }

(** val set_created : nat list -> state -> state **)

let set_created v s =
  { queue = s.queue; mm = s.mm; running = s.running; work = s.work; wexc =
    s.wexc; started = s.started; sessions = s.sessions; next_sid =
    s.next_sid; created = v; handler = s.handler; hgen = s.hgen; hplan =
    s.hplan; smutex = s.smutex; next_task = s.next_task; wfail = s.wfail;
    wpcs = s.wpcs; cpcs = s.cpcs; script = s.script; log = s.log }

(** val set_handler : bool -> state -> state **)

let set_handler v s =
  { queue = s.queue; mm = s.mm; running = s.running; work = s.work; wexc =
    s.wexc; started = s.started; sessions = s.sessions; next_sid =
    s.next_sid; created = s.created; handler = v; hgen = s.hgen; hplan =
    s.hplan; smutex = s.smutex; next_task = s.next_task; wfail = s.wfail;
    wpcs = s.wpcs; cpcs = s.cpcs; script = s.script; log = s.log }

(** val set_hgen : nat -> state -> state **)

let set_hgen v s =
  { queue = s.queue; mm = s.mm; running = s.running; work = s.work; wexc =
    s.wexc; started = s.started; sessions = s.sessions; next_sid =
    s.next_sid; created = s.created; handler = s.handler; hgen = v; hplan =
    s.hplan; smutex = s.smutex; next_task = s.next_task; wfail = s.wfail;
    wpcs = s.wpcs; cpcs = s.cpcs; script = s.script; log = s.log }

(** val set_hplan : outcome list -> state -> state **)

let set_hplan v s =
  { queue = s.queue; mm = s.mm; running = s.running; work = s.work; wexc =
    s.wexc; started = s.started; sessions = s.sessions; next_sid =
    s.next_sid; created = s.created; handler = s.handler; hgen = s.hgen;
    hplan = v; smutex = s.smutex; next_task = s.next_task; wfail = s.wfail;
    wpcs = s.wpcs; cpcs = s.cpcs; script = s.script; log = s.log }

(** val set_smutex : tid option -> state -> state **)

let set_smutex v s =
  { queue = s.queue; mm = s.mm; running = s.running; work = s.work; wexc =
    s.wexc; started = s.started; sessions = s.sessions; next_sid =
    s.next_sid; created = s.created; handler = s.handler; hgen = s.hgen;
    hplan = s.hplan; smutex = v; next_task = s.next_task; wfail = s.wfail;
    wpcs = s.wpcs; cpcs = s.cpcs; script = s.script; log = s.log }

(** val set_next_task : nat -> state -> state **)

let set_next_task v s =
  { queue = s.queue; mm = s.mm; running = s.running; work = s.work; wexc =
    s.wexc; started = s.started; sessions = s.sessions; next_sid =
    s.next_sid; created = s.created; handler = s.handler; hgen = s.hgen;
    hplan = s.hplan; smutex = s.smutex; next_task = v; wfail = s.wfail;
    wpcs = s.wpcs; cpcs = s.cpcs; script = s.script; log = s.log }

(** val set_wfail : bool -> state -> state **)

let set_wfail v s =
  { queue = s.queue; mm = s.mm; running = s.running; work = s.work; wexc =
    s.wexc; started = s.started; sessions = s.sessions; next_sid =
    s.next_sid; created = s.created; handler = s.handler; hgen = s.hgen;
    hplan = s.hplan; smutex = s.smutex; next_task = s.next_task; wfail = v;
    wpcs = s.wpcs; cpcs = s.cpcs; script = s.script; log = s.log }

(** val set_wpcs : wpc option -> state -> state **)

let set_wpcs v s =
  { queue = s.queue; mm = s.mm; running = s.running; work = s.work; wexc =
    s.wexc; started = s.started; sessions = s.sessions; next_sid =
    s.next_sid; created = s.created; handler = s.handler; hgen = s.hgen;
    hplan = s.hplan; smutex = s.smutex; next_task = s.next_task; wfail =
    s.wfail; wpcs = v; cpcs = s.cpcs; script = s.script; log = s.log }

(** val set_cpcs : cpc -> state -> state **)

let set_cpcs v s =
  { queue = s.queue; mm = s.mm; running = s.running; work = s.work; wexc =
    s.wexc; started = s.started; sessions = s.sessions; next_sid =
    s.next_sid; created = s.created; handler = s.handler; hgen = s.hgen;
    hplan = s.hplan; smutex = s.smutex; next_task = s.next_task; wfail =
    s.wfail; wpcs = s.wpcs; cpcs = v; script = s.script; log = s.log }

(** val set_script : call list -> state -> state **)

let set_script v s =
  { queue = s.queue; mm = s.mm; running = s.running; work = s.work; wexc =
    s.wexc; started = s.started; sessions = s.sessions; next_sid =
    s.next_sid; created = s.created; handler = s.handler; hgen = s.hgen;
    hplan = s.hplan; smutex = s.smutex; next_task = s.next_task; wfail =
    s.wfail; wpcs = s.wpcs; cpcs = s.cpcs; script = v; log = s.log }

(** val set_log : event list -> state -> state **)

let set_log v s =
  { queue = s.queue; mm = s.mm; running = s.running; work = s.work; wexc =
    s.wexc; started = s.started; sessions = s.sessions; next_sid =
    s.next_sid; created = s.created; handler = s.handler; hgen = s.hgen;
    hplan = s.hplan; smutex = s.smutex; next_task = s.next_task; wfail =
    s.wfail; wpcs = s.wpcs; cpcs = s.cpcs; script = s.script; log = v }

(** val emit : event -> state -> state **)

let emit e s =
  set_log (e :: s.log) s

(** val init : bool -> call list -> state **)

let init h0 sc =
  { queue = []; mm = false; running = false; work = FNone; wexc = false;
    started = true; sessions = []; next_sid = O; created = []; handler = h0;
    hgen = O; hplan = []; smutex = None; next_task = O; wfail = false; wpcs =
    None; cpcs = CIdle; script = sc; log = [] }

(** val working : state -> bool **)

let working s =
  match s.work with
  | FNone -> false
  | FReady -> false
  | _ -> true

(** val is_maint : state -> bool **)

let is_maint s =
  (&&) s.mm (working s)

(** val disabled : state -> bool **)

let disabled s =
  (||) (negb s.started) (is_maint s)

(** val b2n : bool -> nat **)

let b2n = function
| true -> S O
| false -> O

(** val free_for : state -> bool -> bool **)

let free_for s want =
  (||) (negb want) (match s.smutex with
                    | Some _ -> false
                    | None -> true)

(** val mem : nat -> nat list -> bool **)

let mem x l =
  existsb (Nat.eqb x) l

(** val remove_nat : nat -> nat list -> nat list **)

let remove_nat x l =
  filter (fun y -> negb (Nat.eqb x y)) l

(** val after_notify : msg -> wpc **)

let after_notify = function
| MStart -> WNext
| MResult -> WHasP

(** val release_w : state -> state **)

let release_w s =
  match s.smutex with
  | Some t -> (match t with
               | Client -> s
               | Worker -> set_smutex None s)
  | None -> s

(** val step_worker : cfg -> state -> state option **)

let step_worker c s =
  match s.wpcs with
  | Some p ->
    (match p with
     | WEnter -> Some (set_wpcs (Some (WN (MStart, N1))) s)
     | WN (m, n0) ->
       (match n0 with
        | N1 ->
          if free_for s c.lk_ntest
          then if s.handler
               then if c.lk_ntest
                    then Some
                           (set_wpcs (Some (WN (m, N3)))
                             (set_smutex (Some Worker) s))
                    else if c.lk_ncall
                         then Some (set_wpcs (Some (WN (m, N2))) s)
                         else Some (set_wpcs (Some (WN (m, N3))) s)
               else Some (set_wpcs (Some (after_notify m)) s)
          else None
        | N2 ->
          if free_for s true
          then Some
                 (set_wpcs (Some (WN (m, N3))) (set_smutex (Some Worker) s))
          else None
        | N3 ->
          if s.handler
          then let v =
                 match m with
                 | MStart -> NStart
                 | MResult -> if s.wfail then NFailure else NSuccess
               in
               let s1 = emit (ENotify v) (emit (EHEnter s.hgen) s) in
               (match m with
                | MStart -> Some (set_wpcs (Some (WN (m, N4))) s1)
                | MResult ->
                  (match s.hplan with
                   | [] -> Some (set_wpcs (Some (WN (m, N4))) s1)
                   | r :: rest ->
                     Some
                       (set_wpcs (Some (WN (m, N4)))
                         (set_hplan rest
                           (set_next_task (S s.next_task)
                             (set_queue
                               (app s.queue ((s.next_task, r) :: []))
                               (emit (ESched s.next_task) s1)))))))
          else Some (set_wpcs (Some WThrow) (release_w (emit EBadCall s)))
        | N4 ->
          Some (set_wpcs (Some (after_notify m)) (release_w (emit EHLeave s))))
     | WNext ->
       (match s.queue with
        | [] -> Some (set_wpcs (Some (WN (MResult, N1))) s)
        | t0 :: q ->
          let (t, r) = t0 in
          Some (set_wpcs (Some (WBody (t, r))) (set_queue q s)))
     | WBody (t, r) ->
       Some
         (set_wpcs (Some WNext)
           (set_wfail ((||) s.wfail (negb (outcome_ok r))) (emit (EExec t) s)))
     | WHasP ->
       (match s.queue with
        | [] ->
          Some
            (set_wpcs (Some WRet) (if nw c then set_running false s else s))
        | _ :: _ -> Some (set_wpcs (Some WNext) s))
     | WRet -> Some (set_wpcs (Some WFin) (set_work FReturned s))
     | WThrow ->
       Some
         (set_wpcs (Some WFin)
           (set_wexc true
             (set_work FReturned (if nw c then set_running false s else s))))
     | WFin -> Some (set_wpcs None (emit EDone (set_work FReady s))))
  | None -> None

(** val after_sched : outcome list -> kont -> cpc **)

let after_sched rs k =
  match rs with
  | [] -> CSW0 k
  | _ :: _ -> CSched (rs, k)

(** val finish : kont -> bool -> state -> state **)

let finish k b s =
  set_cpcs CIdle
    (match k with
     | KMaint -> emit (ERet (RStartMaint, (S O))) s
     | KSync -> emit (ERet (RSyncUser, (b2n b))) s)

(** val sid_of : state -> nat -> nat **)

let sid_of s n0 =
  nth n0 s.created O

(** val ret_of : sop -> rname **)

let ret_of = function
| OpKey -> RKey
| OpCtx -> RCtx
| OpFind -> RFind

(** val get_session : sop -> nat -> state -> state **)

let get_session o sid s =
  if disabled s
  then emit (ERet ((ret_of o), O)) s
  else set_cpcs (CGet1 (o, sid)) (emit EAccept s)

(** val step_call : cfg -> call -> state -> state option **)

let step_call c cl s =
  match cl with
  | CStartMaint rs -> Some (set_cpcs (after_sched rs KMaint) s)
  | CSyncUser rs -> Some (set_cpcs (after_sched rs KSync) (set_sessions [] s))
  | CIsMaint -> Some (emit (ERet (RIsMaint, (b2n (is_maint s)))) s)
  | CJoin ->
    (match s.work with
     | FNone -> Some (emit (ERet (RJoin, O)) s)
     | FReady ->
       Some
         (set_wexc false
           (set_work FNone
             (emit (if s.wexc then EJoinThrow else ERet (RJoin, O)) s)))
     | _ -> None)
  | CCreate ->
    if disabled s
    then Some
           (set_created (app s.created (O :: []))
             (emit (ERet (RCreate, O)) s))
    else Some (set_cpcs CCreate1 (emit EAccept s))
  | CProcessKey n0 -> Some (get_session OpKey (sid_of s n0) s)
  | CGetContext n0 -> Some (get_session OpCtx (sid_of s n0) s)
  | CFind n0 ->
    (match sid_of s n0 with
     | O -> Some (emit (ERet (RFind, O)) s)
     | S n1 -> Some (get_session OpFind (S n1) s))
  | CDestroy n0 ->
    let sid = sid_of s n0 in
    Some
    (set_sessions (remove_nat sid s.sessions)
      (emit (ERet (RDestroy, (b2n (mem sid s.sessions)))) s))
  | CSetHandler b ->
    if free_for s (if b then c.lk_set else c.lk_clear)
    then Some
           (set_hgen (S s.hgen)
             (set_handler b (emit (ERet (RSetHandler, O)) s)))
    else None
  | CPlan r ->
    Some (set_hplan (app s.hplan (r :: [])) (emit (ERet (RPlan, O)) s))

(** val step_client : cfg -> state -> state option **)

let step_client c s =
  match s.cpcs with
  | CIdle ->
    (match s.script with
     | [] -> None
     | cl :: rest -> step_call c cl (set_script rest s))
  | CSched (rs0, k) ->
    (match rs0 with
     | [] -> Some (set_cpcs (CSW0 k) s)
     | r :: rs ->
       Some
         (set_cpcs (after_sched rs k)
           (set_next_task (S s.next_task)
             (set_queue (app s.queue ((s.next_task, r) :: []))
               (emit (ESched s.next_task) s)))))
  | CSW0 k ->
    if nw c
    then if s.running
         then Some (finish k false s)
         else (match s.queue with
               | [] -> Some (finish k false (set_mm true s))
               | _ :: _ ->
                 Some (set_cpcs (CSW1 k) (set_running true (set_mm true s))))
    else if working s
         then Some (finish k false s)
         else Some (set_cpcs (CSW1 k) s)
  | CSW1 k ->
    if nw c
    then if working s then None else Some (set_cpcs (CSW3 k) s)
    else Some (set_cpcs (CSW2 k) (set_mm true s))
  | CSW2 k ->
    (match s.queue with
     | [] -> Some (finish k false s)
     | _ :: _ -> Some (set_cpcs (CSW3 k) s))
  | CSW3 k ->
    Some
      (set_cpcs (CSW4 k)
        (set_wpcs (Some WEnter)
          (set_wfail false
            (set_wexc false (set_work FRunning (emit ESpawn s))))))
  | CSW4 k -> Some (finish k true s)
  | CCreate1 ->
    let sid = S s.next_sid in
    Some
    (set_cpcs CIdle
      (set_created (app s.created (sid :: []))
        (set_next_sid sid
          (set_sessions (sid :: s.sessions) (emit (ERet (RCreate, sid)) s)))))
  | CGet1 (o, sid) ->
    let found = mem sid s.sessions in
    Some
    (set_cpcs CIdle
      (emit (ERet ((ret_of o), (match o with
                                | OpKey -> O
                                | _ -> b2n found))) s))

(** val step : cfg -> state -> tid -> state option **)

let step c s = function
| Client -> step_client c s
| Worker -> step_worker c s

(** val w_yield : wpc -> bool **)

let w_yield = function
| WN (_, n0) -> (match n0 with
                 | N2 -> false
                 | _ -> true)
| WThrow -> false
| WFin -> false
| _ -> true

(** val c_yield : cpc -> bool **)

let c_yield = function
| CSW0 _ -> false
| CSW2 _ -> false
| CSW3 _ -> false
| _ -> true

(** val at_yield : state -> tid -> bool **)

let at_yield s = function
| Client -> c_yield s.cpcs
| Worker -> (match s.wpcs with
             | Some p -> w_yield p
             | None -> true)

(** val run_to_yield : cfg -> nat -> state -> tid -> state option **)

let rec run_to_yield c fuel s t =
  if at_yield s t
  then Some s
  else (match fuel with
        | O -> None
        | S f ->
          (match step c s t with
           | Some s' -> run_to_yield c f s' t
           | None -> None))

(** val macro : cfg -> state -> tid -> state option **)

let macro c s t =
  match step c s t with
  | Some s' -> run_to_yield c (S (S (S (S (S (S (S (S O)))))))) s' t
  | None -> None

(** val run_macro : cfg -> state -> tid list -> state option **)

let rec run_macro c s = function
| [] -> Some s
| t :: rest ->
  (match macro c s t with
   | Some s' -> run_macro c s' rest
   | None -> None)

(** val enabled : cfg -> state -> tid -> bool **)

let enabled c s t =
  match macro c s t with
  | Some _ -> true
  | None -> false

(** val enum : cfg -> nat -> nat -> tid -> state -> tid list list **)

let rec enum c fuel k cur s =
  match fuel with
  | O -> [] :: []
  | S f ->
    let go = fun t ->
      match macro c s t with
      | Some s' ->
        let cost =
          if tid_eqb t cur then O else if enabled c s cur then S O else O
        in
        if Nat.leb cost k
        then map (fun x -> t :: x) (enum c f (sub k cost) t s')
        else []
      | None -> []
    in
    if (||) (enabled c s Client) (enabled c s Worker)
    then app (go Client) (go Worker)
    else [] :: []

(** val w_acc : acc_row list -> state -> acc_row list **)

let w_acc tbl s =
  match s.wpcs with
  | Some p ->
    (match p with
     | WN (_, _) ->
       app
         (rows tbl (String ((Ascii (true, true, false, false, true, false,
           true, false)), (String ((Ascii (true, false, true, false, false,
           true, true, false)), (String ((Ascii (false, true, false, false,
           true, true, true, false)), (String ((Ascii (false, true, true,
           false, true, true, true, false)), (String ((Ascii (true, false,
           false, true, false, true, true, false)), (String ((Ascii (true,
           true, false, false, false, true, true, false)), (String ((Ascii
           (true, false, true, false, false, true, true, false)), (String
           ((Ascii (false, true, false, true, true, true, false, false)),
           (String ((Ascii (false, true, false, true, true, true, false,
           false)), (String ((Ascii (false, true, true, true, false, false,
           true, false)), (String ((Ascii (true, true, true, true, false,
           true, true, false)), (String ((Ascii (false, false, true, false,
           true, true, true, false)), (String ((Ascii (true, false, false,
           true, false, true, true, false)), (String ((Ascii (false, true,
           true, false, false, true, true, false)), (String ((Ascii (true,
           false, false, true, true, true, true, false)),
           EmptyString)))))))))))))))))))))))))))))))
         (rows tbl (String ((Ascii (false, false, true, false, false, false,
           true, false)), (String ((Ascii (true, false, true, false, false,
           true, true, false)), (String ((Ascii (false, false, false, false,
           true, true, true, false)), (String ((Ascii (false, false, true,
           true, false, true, true, false)), (String ((Ascii (true, true,
           true, true, false, true, true, false)), (String ((Ascii (true,
           false, false, true, true, true, true, false)), (String ((Ascii
           (true, false, true, false, false, true, true, false)), (String
           ((Ascii (false, true, false, false, true, true, true, false)),
           (String ((Ascii (false, true, false, true, true, true, false,
           false)), (String ((Ascii (false, true, false, true, true, true,
           false, false)), (String ((Ascii (true, true, false, false, true,
           false, true, false)), (String ((Ascii (true, true, false, false,
           false, true, true, false)), (String ((Ascii (false, false, false,
           true, false, true, true, false)), (String ((Ascii (true, false,
           true, false, false, true, true, false)), (String ((Ascii (false,
           false, true, false, false, true, true, false)), (String ((Ascii
           (true, false, true, false, true, true, true, false)), (String
           ((Ascii (false, false, true, true, false, true, true, false)),
           (String ((Ascii (true, false, true, false, false, true, true,
           false)), (String ((Ascii (false, false, true, false, true, false,
           true, false)), (String ((Ascii (true, false, false, false, false,
           true, true, false)), (String ((Ascii (true, true, false, false,
           true, true, true, false)), (String ((Ascii (true, true, false,
           true, false, true, true, false)),
           EmptyString)))))))))))))))))))))))))))))))))))))))))))))
     | WNext ->
       rows tbl (String ((Ascii (false, false, true, false, false, false,
         true, false)), (String ((Ascii (true, false, true, false, false,
         true, true, false)), (String ((Ascii (false, false, false, false,
         true, true, true, false)), (String ((Ascii (false, false, true,
         true, false, true, true, false)), (String ((Ascii (true, true, true,
         true, false, true, true, false)), (String ((Ascii (true, false,
         false, true, true, true, true, false)), (String ((Ascii (true,
         false, true, false, false, true, true, false)), (String ((Ascii
         (false, true, false, false, true, true, true, false)), (String
         ((Ascii (false, true, false, true, true, true, false, false)),
         (String ((Ascii (false, true, false, true, true, true, false,
         false)), (String ((Ascii (false, true, true, true, false, false,
         true, false)), (String ((Ascii (true, false, true, false, false,
         true, true, false)), (String ((Ascii (false, false, false, true,
         true, true, true, false)), (String ((Ascii (false, false, true,
         false, true, true, true, false)), (String ((Ascii (false, false,
         true, false, true, false, true, false)), (String ((Ascii (true,
         false, false, false, false, true, true, false)), (String ((Ascii
         (true, true, false, false, true, true, true, false)), (String
         ((Ascii (true, true, false, true, false, true, true, false)),
         EmptyString))))))))))))))))))))))))))))))))))))
     | WHasP ->
       app
         (rows tbl (String ((Ascii (false, false, true, false, false, false,
           true, false)), (String ((Ascii (true, false, true, false, false,
           true, true, false)), (String ((Ascii (false, false, false, false,
           true, true, true, false)), (String ((Ascii (false, false, true,
           true, false, true, true, false)), (String ((Ascii (true, true,
           true, true, false, true, true, false)), (String ((Ascii (true,
           false, false, true, true, true, true, false)), (String ((Ascii
           (true, false, true, false, false, true, true, false)), (String
           ((Ascii (false, true, false, false, true, true, true, false)),
           (String ((Ascii (false, true, false, true, true, true, false,
           false)), (String ((Ascii (false, true, false, true, true, true,
           false, false)), (String ((Ascii (false, false, false, true, false,
           false, true, false)), (String ((Ascii (true, false, false, false,
           false, true, true, false)), (String ((Ascii (true, true, false,
           false, true, true, true, false)), (String ((Ascii (false, false,
           false, false, true, false, true, false)), (String ((Ascii (true,
           false, true, false, false, true, true, false)), (String ((Ascii
           (false, true, true, true, false, true, true, false)), (String
           ((Ascii (false, false, true, false, false, true, true, false)),
           (String ((Ascii (true, false, false, true, false, true, true,
           false)), (String ((Ascii (false, true, true, true, false, true,
           true, false)), (String ((Ascii (true, true, true, false, false,
           true, true, false)), (String ((Ascii (false, false, true, false,
           true, false, true, false)), (String ((Ascii (true, false, false,
           false, false, true, true, false)), (String ((Ascii (true, true,
           false, false, true, true, true, false)), (String ((Ascii (true,
           true, false, true, false, true, true, false)), (String ((Ascii
           (true, true, false, false, true, true, true, false)),
           EmptyString)))))))))))))))))))))))))))))))))))))))))))))))))))
         (rows tbl (String ((Ascii (false, false, true, false, false, false,
           true, false)), (String ((Ascii (true, false, true, false, false,
           true, true, false)), (String ((Ascii (false, false, false, false,
           true, true, true, false)), (String ((Ascii (false, false, true,
           true, false, true, true, false)), (String ((Ascii (true, true,
           true, true, false, true, true, false)), (String ((Ascii (true,
           false, false, true, true, true, true, false)), (String ((Ascii
           (true, false, true, false, false, true, true, false)), (String
           ((Ascii (false, true, false, false, true, true, true, false)),
           (String ((Ascii (false, true, false, true, true, true, false,
           false)), (String ((Ascii (false, true, false, true, true, true,
           false, false)), (String ((Ascii (false, true, true, false, false,
           false, true, false)), (String ((Ascii (true, false, false, true,
           false, true, true, false)), (String ((Ascii (false, true, true,
           true, false, true, true, false)), (String ((Ascii (true, false,
           false, true, false, true, true, false)), (String ((Ascii (true,
           true, false, false, true, true, true, false)), (String ((Ascii
           (false, false, false, true, false, true, true, false)), (String
           ((Ascii (true, true, true, false, true, false, true, false)),
           (String ((Ascii (true, true, true, true, false, true, true,
           false)), (String ((Ascii (false, true, false, false, true, true,
           true, false)), (String ((Ascii (true, true, false, true, false,
           true, true, false)),
           EmptyString)))))))))))))))))))))))))))))))))))))))))
     | WThrow ->
       app
         (rows tbl (String ((Ascii (false, false, true, false, false, false,
           true, false)), (String ((Ascii (true, false, true, false, false,
           true, true, false)), (String ((Ascii (false, false, false, false,
           true, true, true, false)), (String ((Ascii (false, false, true,
           true, false, true, true, false)), (String ((Ascii (true, true,
           true, true, false, true, true, false)), (String ((Ascii (true,
           false, false, true, true, true, true, false)), (String ((Ascii
           (true, false, true, false, false, true, true, false)), (String
           ((Ascii (false, true, false, false, true, true, true, false)),
           (String ((Ascii (false, true, false, true, true, true, false,
           false)), (String ((Ascii (false, true, false, true, true, true,
           false, false)), (String ((Ascii (false, true, false, false, true,
           false, true, false)), (String ((Ascii (true, false, true, false,
           true, true, true, false)), (String ((Ascii (false, true, true,
           true, false, true, true, false)),
           EmptyString)))))))))))))))))))))))))))
         (rows_var tbl (String ((Ascii (false, false, true, false, false,
           false, true, false)), (String ((Ascii (true, false, true, false,
           false, true, true, false)), (String ((Ascii (false, false, false,
           false, true, true, true, false)), (String ((Ascii (false, false,
           true, true, false, true, true, false)), (String ((Ascii (true,
           true, true, true, false, true, true, false)), (String ((Ascii
           (true, false, false, true, true, true, true, false)), (String
           ((Ascii (true, false, true, false, false, true, true, false)),
           (String ((Ascii (false, true, false, false, true, true, true,
           false)), (String ((Ascii (false, true, false, true, true, true,
           false, false)), (String ((Ascii (false, true, false, true, true,
           true, false, false)), (String ((Ascii (true, true, false, false,
           true, false, true, false)), (String ((Ascii (false, false, true,
           false, true, true, true, false)), (String ((Ascii (true, false,
           false, false, false, true, true, false)), (String ((Ascii (false,
           true, false, false, true, true, true, false)), (String ((Ascii
           (false, false, true, false, true, true, true, false)), (String
           ((Ascii (true, true, true, false, true, false, true, false)),
           (String ((Ascii (true, true, true, true, false, true, true,
           false)), (String ((Ascii (false, true, false, false, true, true,
           true, false)), (String ((Ascii (true, true, false, true, false,
           true, true, false)),
           EmptyString)))))))))))))))))))))))))))))))))))))) vRUNNING)
     | _ ->
       rows tbl (String ((Ascii (false, false, true, false, false, false,
         true, false)), (String ((Ascii (true, false, true, false, false,
         true, true, false)), (String ((Ascii (false, false, false, false,
         true, true, true, false)), (String ((Ascii (false, false, true,
         true, false, true, true, false)), (String ((Ascii (true, true, true,
         true, false, true, true, false)), (String ((Ascii (true, false,
         false, true, true, true, true, false)), (String ((Ascii (true,
         false, true, false, false, true, true, false)), (String ((Ascii
         (false, true, false, false, true, true, true, false)), (String
         ((Ascii (false, true, false, true, true, true, false, false)),
         (String ((Ascii (false, true, false, true, true, true, false,
         false)), (String ((Ascii (false, true, false, false, true, false,
         true, false)), (String ((Ascii (true, false, true, false, true,
         true, true, false)), (String ((Ascii (false, true, true, true,
         false, true, true, false)), EmptyString)))))))))))))))))))))))))))
  | None -> []

(** val disabled_rows : acc_row list -> acc_row list **)

let disabled_rows tbl =
  app
    (rows tbl (String ((Ascii (true, true, false, false, true, false, true,
      false)), (String ((Ascii (true, false, true, false, false, true, true,
      false)), (String ((Ascii (false, true, false, false, true, true, true,
      false)), (String ((Ascii (false, true, true, false, true, true, true,
      false)), (String ((Ascii (true, false, false, true, false, true, true,
      false)), (String ((Ascii (true, true, false, false, false, true, true,
      false)), (String ((Ascii (true, false, true, false, false, true, true,
      false)), (String ((Ascii (false, true, false, true, true, true, false,
      false)), (String ((Ascii (false, true, false, true, true, true, false,
      false)), (String ((Ascii (false, false, true, false, false, true, true,
      false)), (String ((Ascii (true, false, false, true, false, true, true,
      false)), (String ((Ascii (true, true, false, false, true, true, true,
      false)), (String ((Ascii (true, false, false, false, false, true, true,
      false)), (String ((Ascii (false, true, false, false, false, true, true,
      false)), (String ((Ascii (false, false, true, true, false, true, true,
      false)), (String ((Ascii (true, false, true, false, false, true, true,
      false)), (String ((Ascii (false, false, true, false, false, true, true,
      false)), EmptyString)))))))))))))))))))))))))))))))))))
    (app
      (rows tbl (String ((Ascii (false, false, true, false, false, false,
        true, false)), (String ((Ascii (true, false, true, false, false,
        true, true, false)), (String ((Ascii (false, false, false, false,
        true, true, true, false)), (String ((Ascii (false, false, true, true,
        false, true, true, false)), (String ((Ascii (true, true, true, true,
        false, true, true, false)), (String ((Ascii (true, false, false,
        true, true, true, true, false)), (String ((Ascii (true, false, true,
        false, false, true, true, false)), (String ((Ascii (false, true,
        false, false, true, true, true, false)), (String ((Ascii (false,
        true, false, true, true, true, false, false)), (String ((Ascii
        (false, true, false, true, true, true, false, false)), (String
        ((Ascii (true, false, false, true, false, false, true, false)),
        (String ((Ascii (true, true, false, false, true, true, true, false)),
        (String ((Ascii (true, false, true, true, false, false, true,
        false)), (String ((Ascii (true, false, false, false, false, true,
        true, false)), (String ((Ascii (true, false, false, true, false,
        true, true, false)), (String ((Ascii (false, true, true, true, false,
        true, true, false)), (String ((Ascii (false, false, true, false,
        true, true, true, false)), (String ((Ascii (true, false, true, false,
        false, true, true, false)), (String ((Ascii (false, true, true, true,
        false, true, true, false)), (String ((Ascii (true, false, false,
        false, false, true, true, false)), (String ((Ascii (false, true,
        true, true, false, true, true, false)), (String ((Ascii (true, true,
        false, false, false, true, true, false)), (String ((Ascii (true,
        false, true, false, false, true, true, false)), (String ((Ascii
        (true, false, true, true, false, false, true, false)), (String
        ((Ascii (true, true, true, true, false, true, true, false)), (String
        ((Ascii (false, false, true, false, false, true, true, false)),
        (String ((Ascii (true, false, true, false, false, true, true,
        false)),
        EmptyString)))))))))))))))))))))))))))))))))))))))))))))))))))))))
      (rows tbl (String ((Ascii (false, false, true, false, false, false,
        true, false)), (String ((Ascii (true, false, true, false, false,
        true, true, false)), (String ((Ascii (false, false, false, false,
        true, true, true, false)), (String ((Ascii (false, false, true, true,
        false, true, true, false)), (String ((Ascii (true, true, true, true,
        false, true, true, false)), (String ((Ascii (true, false, false,
        true, true, true, true, false)), (String ((Ascii (true, false, true,
        false, false, true, true, false)), (String ((Ascii (false, true,
        false, false, true, true, true, false)), (String ((Ascii (false,
        true, false, true, true, true, false, false)), (String ((Ascii
        (false, true, false, true, true, true, false, false)), (String
        ((Ascii (true, false, false, true, false, false, true, false)),
        (String ((Ascii (true, true, false, false, true, true, true, false)),
        (String ((Ascii (true, true, true, false, true, false, true, false)),
        (String ((Ascii (true, true, true, true, false, true, true, false)),
        (String ((Ascii (false, true, false, false, true, true, true,
        false)), (String ((Ascii (true, true, false, true, false, true, true,
        false)), (String ((Ascii (true, false, false, true, false, true,
        true, false)), (String ((Ascii (false, true, true, true, false, true,
        true, false)), (String ((Ascii (true, true, true, false, false, true,
        true, false)), EmptyString))))))))))))))))))))))))))))))))))))))))

(** val call_acc : acc_row list -> call -> acc_row list **)

let call_acc tbl = function
| CStartMaint _ -> []
| CSyncUser _ ->
  rows tbl (String ((Ascii (true, true, false, false, true, false, true,
    false)), (String ((Ascii (true, false, true, false, false, true, true,
    false)), (String ((Ascii (false, true, false, false, true, true, true,
    false)), (String ((Ascii (false, true, true, false, true, true, true,
    false)), (String ((Ascii (true, false, false, true, false, true, true,
    false)), (String ((Ascii (true, true, false, false, false, true, true,
    false)), (String ((Ascii (true, false, true, false, false, true, true,
    false)), (String ((Ascii (false, true, false, true, true, true, false,
    false)), (String ((Ascii (false, true, false, true, true, true, false,
    false)), (String ((Ascii (true, true, false, false, false, false, true,
    false)), (String ((Ascii (false, false, true, true, false, true, true,
    false)), (String ((Ascii (true, false, true, false, false, true, true,
    false)), (String ((Ascii (true, false, false, false, false, true, true,
    false)), (String ((Ascii (false, true, true, true, false, true, true,
    false)), (String ((Ascii (true, false, true, false, true, true, true,
    false)), (String ((Ascii (false, false, false, false, true, true, true,
    false)), (String ((Ascii (true, false, false, false, false, false, true,
    false)), (String ((Ascii (false, false, true, true, false, true, true,
    false)), (String ((Ascii (false, false, true, true, false, true, true,
    false)), (String ((Ascii (true, true, false, false, true, false, true,
    false)), (String ((Ascii (true, false, true, false, false, true, true,
    false)), (String ((Ascii (true, true, false, false, true, true, true,
    false)), (String ((Ascii (true, true, false, false, true, true, true,
    false)), (String ((Ascii (true, false, false, true, false, true, true,
    false)), (String ((Ascii (true, true, true, true, false, true, true,
    false)), (String ((Ascii (false, true, true, true, false, true, true,
    false)), (String ((Ascii (true, true, false, false, true, true, true,
    false)), EmptyString))))))))))))))))))))))))))))))))))))))))))))))))))))))
| CIsMaint ->
  app
    (rows tbl (String ((Ascii (false, false, true, false, false, false, true,
      false)), (String ((Ascii (true, false, true, false, false, true, true,
      false)), (String ((Ascii (false, false, false, false, true, true, true,
      false)), (String ((Ascii (false, false, true, true, false, true, true,
      false)), (String ((Ascii (true, true, true, true, false, true, true,
      false)), (String ((Ascii (true, false, false, true, true, true, true,
      false)), (String ((Ascii (true, false, true, false, false, true, true,
      false)), (String ((Ascii (false, true, false, false, true, true, true,
      false)), (String ((Ascii (false, true, false, true, true, true, false,
      false)), (String ((Ascii (false, true, false, true, true, true, false,
      false)), (String ((Ascii (true, false, false, true, false, false, true,
      false)), (String ((Ascii (true, true, false, false, true, true, true,
      false)), (String ((Ascii (true, false, true, true, false, false, true,
      false)), (String ((Ascii (true, false, false, false, false, true, true,
      false)), (String ((Ascii (true, false, false, true, false, true, true,
      false)), (String ((Ascii (false, true, true, true, false, true, true,
      false)), (String ((Ascii (false, false, true, false, true, true, true,
      false)), (String ((Ascii (true, false, true, false, false, true, true,
      false)), (String ((Ascii (false, true, true, true, false, true, true,
      false)), (String ((Ascii (true, false, false, false, false, true, true,
      false)), (String ((Ascii (false, true, true, true, false, true, true,
      false)), (String ((Ascii (true, true, false, false, false, true, true,
      false)), (String ((Ascii (true, false, true, false, false, true, true,
      false)), (String ((Ascii (true, false, true, true, false, false, true,
      false)), (String ((Ascii (true, true, true, true, false, true, true,
      false)), (String ((Ascii (false, false, true, false, false, true, true,
      false)), (String ((Ascii (true, false, true, false, false, true, true,
      false)),
      EmptyString)))))))))))))))))))))))))))))))))))))))))))))))))))))))
    (rows tbl (String ((Ascii (false, false, true, false, false, false, true,
      false)), (String ((Ascii (true, false, true, false, false, true, true,
      false)), (String ((Ascii (false, false, false, false, true, true, true,
      false)), (String ((Ascii (false, false, true, true, false, true, true,
      false)), (String ((Ascii (true, true, true, true, false, true, true,
      false)), (String ((Ascii (true, false, false, true, true, true, true,
      false)), (String ((Ascii (true, false, true, false, false, true, true,
      false)), (String ((Ascii (false, true, false, false, true, true, true,
      false)), (String ((Ascii (false, true, false, true, true, true, false,
      false)), (String ((Ascii (false, true, false, true, true, true, false,
      false)), (String ((Ascii (true, false, false, true, false, false, true,
      false)), (String ((Ascii (true, true, false, false, true, true, true,
      false)), (String ((Ascii (true, true, true, false, true, false, true,
      false)), (String ((Ascii (true, true, true, true, false, true, true,
      false)), (String ((Ascii (false, true, false, false, true, true, true,
      false)), (String ((Ascii (true, true, false, true, false, true, true,
      false)), (String ((Ascii (true, false, false, true, false, true, true,
      false)), (String ((Ascii (false, true, true, true, false, true, true,
      false)), (String ((Ascii (true, true, true, false, false, true, true,
      false)), EmptyString)))))))))))))))))))))))))))))))))))))))
| CJoin ->
  rows tbl (String ((Ascii (false, false, true, false, false, false, true,
    false)), (String ((Ascii (true, false, true, false, false, true, true,
    false)), (String ((Ascii (false, false, false, false, true, true, true,
    false)), (String ((Ascii (false, false, true, true, false, true, true,
    false)), (String ((Ascii (true, true, true, true, false, true, true,
    false)), (String ((Ascii (true, false, false, true, true, true, true,
    false)), (String ((Ascii (true, false, true, false, false, true, true,
    false)), (String ((Ascii (false, true, false, false, true, true, true,
    false)), (String ((Ascii (false, true, false, true, true, true, false,
    false)), (String ((Ascii (false, true, false, true, true, true, false,
    false)), (String ((Ascii (false, true, false, true, false, false, true,
    false)), (String ((Ascii (true, true, true, true, false, true, true,
    false)), (String ((Ascii (true, false, false, true, false, true, true,
    false)), (String ((Ascii (false, true, true, true, false, true, true,
    false)), (String ((Ascii (true, true, true, false, true, false, true,
    false)), (String ((Ascii (true, true, true, true, false, true, true,
    false)), (String ((Ascii (false, true, false, false, true, true, true,
    false)), (String ((Ascii (true, true, false, true, false, true, true,
    false)), (String ((Ascii (false, false, true, false, true, false, true,
    false)), (String ((Ascii (false, false, false, true, false, true, true,
    false)), (String ((Ascii (false, true, false, false, true, true, true,
    false)), (String ((Ascii (true, false, true, false, false, true, true,
    false)), (String ((Ascii (true, false, false, false, false, true, true,
    false)), (String ((Ascii (false, false, true, false, false, true, true,
    false)), EmptyString))))))))))))))))))))))))))))))))))))))))))))))))
| CDestroy _ ->
  rows tbl (String ((Ascii (true, true, false, false, true, false, true,
    false)), (String ((Ascii (true, false, true, false, false, true, true,
    false)), (String ((Ascii (false, true, false, false, true, true, true,
    false)), (String ((Ascii (false, true, true, false, true, true, true,
    false)), (String ((Ascii (true, false, false, true, false, true, true,
    false)), (String ((Ascii (true, true, false, false, false, true, true,
    false)), (String ((Ascii (true, false, true, false, false, true, true,
    false)), (String ((Ascii (false, true, false, true, true, true, false,
    false)), (String ((Ascii (false, true, false, true, true, true, false,
    false)), (String ((Ascii (false, false, true, false, false, false, true,
    false)), (String ((Ascii (true, false, true, false, false, true, true,
    false)), (String ((Ascii (true, true, false, false, true, true, true,
    false)), (String ((Ascii (false, false, true, false, true, true, true,
    false)), (String ((Ascii (false, true, false, false, true, true, true,
    false)), (String ((Ascii (true, true, true, true, false, true, true,
    false)), (String ((Ascii (true, false, false, true, true, true, true,
    false)), (String ((Ascii (true, true, false, false, true, false, true,
    false)), (String ((Ascii (true, false, true, false, false, true, true,
    false)), (String ((Ascii (true, true, false, false, true, true, true,
    false)), (String ((Ascii (true, true, false, false, true, true, true,
    false)), (String ((Ascii (true, false, false, true, false, true, true,
    false)), (String ((Ascii (true, true, true, true, false, true, true,
    false)), (String ((Ascii (false, true, true, true, false, true, true,
    false)), EmptyString))))))))))))))))))))))))))))))))))))))))))))))
| CSetHandler b ->
  if b
  then rows tbl (String ((Ascii (true, true, false, false, true, false, true,
         false)), (String ((Ascii (true, false, true, false, false, true,
         true, false)), (String ((Ascii (false, true, false, false, true,
         true, true, false)), (String ((Ascii (false, true, true, false,
         true, true, true, false)), (String ((Ascii (true, false, false,
         true, false, true, true, false)), (String ((Ascii (true, true,
         false, false, false, true, true, false)), (String ((Ascii (true,
         false, true, false, false, true, true, false)), (String ((Ascii
         (false, true, false, true, true, true, false, false)), (String
         ((Ascii (false, true, false, true, true, true, false, false)),
         (String ((Ascii (true, true, false, false, true, false, true,
         false)), (String ((Ascii (true, false, true, false, false, true,
         true, false)), (String ((Ascii (false, false, true, false, true,
         true, true, false)), (String ((Ascii (false, true, true, true,
         false, false, true, false)), (String ((Ascii (true, true, true,
         true, false, true, true, false)), (String ((Ascii (false, false,
         true, false, true, true, true, false)), (String ((Ascii (true,
         false, false, true, false, true, true, false)), (String ((Ascii
         (false, true, true, false, false, true, true, false)), (String
         ((Ascii (true, false, false, true, false, true, true, false)),
         (String ((Ascii (true, true, false, false, false, true, true,
         false)), (String ((Ascii (true, false, false, false, false, true,
         true, false)), (String ((Ascii (false, false, true, false, true,
         true, true, false)), (String ((Ascii (true, false, false, true,
         false, true, true, false)), (String ((Ascii (true, true, true, true,
         false, true, true, false)), (String ((Ascii (false, true, true,
         true, false, true, true, false)), (String ((Ascii (false, false,
         false, true, false, false, true, false)), (String ((Ascii (true,
         false, false, false, false, true, true, false)), (String ((Ascii
         (false, true, true, true, false, true, true, false)), (String
         ((Ascii (false, false, true, false, false, true, true, false)),
         (String ((Ascii (false, false, true, true, false, true, true,
         false)), (String ((Ascii (true, false, true, false, false, true,
         true, false)), (String ((Ascii (false, true, false, false, true,
         true, true, false)),
         EmptyString))))))))))))))))))))))))))))))))))))))))))))))))))))))))))))))
  else rows tbl (String ((Ascii (true, true, false, false, true, false, true,
         false)), (String ((Ascii (true, false, true, false, false, true,
         true, false)), (String ((Ascii (false, true, false, false, true,
         true, true, false)), (String ((Ascii (false, true, true, false,
         true, true, true, false)), (String ((Ascii (true, false, false,
         true, false, true, true, false)), (String ((Ascii (true, true,
         false, false, false, true, true, false)), (String ((Ascii (true,
         false, true, false, false, true, true, false)), (String ((Ascii
         (false, true, false, true, true, true, false, false)), (String
         ((Ascii (false, true, false, true, true, true, false, false)),
         (String ((Ascii (true, true, false, false, false, false, true,
         false)), (String ((Ascii (false, false, true, true, false, true,
         true, false)), (String ((Ascii (true, false, true, false, false,
         true, true, false)), (String ((Ascii (true, false, false, false,
         false, true, true, false)), (String ((Ascii (false, true, false,
         false, true, true, true, false)), (String ((Ascii (false, true,
         true, true, false, false, true, false)), (String ((Ascii (true,
         true, true, true, false, true, true, false)), (String ((Ascii
         (false, false, true, false, true, true, true, false)), (String
         ((Ascii (true, false, false, true, false, true, true, false)),
         (String ((Ascii (false, true, true, false, false, true, true,
         false)), (String ((Ascii (true, false, false, true, false, true,
         true, false)), (String ((Ascii (true, true, false, false, false,
         true, true, false)), (String ((Ascii (true, false, false, false,
         false, true, true, false)), (String ((Ascii (false, false, true,
         false, true, true, true, false)), (String ((Ascii (true, false,
         false, true, false, true, true, false)), (String ((Ascii (true,
         true, true, true, false, true, true, false)), (String ((Ascii
         (false, true, true, true, false, true, true, false)), (String
         ((Ascii (false, false, false, true, false, false, true, false)),
         (String ((Ascii (true, false, false, false, false, true, true,
         false)), (String ((Ascii (false, true, true, true, false, true,
         true, false)), (String ((Ascii (false, false, true, false, false,
         true, true, false)), (String ((Ascii (false, false, true, true,
         false, true, true, false)), (String ((Ascii (true, false, true,
         false, false, true, true, false)), (String ((Ascii (false, true,
         false, false, true, true, true, false)),
         EmptyString))))))))))))))))))))))))))))))))))))))))))))))))))))))))))))))))))
| CPlan _ -> []
| _ -> disabled_rows tbl

(** val tbl_flag : acc_row list -> bool **)

let tbl_flag tbl =
  match handover_of_table tbl with
  | HFlag -> true
  | _ -> false

(** val c_acc : acc_row list -> state -> acc_row list **)

let c_acc tbl s =
  match s.cpcs with
  | CIdle -> (match s.script with
              | [] -> []
              | cl :: _ -> call_acc tbl cl)
  | CSched (_, _) ->
    rows tbl (String ((Ascii (false, false, true, false, false, false, true,
      false)), (String ((Ascii (true, false, true, false, false, true, true,
      false)), (String ((Ascii (false, false, false, false, true, true, true,
      false)), (String ((Ascii (false, false, true, true, false, true, true,
      false)), (String ((Ascii (true, true, true, true, false, true, true,
      false)), (String ((Ascii (true, false, false, true, true, true, true,
      false)), (String ((Ascii (true, false, true, false, false, true, true,
      false)), (String ((Ascii (false, true, false, false, true, true, true,
      false)), (String ((Ascii (false, true, false, true, true, true, false,
      false)), (String ((Ascii (false, true, false, true, true, true, false,
      false)), (String ((Ascii (true, true, false, false, true, false, true,
      false)), (String ((Ascii (true, true, false, false, false, true, true,
      false)), (String ((Ascii (false, false, false, true, false, true, true,
      false)), (String ((Ascii (true, false, true, false, false, true, true,
      false)), (String ((Ascii (false, false, true, false, false, true, true,
      false)), (String ((Ascii (true, false, true, false, true, true, true,
      false)), (String ((Ascii (false, false, true, true, false, true, true,
      false)), (String ((Ascii (true, false, true, false, false, true, true,
      false)), (String ((Ascii (false, false, true, false, true, false, true,
      false)), (String ((Ascii (true, false, false, false, false, true, true,
      false)), (String ((Ascii (true, true, false, false, true, true, true,
      false)), (String ((Ascii (true, true, false, true, false, true, true,
      false)), EmptyString))))))))))))))))))))))))))))))))))))))))))))
  | CSW0 _ ->
    if tbl_flag tbl
    then rows tbl (String ((Ascii (false, false, true, false, false, false,
           true, false)), (String ((Ascii (true, false, true, false, false,
           true, true, false)), (String ((Ascii (false, false, false, false,
           true, true, true, false)), (String ((Ascii (false, false, true,
           true, false, true, true, false)), (String ((Ascii (true, true,
           true, true, false, true, true, false)), (String ((Ascii (true,
           false, false, true, true, true, true, false)), (String ((Ascii
           (true, false, true, false, false, true, true, false)), (String
           ((Ascii (false, true, false, false, true, true, true, false)),
           (String ((Ascii (false, true, false, true, true, true, false,
           false)), (String ((Ascii (false, true, false, true, true, true,
           false, false)), (String ((Ascii (true, true, false, false, true,
           false, true, false)), (String ((Ascii (false, false, true, false,
           true, true, true, false)), (String ((Ascii (true, false, false,
           false, false, true, true, false)), (String ((Ascii (false, true,
           false, false, true, true, true, false)), (String ((Ascii (false,
           false, true, false, true, true, true, false)), (String ((Ascii
           (true, true, true, false, true, false, true, false)), (String
           ((Ascii (true, true, true, true, false, true, true, false)),
           (String ((Ascii (false, true, false, false, true, true, true,
           false)), (String ((Ascii (true, true, false, true, false, true,
           true, false)), EmptyString))))))))))))))))))))))))))))))))))))))
    else rows tbl (String ((Ascii (false, false, true, false, false, false,
           true, false)), (String ((Ascii (true, false, true, false, false,
           true, true, false)), (String ((Ascii (false, false, false, false,
           true, true, true, false)), (String ((Ascii (false, false, true,
           true, false, true, true, false)), (String ((Ascii (true, true,
           true, true, false, true, true, false)), (String ((Ascii (true,
           false, false, true, true, true, true, false)), (String ((Ascii
           (true, false, true, false, false, true, true, false)), (String
           ((Ascii (false, true, false, false, true, true, true, false)),
           (String ((Ascii (false, true, false, true, true, true, false,
           false)), (String ((Ascii (false, true, false, true, true, true,
           false, false)), (String ((Ascii (true, false, false, true, false,
           false, true, false)), (String ((Ascii (true, true, false, false,
           true, true, true, false)), (String ((Ascii (true, true, true,
           false, true, false, true, false)), (String ((Ascii (true, true,
           true, true, false, true, true, false)), (String ((Ascii (false,
           true, false, false, true, true, true, false)), (String ((Ascii
           (true, true, false, true, false, true, true, false)), (String
           ((Ascii (true, false, false, true, false, true, true, false)),
           (String ((Ascii (false, true, true, true, false, true, true,
           false)), (String ((Ascii (true, true, true, false, false, true,
           true, false)), EmptyString))))))))))))))))))))))))))))))))))))))
  | CSW4 _ -> []
  | CCreate1 ->
    rows tbl (String ((Ascii (true, true, false, false, true, false, true,
      false)), (String ((Ascii (true, false, true, false, false, true, true,
      false)), (String ((Ascii (false, true, false, false, true, true, true,
      false)), (String ((Ascii (false, true, true, false, true, true, true,
      false)), (String ((Ascii (true, false, false, true, false, true, true,
      false)), (String ((Ascii (true, true, false, false, false, true, true,
      false)), (String ((Ascii (true, false, true, false, false, true, true,
      false)), (String ((Ascii (false, true, false, true, true, true, false,
      false)), (String ((Ascii (false, true, false, true, true, true, false,
      false)), (String ((Ascii (true, true, false, false, false, false, true,
      false)), (String ((Ascii (false, true, false, false, true, true, true,
      false)), (String ((Ascii (true, false, true, false, false, true, true,
      false)), (String ((Ascii (true, false, false, false, false, true, true,
      false)), (String ((Ascii (false, false, true, false, true, true, true,
      false)), (String ((Ascii (true, false, true, false, false, true, true,
      false)), (String ((Ascii (true, true, false, false, true, false, true,
      false)), (String ((Ascii (true, false, true, false, false, true, true,
      false)), (String ((Ascii (true, true, false, false, true, true, true,
      false)), (String ((Ascii (true, true, false, false, true, true, true,
      false)), (String ((Ascii (true, false, false, true, false, true, true,
      false)), (String ((Ascii (true, true, true, true, false, true, true,
      false)), (String ((Ascii (false, true, true, true, false, true, true,
      false)), EmptyString))))))))))))))))))))))))))))))))))))))))))))
  | CGet1 (_, _) ->
    rows tbl (String ((Ascii (true, true, false, false, true, false, true,
      false)), (String ((Ascii (true, false, true, false, false, true, true,
      false)), (String ((Ascii (false, true, false, false, true, true, true,
      false)), (String ((Ascii (false, true, true, false, true, true, true,
      false)), (String ((Ascii (true, false, false, true, false, true, true,
      false)), (String ((Ascii (true, true, false, false, false, true, true,
      false)), (String ((Ascii (true, false, true, false, false, true, true,
      false)), (String ((Ascii (false, true, false, true, true, true, false,
      false)), (String ((Ascii (false, true, false, true, true, true, false,
      false)), (String ((Ascii (true, true, true, false, false, false, true,
      false)), (String ((Ascii (true, false, true, false, false, true, true,
      false)), (String ((Ascii (false, false, true, false, true, true, true,
      false)), (String ((Ascii (true, true, false, false, true, false, true,
      false)), (String ((Ascii (true, false, true, false, false, true, true,
      false)), (String ((Ascii (true, true, false, false, true, true, true,
      false)), (String ((Ascii (true, true, false, false, true, true, true,
      false)), (String ((Ascii (true, false, false, true, false, true, true,
      false)), (String ((Ascii (true, true, true, true, false, true, true,
      false)), (String ((Ascii (false, true, true, true, false, true, true,
      false)), EmptyString))))))))))))))))))))))))))))))))))))))
  | _ ->
    rows tbl (String ((Ascii (false, false, true, false, false, false, true,
      false)), (String ((Ascii (true, false, true, false, false, true, true,
      false)), (String ((Ascii (false, false, false, false, true, true, true,
      false)), (String ((Ascii (false, false, true, true, false, true, true,
      false)), (String ((Ascii (true, true, true, true, false, true, true,
      false)), (String ((Ascii (true, false, false, true, true, true, true,
      false)), (String ((Ascii (true, false, true, false, false, true, true,
      false)), (String ((Ascii (false, true, false, false, true, true, true,
      false)), (String ((Ascii (false, true, false, true, true, true, false,
      false)), (String ((Ascii (false, true, false, true, true, true, false,
      false)), (String ((Ascii (true, true, false, false, true, false, true,
      false)), (String ((Ascii (false, false, true, false, true, true, true,
      false)), (String ((Ascii (true, false, false, false, false, true, true,
      false)), (String ((Ascii (false, true, false, false, true, true, true,
      false)), (String ((Ascii (false, false, true, false, true, true, true,
      false)), (String ((Ascii (true, true, true, false, true, false, true,
      false)), (String ((Ascii (true, true, true, true, false, true, true,
      false)), (String ((Ascii (false, true, false, false, true, true, true,
      false)), (String ((Ascii (true, true, false, true, false, true, true,
      false)), EmptyString))))))))))))))))))))))))))))))))))))))

(** val is_data : acc_row -> bool **)

let is_data r =
  match r.a_kind with
  | ACall -> false
  | _ -> true

(** val is_write : acc_row -> bool **)

let is_write r =
  match r.a_kind with
  | ARead -> false
  | ACall -> false
  | _ -> true

(** val share_lock : acc_row -> acc_row -> bool **)

let share_lock a b =
  existsb (fun m -> has_lock m b) a.a_locks

(** val conflict : acc_row -> acc_row -> bool **)

let conflict a b =
  (&&)
    ((&&) ((&&) ((&&) (is_data a) (is_data b)) (eqb1 a.a_var b.a_var))
      ((||) (is_write a) (is_write b))) (negb (share_lock a b))

(** val race_state : acc_row list -> state -> bool **)

let race_state tbl s =
  existsb (fun a -> existsb (conflict a) (c_acc tbl s)) (w_acc tbl s)

(** val rep : nat -> 'a1 -> 'a1 list **)

let rec rep n0 x =
  match n0 with
  | O -> []
  | S m -> x :: (rep m x)

(** val witness_window_script : call list **)

let witness_window_script =
  (CSyncUser (OOk :: (OOk :: (OOk :: [])))) :: ((CSyncUser
    (OOk :: (OOk :: (OOk :: [])))) :: (CJoin :: (CIsMaint :: [])))

(** val witness_window_sched : tid list **)

let witness_window_sched =
  app (rep (S (S (S (S (S (S O)))))) Client)
    (app
      (rep (S (S (S (S (S (S (S (S (S (S (S (S (S (S (S O)))))))))))))))
        Worker)
      (app (rep (S (S (S (S O)))) Client)
        (app (Worker :: []) (Client :: (Client :: [])))))

(** val witness_window_sm_script : call list **)

let witness_window_sm_script =
  (CStartMaint (OOk :: (OOk :: (OOk :: [])))) :: ((CStartMaint
    (OOk :: (OOk :: (OOk :: [])))) :: (CJoin :: (CIsMaint :: [])))

(** val witness_closed_sched : tid list **)

let witness_closed_sched =
  app witness_window_sched
    (app
      (rep (S (S (S (S (S (S (S (S (S (S (S (S (S (S (S (S O))))))))))))))))
        Worker) (Client :: (Client :: [])))

(** val witness_seen_sched : tid list **)

let witness_seen_sched =
  app (rep (S (S (S (S (S (S O)))))) Client)
    (app
      (rep (S (S (S (S (S (S (S (S (S (S (S (S (S (S O)))))))))))))) Worker)
      (app (rep (S (S (S (S O)))) Client)
        (app
          (rep (S (S (S (S (S (S (S (S (S (S (S (S (S O))))))))))))) Worker)
          (Client :: (Client :: [])))))

(** val witness_badcall_script : call list **)

let witness_badcall_script =
  (CSyncUser (OOk :: (OOk :: (OOk :: [])))) :: ((CSetHandler
    false) :: (CJoin :: []))

(** val witness_badcall_sched : tid list **)

let witness_badcall_sched =
  app (rep (S (S (S (S (S (S O)))))) Client)
    (app (Worker :: (Worker :: []))
      (app (Client :: []) (app (Worker :: []) (Client :: []))))

(** val witness_race_sched : tid list **)

let witness_race_sched =
  app (rep (S (S (S (S (S (S O)))))) Client) (Worker :: [])

(** val lock_scopes : acc_row list **)

let lock_scopes =
  { a_fn = (String ((Ascii (false, false, true, false, false, false, true,
    false)), (String ((Ascii (true, false, true, false, false, true, true,
    false)), (String ((Ascii (false, false, false, false, true, true, true,
    false)), (String ((Ascii (false, false, true, true, false, true, true,
    false)), (String ((Ascii (true, true, true, true, false, true, true,
    false)), (String ((Ascii (true, false, false, true, true, true, true,
    false)), (String ((Ascii (true, false, true, false, false, true, true,
    false)), (String ((Ascii (false, true, false, false, true, true, true,
    false)), (String ((Ascii (false, true, false, true, true, true, false,
    false)), (String ((Ascii (false, true, false, true, true, true, false,
    false)), (String ((Ascii (true, true, false, false, true, false, true,
    false)), (String ((Ascii (true, true, false, false, false, true, true,
    false)), (String ((Ascii (false, false, false, true, false, true, true,
    false)), (String ((Ascii (true, false, true, false, false, true, true,
    false)), (String ((Ascii (false, false, true, false, false, true, true,
    false)), (String ((Ascii (true, false, true, false, true, true, true,
    false)), (String ((Ascii (false, false, true, true, false, true, true,
    false)), (String ((Ascii (true, false, true, false, false, true, true,
    false)), (String ((Ascii (false, false, true, false, true, false, true,
    false)), (String ((Ascii (true, false, false, false, false, true, true,
    false)), (String ((Ascii (true, true, false, false, true, true, true,
    false)), (String ((Ascii (true, true, false, true, false, true, true,
    false)), EmptyString)))))))))))))))))))))))))))))))))))))))))))); a_var =
    (String ((Ascii (false, false, true, false, false, false, true, false)),
    (String ((Ascii (true, false, true, false, false, true, true, false)),
    (String ((Ascii (false, false, false, false, true, true, true, false)),
    (String ((Ascii (false, false, true, true, false, true, true, false)),
    (String ((Ascii (true, true, true, true, false, true, true, false)),
    (String ((Ascii (true, false, false, true, true, true, true, false)),
    (String ((Ascii (true, false, true, false, false, true, true, false)),
    (String ((Ascii (false, true, false, false, true, true, true, false)),
    (String ((Ascii (false, true, false, true, true, true, false, false)),
    (String ((Ascii (false, true, false, true, true, true, false, false)),
    (String ((Ascii (true, true, false, false, true, false, true, false)),
    (String ((Ascii (true, true, false, false, false, true, true, false)),
    (String ((Ascii (false, false, false, true, false, true, true, false)),
    (String ((Ascii (true, false, true, false, false, true, true, false)),
    (String ((Ascii (false, false, true, false, false, true, true, false)),
    (String ((Ascii (true, false, true, false, true, true, true, false)),
    (String ((Ascii (false, false, true, true, false, true, true, false)),
    (String ((Ascii (true, false, true, false, false, true, true, false)),
    (String ((Ascii (false, false, true, false, true, false, true, false)),
    (String ((Ascii (true, false, false, false, false, true, true, false)),
    (String ((Ascii (true, true, false, false, true, true, true, false)),
    (String ((Ascii (true, true, false, true, false, true, true, false)),
    EmptyString)))))))))))))))))))))))))))))))))))))))))))); a_kind = ACall;
    a_locks = [] } :: ({ a_fn = (String ((Ascii (false, false, true, false,
    false, false, true, false)), (String ((Ascii (true, false, true, false,
    false, true, true, false)), (String ((Ascii (false, false, false, false,
    true, true, true, false)), (String ((Ascii (false, false, true, true,
    false, true, true, false)), (String ((Ascii (true, true, true, true,
    false, true, true, false)), (String ((Ascii (true, false, false, true,
    true, true, true, false)), (String ((Ascii (true, false, true, false,
    false, true, true, false)), (String ((Ascii (false, true, false, false,
    true, true, true, false)), (String ((Ascii (false, true, false, true,
    true, true, false, false)), (String ((Ascii (false, true, false, true,
    true, true, false, false)), (String ((Ascii (true, true, false, false,
    true, false, true, false)), (String ((Ascii (true, true, false, false,
    false, true, true, false)), (String ((Ascii (false, false, false, true,
    false, true, true, false)), (String ((Ascii (true, false, true, false,
    false, true, true, false)), (String ((Ascii (false, false, true, false,
    false, true, true, false)), (String ((Ascii (true, false, true, false,
    true, true, true, false)), (String ((Ascii (false, false, true, true,
    false, true, true, false)), (String ((Ascii (true, false, true, false,
    false, true, true, false)), (String ((Ascii (false, false, true, false,
    true, false, true, false)), (String ((Ascii (true, false, false, false,
    false, true, true, false)), (String ((Ascii (true, true, false, false,
    true, true, true, false)), (String ((Ascii (true, true, false, true,
    false, true, true, false)),
    EmptyString)))))))))))))))))))))))))))))))))))))))))))); a_var = (String
    ((Ascii (false, false, true, false, false, false, true, false)), (String
    ((Ascii (true, false, true, false, false, true, true, false)), (String
    ((Ascii (false, false, false, false, true, true, true, false)), (String
    ((Ascii (false, false, true, true, false, true, true, false)), (String
    ((Ascii (true, true, true, true, false, true, true, false)), (String
    ((Ascii (true, false, false, true, true, true, true, false)), (String
    ((Ascii (true, false, true, false, false, true, true, false)), (String
    ((Ascii (false, true, false, false, true, true, true, false)), (String
    ((Ascii (false, true, false, true, true, true, false, false)), (String
    ((Ascii (false, true, false, true, true, true, false, false)), (String
    ((Ascii (false, false, false, false, true, true, true, false)), (String
    ((Ascii (true, false, true, false, false, true, true, false)), (String
    ((Ascii (false, true, true, true, false, true, true, false)), (String
    ((Ascii (false, false, true, false, false, true, true, false)), (String
    ((Ascii (true, false, false, true, false, true, true, false)), (String
    ((Ascii (false, true, true, true, false, true, true, false)), (String
    ((Ascii (true, true, true, false, false, true, true, false)), (String
    ((Ascii (true, true, true, true, true, false, true, false)), (String
    ((Ascii (false, false, true, false, true, true, true, false)), (String
    ((Ascii (true, false, false, false, false, true, true, false)), (String
    ((Ascii (true, true, false, false, true, true, true, false)), (String
    ((Ascii (true, true, false, true, false, true, true, false)), (String
    ((Ascii (true, true, false, false, true, true, true, false)), (String
    ((Ascii (true, true, true, true, true, false, true, false)),
    EmptyString)))))))))))))))))))))))))))))))))))))))))))))))); a_kind =
    AWrite; a_locks = ((String ((Ascii (false, false, true, false, false,
    false, true, false)), (String ((Ascii (true, false, true, false, false,
    true, true, false)), (String ((Ascii (false, false, false, false, true,
    true, true, false)), (String ((Ascii (false, false, true, true, false,
    true, true, false)), (String ((Ascii (true, true, true, true, false,
    true, true, false)), (String ((Ascii (true, false, false, true, true,
    true, true, false)), (String ((Ascii (true, false, true, false, false,
    true, true, false)), (String ((Ascii (false, true, false, false, true,
    true, true, false)), (String ((Ascii (false, true, false, true, true,
    true, false, false)), (String ((Ascii (false, true, false, true, true,
    true, false, false)), (String ((Ascii (true, false, true, true, false,
    true, true, false)), (String ((Ascii (true, false, true, false, true,
    true, true, false)), (String ((Ascii (false, false, true, false, true,
    true, true, false)), (String ((Ascii (true, false, true, false, false,
    true, true, false)), (String ((Ascii (false, false, false, true, true,
    true, true, false)), (String ((Ascii (true, true, true, true, true,
    false, true, false)),
    EmptyString)))))))))))))))))))))))))))))))) :: []) } :: ({ a_fn = (String
    ((Ascii (false, false, true, false, false, false, true, false)), (String
    ((Ascii (true, false, true, false, false, true, true, false)), (String
    ((Ascii (false, false, false, false, true, true, true, false)), (String
    ((Ascii (false, false, true, true, false, true, true, false)), (String
    ((Ascii (true, true, true, true, false, true, true, false)), (String
    ((Ascii (true, false, false, true, true, true, true, false)), (String
    ((Ascii (true, false, true, false, false, true, true, false)), (String
    ((Ascii (false, true, false, false, true, true, true, false)), (String
    ((Ascii (false, true, false, true, true, true, false, false)), (String
    ((Ascii (false, true, false, true, true, true, false, false)), (String
    ((Ascii (false, true, true, true, false, false, true, false)), (String
    ((Ascii (true, false, true, false, false, true, true, false)), (String
    ((Ascii (false, false, false, true, true, true, true, false)), (String
    ((Ascii (false, false, true, false, true, true, true, false)), (String
    ((Ascii (false, false, true, false, true, false, true, false)), (String
    ((Ascii (true, false, false, false, false, true, true, false)), (String
    ((Ascii (true, true, false, false, true, true, true, false)), (String
    ((Ascii (true, true, false, true, false, true, true, false)),
    EmptyString)))))))))))))))))))))))))))))))))))); a_var = (String ((Ascii
    (false, false, true, false, false, false, true, false)), (String ((Ascii
    (true, false, true, false, false, true, true, false)), (String ((Ascii
    (false, false, false, false, true, true, true, false)), (String ((Ascii
    (false, false, true, true, false, true, true, false)), (String ((Ascii
    (true, true, true, true, false, true, true, false)), (String ((Ascii
    (true, false, false, true, true, true, true, false)), (String ((Ascii
    (true, false, true, false, false, true, true, false)), (String ((Ascii
    (false, true, false, false, true, true, true, false)), (String ((Ascii
    (false, true, false, true, true, true, false, false)), (String ((Ascii
    (false, true, false, true, true, true, false, false)), (String ((Ascii
    (false, false, false, false, true, true, true, false)), (String ((Ascii
    (true, false, true, false, false, true, true, false)), (String ((Ascii
    (false, true, true, true, false, true, true, false)), (String ((Ascii
    (false, false, true, false, false, true, true, false)), (String ((Ascii
    (true, false, false, true, false, true, true, false)), (String ((Ascii
    (false, true, true, true, false, true, true, false)), (String ((Ascii
    (true, true, true, false, false, true, true, false)), (String ((Ascii
    (true, true, true, true, true, false, true, false)), (String ((Ascii
    (false, false, true, false, true, true, true, false)), (String ((Ascii
    (true, false, false, false, false, true, true, false)), (String ((Ascii
    (true, true, false, false, true, true, true, false)), (String ((Ascii
    (true, true, false, true, false, true, true, false)), (String ((Ascii
    (true, true, false, false, true, true, true, false)), (String ((Ascii
    (true, true, true, true, true, false, true, false)),
    EmptyString)))))))))))))))))))))))))))))))))))))))))))))))); a_kind =
    ARead; a_locks = ((String ((Ascii (false, false, true, false, false,
    false, true, false)), (String ((Ascii (true, false, true, false, false,
    true, true, false)), (String ((Ascii (false, false, false, false, true,
    true, true, false)), (String ((Ascii (false, false, true, true, false,
    true, true, false)), (String ((Ascii (true, true, true, true, false,
    true, true, false)), (String ((Ascii (true, false, false, true, true,
    true, true, false)), (String ((Ascii (true, false, true, false, false,
    true, true, false)), (String ((Ascii (false, true, false, false, true,
    true, true, false)), (String ((Ascii (false, true, false, true, true,
    true, false, false)), (String ((Ascii (false, true, false, true, true,
    true, false, false)), (String ((Ascii (true, false, true, true, false,
    true, true, false)), (String ((Ascii (true, false, true, false, true,
    true, true, false)), (String ((Ascii (false, false, true, false, true,
    true, true, false)), (String ((Ascii (true, false, true, false, false,
    true, true, false)), (String ((Ascii (false, false, false, true, true,
    true, true, false)), (String ((Ascii (true, true, true, true, true,
    false, true, false)),
    EmptyString)))))))))))))))))))))))))))))))) :: []) } :: ({ a_fn = (String
    ((Ascii (false, false, true, false, false, false, true, false)), (String
    ((Ascii (true, false, true, false, false, true, true, false)), (String
    ((Ascii (false, false, false, false, true, true, true, false)), (String
    ((Ascii (false, false, true, true, false, true, true, false)), (String
    ((Ascii (true, true, true, true, false, true, true, false)), (String
    ((Ascii (true, false, false, true, true, true, true, false)), (String
    ((Ascii (true, false, true, false, false, true, true, false)), (String
    ((Ascii (false, true, false, false, true, true, true, false)), (String
    ((Ascii (false, true, false, true, true, true, false, false)), (String
    ((Ascii (false, true, false, true, true, true, false, false)), (String
    ((Ascii (false, true, true, true, false, false, true, false)), (String
    ((Ascii (true, false, true, false, false, true, true, false)), (String
    ((Ascii (false, false, false, true, true, true, true, false)), (String
    ((Ascii (false, false, true, false, true, true, true, false)), (String
    ((Ascii (false, false, true, false, true, false, true, false)), (String
    ((Ascii (true, false, false, false, false, true, true, false)), (String
    ((Ascii (true, true, false, false, true, true, true, false)), (String
    ((Ascii (true, true, false, true, false, true, true, false)),
    EmptyString)))))))))))))))))))))))))))))))))))); a_var = (String ((Ascii
    (false, false, true, false, false, false, true, false)), (String ((Ascii
    (true, false, true, false, false, true, true, false)), (String ((Ascii
    (false, false, false, false, true, true, true, false)), (String ((Ascii
    (false, false, true, true, false, true, true, false)), (String ((Ascii
    (true, true, true, true, false, true, true, false)), (String ((Ascii
    (true, false, false, true, true, true, true, false)), (String ((Ascii
    (true, false, true, false, false, true, true, false)), (String ((Ascii
    (false, true, false, false, true, true, true, false)), (String ((Ascii
    (false, true, false, true, true, true, false, false)), (String ((Ascii
    (false, true, false, true, true, true, false, false)), (String ((Ascii
    (false, false, false, false, true, true, true, false)), (String ((Ascii
    (true, false, true, false, false, true, true, false)), (String ((Ascii
    (false, true, true, true, false, true, true, false)), (String ((Ascii
    (false, false, true, false, false, true, true, false)), (String ((Ascii
    (true, false, false, true, false, true, true, false)), (String ((Ascii
    (false, true, true, true, false, true, true, false)), (String ((Ascii
    (true, true, true, false, false, true, true, false)), (String ((Ascii
    (true, true, true, true, true, false, true, false)), (String ((Ascii
    (false, false, true, false, true, true, true, false)), (String ((Ascii
    (true, false, false, false, false, true, true, false)), (String ((Ascii
    (true, true, false, false, true, true, true, false)), (String ((Ascii
    (true, true, false, true, false, true, true, false)), (String ((Ascii
    (true, true, false, false, true, true, true, false)), (String ((Ascii
    (true, true, true, true, true, false, true, false)),
    EmptyString)))))))))))))))))))))))))))))))))))))))))))))))); a_kind =
    ARead; a_locks = ((String ((Ascii (false, false, true, false, false,
    false, true, false)), (String ((Ascii (true, false, true, false, false,
    true, true, false)), (String ((Ascii (false, false, false, false, true,
    true, true, false)), (String ((Ascii (false, false, true, true, false,
    true, true, false)), (String ((Ascii (true, true, true, true, false,
    true, true, false)), (String ((Ascii (true, false, false, true, true,
    true, true, false)), (String ((Ascii (true, false, true, false, false,
    true, true, false)), (String ((Ascii (false, true, false, false, true,
    true, true, false)), (String ((Ascii (false, true, false, true, true,
    true, false, false)), (String ((Ascii (false, true, false, true, true,
    true, false, false)), (String ((Ascii (true, false, true, true, false,
    true, true, false)), (String ((Ascii (true, false, true, false, true,
    true, true, false)), (String ((Ascii (false, false, true, false, true,
    true, true, false)), (String ((Ascii (true, false, true, false, false,
    true, true, false)), (String ((Ascii (false, false, false, true, true,
    true, true, false)), (String ((Ascii (true, true, true, true, true,
    false, true, false)),
    EmptyString)))))))))))))))))))))))))))))))) :: []) } :: ({ a_fn = (String
    ((Ascii (false, false, true, false, false, false, true, false)), (String
    ((Ascii (true, false, true, false, false, true, true, false)), (String
    ((Ascii (false, false, false, false, true, true, true, false)), (String
    ((Ascii (false, false, true, true, false, true, true, false)), (String
    ((Ascii (true, true, true, true, false, true, true, false)), (String
    ((Ascii (true, false, false, true, true, true, true, false)), (String
    ((Ascii (true, false, true, false, false, true, true, false)), (String
    ((Ascii (false, true, false, false, true, true, true, false)), (String
    ((Ascii (false, true, false, true, true, true, false, false)), (String
    ((Ascii (false, true, false, true, true, true, false, false)), (String
    ((Ascii (false, true, true, true, false, false, true, false)), (String
    ((Ascii (true, false, true, false, false, true, true, false)), (String
    ((Ascii (false, false, false, true, true, true, true, false)), (String
    ((Ascii (false, false, true, false, true, true, true, false)), (String
    ((Ascii (false, false, true, false, true, false, true, false)), (String
    ((Ascii (true, false, false, false, false, true, true, false)), (String
    ((Ascii (true, true, false, false, true, true, true, false)), (String
    ((Ascii (true, true, false, true, false, true, true, false)),
    EmptyString)))))))))))))))))))))))))))))))))))); a_var = (String ((Ascii
    (false, false, true, false, false, false, true, false)), (String ((Ascii
    (true, false, true, false, false, true, true, false)), (String ((Ascii
    (false, false, false, false, true, true, true, false)), (String ((Ascii
    (false, false, true, true, false, true, true, false)), (String ((Ascii
    (true, true, true, true, false, true, true, false)), (String ((Ascii
    (true, false, false, true, true, true, true, false)), (String ((Ascii
    (true, false, true, false, false, true, true, false)), (String ((Ascii
    (false, true, false, false, true, true, true, false)), (String ((Ascii
    (false, true, false, true, true, true, false, false)), (String ((Ascii
    (false, true, false, true, true, true, false, false)), (String ((Ascii
    (false, false, false, false, true, true, true, false)), (String ((Ascii
    (true, false, true, false, false, true, true, false)), (String ((Ascii
    (false, true, true, true, false, true, true, false)), (String ((Ascii
    (false, false, true, false, false, true, true, false)), (String ((Ascii
    (true, false, false, true, false, true, true, false)), (String ((Ascii
    (false, true, true, true, false, true, true, false)), (String ((Ascii
    (true, true, true, false, false, true, true, false)), (String ((Ascii
    (true, true, true, true, true, false, true, false)), (String ((Ascii
    (false, false, true, false, true, true, true, false)), (String ((Ascii
    (true, false, false, false, false, true, true, false)), (String ((Ascii
    (true, true, false, false, true, true, true, false)), (String ((Ascii
    (true, true, false, true, false, true, true, false)), (String ((Ascii
    (true, true, false, false, true, true, true, false)), (String ((Ascii
    (true, true, true, true, true, false, true, false)),
    EmptyString)))))))))))))))))))))))))))))))))))))))))))))))); a_kind =
    AWrite; a_locks = ((String ((Ascii (false, false, true, false, false,
    false, true, false)), (String ((Ascii (true, false, true, false, false,
    true, true, false)), (String ((Ascii (false, false, false, false, true,
    true, true, false)), (String ((Ascii (false, false, true, true, false,
    true, true, false)), (String ((Ascii (true, true, true, true, false,
    true, true, false)), (String ((Ascii (true, false, false, true, true,
    true, true, false)), (String ((Ascii (true, false, true, false, false,
    true, true, false)), (String ((Ascii (false, true, false, false, true,
    true, true, false)), (String ((Ascii (false, true, false, true, true,
    true, false, false)), (String ((Ascii (false, true, false, true, true,
    true, false, false)), (String ((Ascii (true, false, true, true, false,
    true, true, false)), (String ((Ascii (true, false, true, false, true,
    true, true, false)), (String ((Ascii (false, false, true, false, true,
    true, true, false)), (String ((Ascii (true, false, true, false, false,
    true, true, false)), (String ((Ascii (false, false, false, true, true,
    true, true, false)), (String ((Ascii (true, true, true, true, true,
    false, true, false)),
    EmptyString)))))))))))))))))))))))))))))))) :: []) } :: ({ a_fn = (String
    ((Ascii (false, false, true, false, false, false, true, false)), (String
    ((Ascii (true, false, true, false, false, true, true, false)), (String
    ((Ascii (false, false, false, false, true, true, true, false)), (String
    ((Ascii (false, false, true, true, false, true, true, false)), (String
    ((Ascii (true, true, true, true, false, true, true, false)), (String
    ((Ascii (true, false, false, true, true, true, true, false)), (String
    ((Ascii (true, false, true, false, false, true, true, false)), (String
    ((Ascii (false, true, false, false, true, true, true, false)), (String
    ((Ascii (false, true, false, true, true, true, false, false)), (String
    ((Ascii (false, true, false, true, true, true, false, false)), (String
    ((Ascii (false, false, false, true, false, false, true, false)), (String
    ((Ascii (true, false, false, false, false, true, true, false)), (String
    ((Ascii (true, true, false, false, true, true, true, false)), (String
    ((Ascii (false, false, false, false, true, false, true, false)), (String
    ((Ascii (true, false, true, false, false, true, true, false)), (String
    ((Ascii (false, true, true, true, false, true, true, false)), (String
    ((Ascii (false, false, true, false, false, true, true, false)), (String
    ((Ascii (true, false, false, true, false, true, true, false)), (String
    ((Ascii (false, true, true, true, false, true, true, false)), (String
    ((Ascii (true, true, true, false, false, true, true, false)), (String
    ((Ascii (false, false, true, false, true, false, true, false)), (String
    ((Ascii (true, false, false, false, false, true, true, false)), (String
    ((Ascii (true, true, false, false, true, true, true, false)), (String
    ((Ascii (true, true, false, true, false, true, true, false)), (String
    ((Ascii (true, true, false, false, true, true, true, false)),
    EmptyString)))))))))))))))))))))))))))))))))))))))))))))))))); a_var =
    (String ((Ascii (false, false, true, false, false, false, true, false)),
    (String ((Ascii (true, false, true, false, false, true, true, false)),
    (String ((Ascii (false, false, false, false, true, true, true, false)),
    (String ((Ascii (false, false, true, true, false, true, true, false)),
    (String ((Ascii (true, true, true, true, false, true, true, false)),
    (String ((Ascii (true, false, false, true, true, true, true, false)),
    (String ((Ascii (true, false, true, false, false, true, true, false)),
    (String ((Ascii (false, true, false, false, true, true, true, false)),
    (String ((Ascii (false, true, false, true, true, true, false, false)),
    (String ((Ascii (false, true, false, true, true, true, false, false)),
    (String ((Ascii (false, false, false, false, true, true, true, false)),
    (String ((Ascii (true, false, true, false, false, true, true, false)),
    (String ((Ascii (false, true, true, true, false, true, true, false)),
    (String ((Ascii (false, false, true, false, false, true, true, false)),
    (String ((Ascii (true, false, false, true, false, true, true, false)),
    (String ((Ascii (false, true, true, true, false, true, true, false)),
    (String ((Ascii (true, true, true, false, false, true, true, false)),
    (String ((Ascii (true, true, true, true, true, false, true, false)),
    (String ((Ascii (false, false, true, false, true, true, true, false)),
    (String ((Ascii (true, false, false, false, false, true, true, false)),
    (String ((Ascii (true, true, false, false, true, true, true, false)),
    (String ((Ascii (true, true, false, true, false, true, true, false)),
    (String ((Ascii (true, true, false, false, true, true, true, false)),
    (String ((Ascii (true, true, true, true, true, false, true, false)),
    EmptyString)))))))))))))))))))))))))))))))))))))))))))))))); a_kind =
    ARead; a_locks = ((String ((Ascii (false, false, true, false, false,
    false, true, false)), (String ((Ascii (true, false, true, false, false,
    true, true, false)), (String ((Ascii (false, false, false, false, true,
    true, true, false)), (String ((Ascii (false, false, true, true, false,
    true, true, false)), (String ((Ascii (true, true, true, true, false,
    true, true, false)), (String ((Ascii (true, false, false, true, true,
    true, true, false)), (String ((Ascii (true, false, true, false, false,
    true, true, false)), (String ((Ascii (false, true, false, false, true,
    true, true, false)), (String ((Ascii (false, true, false, true, true,
    true, false, false)), (String ((Ascii (false, true, false, true, true,
    true, false, false)), (String ((Ascii (true, false, true, true, false,
    true, true, false)), (String ((Ascii (true, false, true, false, true,
    true, true, false)), (String ((Ascii (false, false, true, false, true,
    true, true, false)), (String ((Ascii (true, false, true, false, false,
    true, true, false)), (String ((Ascii (false, false, false, true, true,
    true, true, false)), (String ((Ascii (true, true, true, true, true,
    false, true, false)),
    EmptyString)))))))))))))))))))))))))))))))) :: []) } :: ({ a_fn = (String
    ((Ascii (false, false, true, false, false, false, true, false)), (String
    ((Ascii (true, false, true, false, false, true, true, false)), (String
    ((Ascii (false, false, false, false, true, true, true, false)), (String
    ((Ascii (false, false, true, true, false, true, true, false)), (String
    ((Ascii (true, true, true, true, false, true, true, false)), (String
    ((Ascii (true, false, false, true, true, true, true, false)), (String
    ((Ascii (true, false, true, false, false, true, true, false)), (String
    ((Ascii (false, true, false, false, true, true, true, false)), (String
    ((Ascii (false, true, false, true, true, true, false, false)), (String
    ((Ascii (false, true, false, true, true, true, false, false)), (String
    ((Ascii (false, true, false, false, true, false, true, false)), (String
    ((Ascii (true, false, true, false, true, true, true, false)), (String
    ((Ascii (false, true, true, true, false, true, true, false)),
    EmptyString)))))))))))))))))))))))))); a_var = (String ((Ascii (false,
    false, true, false, false, false, true, false)), (String ((Ascii (true,
    false, true, false, false, true, true, false)), (String ((Ascii (false,
    false, false, false, true, true, true, false)), (String ((Ascii (false,
    false, true, true, false, true, true, false)), (String ((Ascii (true,
    true, true, true, false, true, true, false)), (String ((Ascii (true,
    false, false, true, true, true, true, false)), (String ((Ascii (true,
    false, true, false, false, true, true, false)), (String ((Ascii (false,
    true, false, false, true, true, true, false)), (String ((Ascii (false,
    true, false, true, true, true, false, false)), (String ((Ascii (false,
    true, false, true, true, true, false, false)), (String ((Ascii (true,
    false, true, true, false, true, true, false)), (String ((Ascii (true,
    false, true, false, false, true, true, false)), (String ((Ascii (true,
    true, false, false, true, true, true, false)), (String ((Ascii (true,
    true, false, false, true, true, true, false)), (String ((Ascii (true,
    false, false, false, false, true, true, false)), (String ((Ascii (true,
    true, true, false, false, true, true, false)), (String ((Ascii (true,
    false, true, false, false, true, true, false)), (String ((Ascii (true,
    true, true, true, true, false, true, false)), (String ((Ascii (true,
    true, false, false, true, true, true, false)), (String ((Ascii (true,
    false, false, true, false, true, true, false)), (String ((Ascii (false,
    true, true, true, false, true, true, false)), (String ((Ascii (true,
    true, false, true, false, true, true, false)), (String ((Ascii (true,
    true, true, true, true, false, true, false)),
    EmptyString)))))))))))))))))))))))))))))))))))))))))))))); a_kind =
    ARead; a_locks = [] } :: ({ a_fn = (String ((Ascii (false, false, true,
    false, false, false, true, false)), (String ((Ascii (true, false, true,
    false, false, true, true, false)), (String ((Ascii (false, false, false,
    false, true, true, true, false)), (String ((Ascii (false, false, true,
    true, false, true, true, false)), (String ((Ascii (true, true, true,
    true, false, true, true, false)), (String ((Ascii (true, false, false,
    true, true, true, true, false)), (String ((Ascii (true, false, true,
    false, false, true, true, false)), (String ((Ascii (false, true, false,
    false, true, true, true, false)), (String ((Ascii (false, true, false,
    true, true, true, false, false)), (String ((Ascii (false, true, false,
    true, true, true, false, false)), (String ((Ascii (false, true, false,
    false, true, false, true, false)), (String ((Ascii (true, false, true,
    false, true, true, true, false)), (String ((Ascii (false, true, true,
    true, false, true, true, false)), EmptyString))))))))))))))))))))))))));
    a_var = (String ((Ascii (false, false, true, false, false, false, true,
    false)), (String ((Ascii (true, false, true, false, false, true, true,
    false)), (String ((Ascii (false, false, false, false, true, true, true,
    false)), (String ((Ascii (false, false, true, true, false, true, true,
    false)), (String ((Ascii (true, true, true, true, false, true, true,
    false)), (String ((Ascii (true, false, false, true, true, true, true,
    false)), (String ((Ascii (true, false, true, false, false, true, true,
    false)), (String ((Ascii (false, true, false, false, true, true, true,
    false)), (String ((Ascii (false, true, false, true, true, true, false,
    false)), (String ((Ascii (false, true, false, true, true, true, false,
    false)), (String ((Ascii (false, true, true, true, false, false, true,
    false)), (String ((Ascii (true, false, true, false, false, true, true,
    false)), (String ((Ascii (false, false, false, true, true, true, true,
    false)), (String ((Ascii (false, false, true, false, true, true, true,
    false)), (String ((Ascii (false, false, true, false, true, false, true,
    false)), (String ((Ascii (true, false, false, false, false, true, true,
    false)), (String ((Ascii (true, true, false, false, true, true, true,
    false)), (String ((Ascii (true, true, false, true, false, true, true,
    false)), EmptyString)))))))))))))))))))))))))))))))))))); a_kind = ACall;
    a_locks = [] } :: ({ a_fn = (String ((Ascii (false, false, true, false,
    false, false, true, false)), (String ((Ascii (true, false, true, false,
    false, true, true, false)), (String ((Ascii (false, false, false, false,
    true, true, true, false)), (String ((Ascii (false, false, true, true,
    false, true, true, false)), (String ((Ascii (true, true, true, true,
    false, true, true, false)), (String ((Ascii (true, false, false, true,
    true, true, true, false)), (String ((Ascii (true, false, true, false,
    false, true, true, false)), (String ((Ascii (false, true, false, false,
    true, true, true, false)), (String ((Ascii (false, true, false, true,
    true, true, false, false)), (String ((Ascii (false, true, false, true,
    true, true, false, false)), (String ((Ascii (false, true, false, false,
    true, false, true, false)), (String ((Ascii (true, false, true, false,
    true, true, true, false)), (String ((Ascii (false, true, true, true,
    false, true, true, false)), EmptyString))))))))))))))))))))))))));
    a_var = (String ((Ascii (false, false, true, false, false, false, true,
    false)), (String ((Ascii (true, false, true, false, false, true, true,
    false)), (String ((Ascii (false, false, false, false, true, true, true,
    false)), (String ((Ascii (false, false, true, true, false, true, true,
    false)), (String ((Ascii (true, true, true, true, false, true, true,
    false)), (String ((Ascii (true, false, false, true, true, true, true,
    false)), (String ((Ascii (true, false, true, false, false, true, true,
    false)), (String ((Ascii (false, true, false, false, true, true, true,
    false)), (String ((Ascii (false, true, false, true, true, true, false,
    false)), (String ((Ascii (false, true, false, true, true, true, false,
    false)), (String ((Ascii (true, false, true, true, false, true, true,
    false)), (String ((Ascii (true, false, true, false, false, true, true,
    false)), (String ((Ascii (true, true, false, false, true, true, true,
    false)), (String ((Ascii (true, true, false, false, true, true, true,
    false)), (String ((Ascii (true, false, false, false, false, true, true,
    false)), (String ((Ascii (true, true, true, false, false, true, true,
    false)), (String ((Ascii (true, false, true, false, false, true, true,
    false)), (String ((Ascii (true, true, true, true, true, false, true,
    false)), (String ((Ascii (true, true, false, false, true, true, true,
    false)), (String ((Ascii (true, false, false, true, false, true, true,
    false)), (String ((Ascii (false, true, true, true, false, true, true,
    false)), (String ((Ascii (true, true, false, true, false, true, true,
    false)), (String ((Ascii (true, true, true, true, true, false, true,
    false)), EmptyString))))))))))))))))))))))))))))))))))))))))))))));
    a_kind = ARead; a_locks = [] } :: ({ a_fn = (String ((Ascii (false,
    false, true, false, false, false, true, false)), (String ((Ascii (true,
    false, true, false, false, true, true, false)), (String ((Ascii (false,
    false, false, false, true, true, true, false)), (String ((Ascii (false,
    false, true, true, false, true, true, false)), (String ((Ascii (true,
    true, true, true, false, true, true, false)), (String ((Ascii (true,
    false, false, true, true, true, true, false)), (String ((Ascii (true,
    false, true, false, false, true, true, false)), (String ((Ascii (false,
    true, false, false, true, true, true, false)), (String ((Ascii (false,
    true, false, true, true, true, false, false)), (String ((Ascii (false,
    true, false, true, true, true, false, false)), (String ((Ascii (false,
    true, false, false, true, false, true, false)), (String ((Ascii (true,
    false, true, false, true, true, true, false)), (String ((Ascii (false,
    true, true, true, false, true, true, false)),
    EmptyString)))))))))))))))))))))))))); a_var = (String ((Ascii (false,
    false, true, false, false, false, true, false)), (String ((Ascii (true,
    false, true, false, false, true, true, false)), (String ((Ascii (false,
    false, false, false, true, true, true, false)), (String ((Ascii (false,
    false, true, true, false, true, true, false)), (String ((Ascii (true,
    true, true, true, false, true, true, false)), (String ((Ascii (true,
    false, false, true, true, true, true, false)), (String ((Ascii (true,
    false, true, false, false, true, true, false)), (String ((Ascii (false,
    true, false, false, true, true, true, false)), (String ((Ascii (false,
    true, false, true, true, true, false, false)), (String ((Ascii (false,
    true, false, true, true, true, false, false)), (String ((Ascii (false,
    true, true, false, false, false, true, false)), (String ((Ascii (true,
    false, false, true, false, true, true, false)), (String ((Ascii (false,
    true, true, true, false, true, true, false)), (String ((Ascii (true,
    false, false, true, false, true, true, false)), (String ((Ascii (true,
    true, false, false, true, true, true, false)), (String ((Ascii (false,
    false, false, true, false, true, true, false)), (String ((Ascii (true,
    true, true, false, true, false, true, false)), (String ((Ascii (true,
    true, true, true, false, true, true, false)), (String ((Ascii (false,
    true, false, false, true, true, true, false)), (String ((Ascii (true,
    true, false, true, false, true, true, false)),
    EmptyString)))))))))))))))))))))))))))))))))))))))); a_kind = ACall;
    a_locks = [] } :: ({ a_fn = (String ((Ascii (false, false, true, false,
    false, false, true, false)), (String ((Ascii (true, false, true, false,
    false, true, true, false)), (String ((Ascii (false, false, false, false,
    true, true, true, false)), (String ((Ascii (false, false, true, true,
    false, true, true, false)), (String ((Ascii (true, true, true, true,
    false, true, true, false)), (String ((Ascii (true, false, false, true,
    true, true, true, false)), (String ((Ascii (true, false, true, false,
    false, true, true, false)), (String ((Ascii (false, true, false, false,
    true, true, true, false)), (String ((Ascii (false, true, false, true,
    true, true, false, false)), (String ((Ascii (false, true, false, true,
    true, true, false, false)), (String ((Ascii (false, true, true, false,
    false, false, true, false)), (String ((Ascii (true, false, false, true,
    false, true, true, false)), (String ((Ascii (false, true, true, true,
    false, true, true, false)), (String ((Ascii (true, false, false, true,
    false, true, true, false)), (String ((Ascii (true, true, false, false,
    true, true, true, false)), (String ((Ascii (false, false, false, true,
    false, true, true, false)), (String ((Ascii (true, true, true, false,
    true, false, true, false)), (String ((Ascii (true, true, true, true,
    false, true, true, false)), (String ((Ascii (false, true, false, false,
    true, true, true, false)), (String ((Ascii (true, true, false, true,
    false, true, true, false)),
    EmptyString)))))))))))))))))))))))))))))))))))))))); a_var = (String
    ((Ascii (false, false, true, false, false, false, true, false)), (String
    ((Ascii (true, false, true, false, false, true, true, false)), (String
    ((Ascii (false, false, false, false, true, true, true, false)), (String
    ((Ascii (false, false, true, true, false, true, true, false)), (String
    ((Ascii (true, true, true, true, false, true, true, false)), (String
    ((Ascii (true, false, false, true, true, true, true, false)), (String
    ((Ascii (true, false, true, false, false, true, true, false)), (String
    ((Ascii (false, true, false, false, true, true, true, false)), (String
    ((Ascii (false, true, false, true, true, true, false, false)), (String
    ((Ascii (false, true, false, true, true, true, false, false)), (String
    ((Ascii (false, false, false, false, true, true, true, false)), (String
    ((Ascii (true, false, true, false, false, true, true, false)), (String
    ((Ascii (false, true, true, true, false, true, true, false)), (String
    ((Ascii (false, false, true, false, false, true, true, false)), (String
    ((Ascii (true, false, false, true, false, true, true, false)), (String
    ((Ascii (false, true, true, true, false, true, true, false)), (String
    ((Ascii (true, true, true, false, false, true, true, false)), (String
    ((Ascii (true, true, true, true, true, false, true, false)), (String
    ((Ascii (false, false, true, false, true, true, true, false)), (String
    ((Ascii (true, false, false, false, false, true, true, false)), (String
    ((Ascii (true, true, false, false, true, true, true, false)), (String
    ((Ascii (true, true, false, true, false, true, true, false)), (String
    ((Ascii (true, true, false, false, true, true, true, false)), (String
    ((Ascii (true, true, true, true, true, false, true, false)),
    EmptyString)))))))))))))))))))))))))))))))))))))))))))))))); a_kind =
    ARead; a_locks = ((String ((Ascii (false, false, true, false, false,
    false, true, false)), (String ((Ascii (true, false, true, false, false,
    true, true, false)), (String ((Ascii (false, false, false, false, true,
    true, true, false)), (String ((Ascii (false, false, true, true, false,
    true, true, false)), (String ((Ascii (true, true, true, true, false,
    true, true, false)), (String ((Ascii (true, false, false, true, true,
    true, true, false)), (String ((Ascii (true, false, true, false, false,
    true, true, false)), (String ((Ascii (false, true, false, false, true,
    true, true, false)), (String ((Ascii (false, true, false, true, true,
    true, false, false)), (String ((Ascii (false, true, false, true, true,
    true, false, false)), (String ((Ascii (true, false, true, true, false,
    true, true, false)), (String ((Ascii (true, false, true, false, true,
    true, true, false)), (String ((Ascii (false, false, true, false, true,
    true, true, false)), (String ((Ascii (true, false, true, false, false,
    true, true, false)), (String ((Ascii (false, false, false, true, true,
    true, true, false)), (String ((Ascii (true, true, true, true, true,
    false, true, false)),
    EmptyString)))))))))))))))))))))))))))))))) :: []) } :: ({ a_fn = (String
    ((Ascii (false, false, true, false, false, false, true, false)), (String
    ((Ascii (true, false, true, false, false, true, true, false)), (String
    ((Ascii (false, false, false, false, true, true, true, false)), (String
    ((Ascii (false, false, true, true, false, true, true, false)), (String
    ((Ascii (true, true, true, true, false, true, true, false)), (String
    ((Ascii (true, false, false, true, true, true, true, false)), (String
    ((Ascii (true, false, true, false, false, true, true, false)), (String
    ((Ascii (false, true, false, false, true, true, true, false)), (String
    ((Ascii (false, true, false, true, true, true, false, false)), (String
    ((Ascii (false, true, false, true, true, true, false, false)), (String
    ((Ascii (false, true, true, false, false, false, true, false)), (String
    ((Ascii (true, false, false, true, false, true, true, false)), (String
    ((Ascii (false, true, true, true, false, true, true, false)), (String
    ((Ascii (true, false, false, true, false, true, true, false)), (String
    ((Ascii (true, true, false, false, true, true, true, false)), (String
    ((Ascii (false, false, false, true, false, true, true, false)), (String
    ((Ascii (true, true, true, false, true, false, true, false)), (String
    ((Ascii (true, true, true, true, false, true, true, false)), (String
    ((Ascii (false, true, false, false, true, true, true, false)), (String
    ((Ascii (true, true, false, true, false, true, true, false)),
    EmptyString)))))))))))))))))))))))))))))))))))))))); a_var = (String
    ((Ascii (false, false, true, false, false, false, true, false)), (String
    ((Ascii (true, false, true, false, false, true, true, false)), (String
    ((Ascii (false, false, false, false, true, true, true, false)), (String
    ((Ascii (false, false, true, true, false, true, true, false)), (String
    ((Ascii (true, true, true, true, false, true, true, false)), (String
    ((Ascii (true, false, false, true, true, true, true, false)), (String
    ((Ascii (true, false, true, false, false, true, true, false)), (String
    ((Ascii (false, true, false, false, true, true, true, false)), (String
    ((Ascii (false, true, false, true, true, true, false, false)), (String
    ((Ascii (false, true, false, true, true, true, false, false)), (String
    ((Ascii (false, true, false, false, true, true, true, false)), (String
    ((Ascii (true, false, true, false, true, true, true, false)), (String
    ((Ascii (false, true, true, true, false, true, true, false)), (String
    ((Ascii (false, true, true, true, false, true, true, false)), (String
    ((Ascii (true, false, false, true, false, true, true, false)), (String
    ((Ascii (false, true, true, true, false, true, true, false)), (String
    ((Ascii (true, true, true, false, false, true, true, false)), (String
    ((Ascii (true, true, true, true, true, false, true, false)),
    EmptyString)))))))))))))))))))))))))))))))))))); a_kind = AWrite;
    a_locks = ((String ((Ascii (false, false, true, false, false, false,
    true, false)), (String ((Ascii (true, false, true, false, false, true,
    true, false)), (String ((Ascii (false, false, false, false, true, true,
    true, false)), (String ((Ascii (false, false, true, true, false, true,
    true, false)), (String ((Ascii (true, true, true, true, false, true,
    true, false)), (String ((Ascii (true, false, false, true, true, true,
    true, false)), (String ((Ascii (true, false, true, false, false, true,
    true, false)), (String ((Ascii (false, true, false, false, true, true,
    true, false)), (String ((Ascii (false, true, false, true, true, true,
    false, false)), (String ((Ascii (false, true, false, true, true, true,
    false, false)), (String ((Ascii (true, false, true, true, false, true,
    true, false)), (String ((Ascii (true, false, true, false, true, true,
    true, false)), (String ((Ascii (false, false, true, false, true, true,
    true, false)), (String ((Ascii (true, false, true, false, false, true,
    true, false)), (String ((Ascii (false, false, false, true, true, true,
    true, false)), (String ((Ascii (true, true, true, true, true, false,
    true, false)),
    EmptyString)))))))))))))))))))))))))))))))) :: []) } :: ({ a_fn = (String
    ((Ascii (false, false, true, false, false, false, true, false)), (String
    ((Ascii (true, false, true, false, false, true, true, false)), (String
    ((Ascii (false, false, false, false, true, true, true, false)), (String
    ((Ascii (false, false, true, true, false, true, true, false)), (String
    ((Ascii (true, true, true, true, false, true, true, false)), (String
    ((Ascii (true, false, false, true, true, true, true, false)), (String
    ((Ascii (true, false, true, false, false, true, true, false)), (String
    ((Ascii (false, true, false, false, true, true, true, false)), (String
    ((Ascii (false, true, false, true, true, true, false, false)), (String
    ((Ascii (false, true, false, true, true, true, false, false)), (String
    ((Ascii (true, true, false, false, true, false, true, false)), (String
    ((Ascii (false, false, true, false, true, true, true, false)), (String
    ((Ascii (true, false, false, false, false, true, true, false)), (String
    ((Ascii (false, true, false, false, true, true, true, false)), (String
    ((Ascii (false, false, true, false, true, true, true, false)), (String
    ((Ascii (true, true, true, false, true, false, true, false)), (String
    ((Ascii (true, true, true, true, false, true, true, false)), (String
    ((Ascii (false, true, false, false, true, true, true, false)), (String
    ((Ascii (true, true, false, true, false, true, true, false)),
    EmptyString)))))))))))))))))))))))))))))))))))))); a_var = (String
    ((Ascii (false, false, true, false, false, false, true, false)), (String
    ((Ascii (true, false, true, false, false, true, true, false)), (String
    ((Ascii (false, false, false, false, true, true, true, false)), (String
    ((Ascii (false, false, true, true, false, true, true, false)), (String
    ((Ascii (true, true, true, true, false, true, true, false)), (String
    ((Ascii (true, false, false, true, true, true, true, false)), (String
    ((Ascii (true, false, true, false, false, true, true, false)), (String
    ((Ascii (false, true, false, false, true, true, true, false)), (String
    ((Ascii (false, true, false, true, true, true, false, false)), (String
    ((Ascii (false, true, false, true, true, true, false, false)), (String
    ((Ascii (false, true, false, false, true, true, true, false)), (String
    ((Ascii (true, false, true, false, true, true, true, false)), (String
    ((Ascii (false, true, true, true, false, true, true, false)), (String
    ((Ascii (false, true, true, true, false, true, true, false)), (String
    ((Ascii (true, false, false, true, false, true, true, false)), (String
    ((Ascii (false, true, true, true, false, true, true, false)), (String
    ((Ascii (true, true, true, false, false, true, true, false)), (String
    ((Ascii (true, true, true, true, true, false, true, false)),
    EmptyString)))))))))))))))))))))))))))))))))))); a_kind = ARead;
    a_locks = ((String ((Ascii (false, false, true, false, false, false,
    true, false)), (String ((Ascii (true, false, true, false, false, true,
    true, false)), (String ((Ascii (false, false, false, false, true, true,
    true, false)), (String ((Ascii (false, false, true, true, false, true,
    true, false)), (String ((Ascii (true, true, true, true, false, true,
    true, false)), (String ((Ascii (true, false, false, true, true, true,
    true, false)), (String ((Ascii (true, false, true, false, false, true,
    true, false)), (String ((Ascii (false, true, false, false, true, true,
    true, false)), (String ((Ascii (false, true, false, true, true, true,
    false, false)), (String ((Ascii (false, true, false, true, true, true,
    false, false)), (String ((Ascii (true, false, true, true, false, true,
    true, false)), (String ((Ascii (true, false, true, false, true, true,
    true, false)), (String ((Ascii (false, false, true, false, true, true,
    true, false)), (String ((Ascii (true, false, true, false, false, true,
    true, false)), (String ((Ascii (false, false, false, true, true, true,
    true, false)), (String ((Ascii (true, true, true, true, true, false,
    true, false)),
    EmptyString)))))))))))))))))))))))))))))))) :: []) } :: ({ a_fn = (String
    ((Ascii (false, false, true, false, false, false, true, false)), (String
    ((Ascii (true, false, true, false, false, true, true, false)), (String
    ((Ascii (false, false, false, false, true, true, true, false)), (String
    ((Ascii (false, false, true, true, false, true, true, false)), (String
    ((Ascii (true, true, true, true, false, true, true, false)), (String
    ((Ascii (true, false, false, true, true, true, true, false)), (String
    ((Ascii (true, false, true, false, false, true, true, false)), (String
    ((Ascii (false, true, false, false, true, true, true, false)), (String
    ((Ascii (false, true, false, true, true, true, false, false)), (String
    ((Ascii (false, true, false, true, true, true, false, false)), (String
    ((Ascii (true, true, false, false, true, false, true, false)), (String
    ((Ascii (false, false, true, false, true, true, true, false)), (String
    ((Ascii (true, false, false, false, false, true, true, false)), (String
    ((Ascii (false, true, false, false, true, true, true, false)), (String
    ((Ascii (false, false, true, false, true, true, true, false)), (String
    ((Ascii (true, true, true, false, true, false, true, false)), (String
    ((Ascii (true, true, true, true, false, true, true, false)), (String
    ((Ascii (false, true, false, false, true, true, true, false)), (String
    ((Ascii (true, true, false, true, false, true, true, false)),
    EmptyString)))))))))))))))))))))))))))))))))))))); a_var = (String
    ((Ascii (false, false, true, false, false, false, true, false)), (String
    ((Ascii (true, false, true, false, false, true, true, false)), (String
    ((Ascii (false, false, false, false, true, true, true, false)), (String
    ((Ascii (false, false, true, true, false, true, true, false)), (String
    ((Ascii (true, true, true, true, false, true, true, false)), (String
    ((Ascii (true, false, false, true, true, true, true, false)), (String
    ((Ascii (true, false, true, false, false, true, true, false)), (String
    ((Ascii (false, true, false, false, true, true, true, false)), (String
    ((Ascii (false, true, false, true, true, true, false, false)), (String
    ((Ascii (false, true, false, true, true, true, false, false)), (String
    ((Ascii (true, false, true, true, false, true, true, false)), (String
    ((Ascii (true, false, false, false, false, true, true, false)), (String
    ((Ascii (true, false, false, true, false, true, true, false)), (String
    ((Ascii (false, true, true, true, false, true, true, false)), (String
    ((Ascii (false, false, true, false, true, true, true, false)), (String
    ((Ascii (true, false, true, false, false, true, true, false)), (String
    ((Ascii (false, true, true, true, false, true, true, false)), (String
    ((Ascii (true, false, false, false, false, true, true, false)), (String
    ((Ascii (false, true, true, true, false, true, true, false)), (String
    ((Ascii (true, true, false, false, false, true, true, false)), (String
    ((Ascii (true, false, true, false, false, true, true, false)), (String
    ((Ascii (true, true, true, true, true, false, true, false)), (String
    ((Ascii (true, false, true, true, false, true, true, false)), (String
    ((Ascii (true, true, true, true, false, true, true, false)), (String
    ((Ascii (false, false, true, false, false, true, true, false)), (String
    ((Ascii (true, false, true, false, false, true, true, false)), (String
    ((Ascii (true, true, true, true, true, false, true, false)),
    EmptyString))))))))))))))))))))))))))))))))))))))))))))))))))))));
    a_kind = AWrite; a_locks = ((String ((Ascii (false, false, true, false,
    false, false, true, false)), (String ((Ascii (true, false, true, false,
    false, true, true, false)), (String ((Ascii (false, false, false, false,
    true, true, true, false)), (String ((Ascii (false, false, true, true,
    false, true, true, false)), (String ((Ascii (true, true, true, true,
    false, true, true, false)), (String ((Ascii (true, false, false, true,
    true, true, true, false)), (String ((Ascii (true, false, true, false,
    false, true, true, false)), (String ((Ascii (false, true, false, false,
    true, true, true, false)), (String ((Ascii (false, true, false, true,
    true, true, false, false)), (String ((Ascii (false, true, false, true,
    true, true, false, false)), (String ((Ascii (true, false, true, true,
    false, true, true, false)), (String ((Ascii (true, false, true, false,
    true, true, true, false)), (String ((Ascii (false, false, true, false,
    true, true, true, false)), (String ((Ascii (true, false, true, false,
    false, true, true, false)), (String ((Ascii (false, false, false, true,
    true, true, true, false)), (String ((Ascii (true, true, true, true, true,
    false, true, false)),
    EmptyString)))))))))))))))))))))))))))))))) :: []) } :: ({ a_fn = (String
    ((Ascii (false, false, true, false, false, false, true, false)), (String
    ((Ascii (true, false, true, false, false, true, true, false)), (String
    ((Ascii (false, false, false, false, true, true, true, false)), (String
    ((Ascii (false, false, true, true, false, true, true, false)), (String
    ((Ascii (true, true, true, true, false, true, true, false)), (String
    ((Ascii (true, false, false, true, true, true, true, false)), (String
    ((Ascii (true, false, true, false, false, true, true, false)), (String
    ((Ascii (false, true, false, false, true, true, true, false)), (String
    ((Ascii (false, true, false, true, true, true, false, false)), (String
    ((Ascii (false, true, false, true, true, true, false, false)), (String
    ((Ascii (true, true, false, false, true, false, true, false)), (String
    ((Ascii (false, false, true, false, true, true, true, false)), (String
    ((Ascii (true, false, false, false, false, true, true, false)), (String
    ((Ascii (false, true, false, false, true, true, true, false)), (String
    ((Ascii (false, false, true, false, true, true, true, false)), (String
    ((Ascii (true, true, true, false, true, false, true, false)), (String
    ((Ascii (true, true, true, true, false, true, true, false)), (String
    ((Ascii (false, true, false, false, true, true, true, false)), (String
    ((Ascii (true, true, false, true, false, true, true, false)),
    EmptyString)))))))))))))))))))))))))))))))))))))); a_var = (String
    ((Ascii (false, false, true, false, false, false, true, false)), (String
    ((Ascii (true, false, true, false, false, true, true, false)), (String
    ((Ascii (false, false, false, false, true, true, true, false)), (String
    ((Ascii (false, false, true, true, false, true, true, false)), (String
    ((Ascii (true, true, true, true, false, true, true, false)), (String
    ((Ascii (true, false, false, true, true, true, true, false)), (String
    ((Ascii (true, false, true, false, false, true, true, false)), (String
    ((Ascii (false, true, false, false, true, true, true, false)), (String
    ((Ascii (false, true, false, true, true, true, false, false)), (String
    ((Ascii (false, true, false, true, true, true, false, false)), (String
    ((Ascii (false, false, false, false, true, true, true, false)), (String
    ((Ascii (true, false, true, false, false, true, true, false)), (String
    ((Ascii (false, true, true, true, false, true, true, false)), (String
    ((Ascii (false, false, true, false, false, true, true, false)), (String
    ((Ascii (true, false, false, true, false, true, true, false)), (String
    ((Ascii (false, true, true, true, false, true, true, false)), (String
    ((Ascii (true, true, true, false, false, true, true, false)), (String
    ((Ascii (true, true, true, true, true, false, true, false)), (String
    ((Ascii (false, false, true, false, true, true, true, false)), (String
    ((Ascii (true, false, false, false, false, true, true, false)), (String
    ((Ascii (true, true, false, false, true, true, true, false)), (String
    ((Ascii (true, true, false, true, false, true, true, false)), (String
    ((Ascii (true, true, false, false, true, true, true, false)), (String
    ((Ascii (true, true, true, true, true, false, true, false)),
    EmptyString)))))))))))))))))))))))))))))))))))))))))))))))); a_kind =
    ARead; a_locks = ((String ((Ascii (false, false, true, false, false,
    false, true, false)), (String ((Ascii (true, false, true, false, false,
    true, true, false)), (String ((Ascii (false, false, false, false, true,
    true, true, false)), (String ((Ascii (false, false, true, true, false,
    true, true, false)), (String ((Ascii (true, true, true, true, false,
    true, true, false)), (String ((Ascii (true, false, false, true, true,
    true, true, false)), (String ((Ascii (true, false, true, false, false,
    true, true, false)), (String ((Ascii (false, true, false, false, true,
    true, true, false)), (String ((Ascii (false, true, false, true, true,
    true, false, false)), (String ((Ascii (false, true, false, true, true,
    true, false, false)), (String ((Ascii (true, false, true, true, false,
    true, true, false)), (String ((Ascii (true, false, true, false, true,
    true, true, false)), (String ((Ascii (false, false, true, false, true,
    true, true, false)), (String ((Ascii (true, false, true, false, false,
    true, true, false)), (String ((Ascii (false, false, false, true, true,
    true, true, false)), (String ((Ascii (true, true, true, true, true,
    false, true, false)),
    EmptyString)))))))))))))))))))))))))))))))) :: []) } :: ({ a_fn = (String
    ((Ascii (false, false, true, false, false, false, true, false)), (String
    ((Ascii (true, false, true, false, false, true, true, false)), (String
    ((Ascii (false, false, false, false, true, true, true, false)), (String
    ((Ascii (false, false, true, true, false, true, true, false)), (String
    ((Ascii (true, true, true, true, false, true, true, false)), (String
    ((Ascii (true, false, false, true, true, true, true, false)), (String
    ((Ascii (true, false, true, false, false, true, true, false)), (String
    ((Ascii (false, true, false, false, true, true, true, false)), (String
    ((Ascii (false, true, false, true, true, true, false, false)), (String
    ((Ascii (false, true, false, true, true, true, false, false)), (String
    ((Ascii (true, true, false, false, true, false, true, false)), (String
    ((Ascii (false, false, true, false, true, true, true, false)), (String
    ((Ascii (true, false, false, false, false, true, true, false)), (String
    ((Ascii (false, true, false, false, true, true, true, false)), (String
    ((Ascii (false, false, true, false, true, true, true, false)), (String
    ((Ascii (true, true, true, false, true, false, true, false)), (String
    ((Ascii (true, true, true, true, false, true, true, false)), (String
    ((Ascii (false, true, false, false, true, true, true, false)), (String
    ((Ascii (true, true, false, true, false, true, true, false)),
    EmptyString)))))))))))))))))))))))))))))))))))))); a_var = (String
    ((Ascii (false, false, true, false, false, false, true, false)), (String
    ((Ascii (true, false, true, false, false, true, true, false)), (String
    ((Ascii (false, false, false, false, true, true, true, false)), (String
    ((Ascii (false, false, true, true, false, true, true, false)), (String
    ((Ascii (true, true, true, true, false, true, true, false)), (String
    ((Ascii (true, false, false, true, true, true, true, false)), (String
    ((Ascii (true, false, true, false, false, true, true, false)), (String
    ((Ascii (false, true, false, false, true, true, true, false)), (String
    ((Ascii (false, true, false, true, true, true, false, false)), (String
    ((Ascii (false, true, false, true, true, true, false, false)), (String
    ((Ascii (false, false, false, false, true, true, true, false)), (String
    ((Ascii (true, false, true, false, false, true, true, false)), (String
    ((Ascii (false, true, true, true, false, true, true, false)), (String
    ((Ascii (false, false, true, false, false, true, true, false)), (String
    ((Ascii (true, false, false, true, false, true, true, false)), (String
    ((Ascii (false, true, true, true, false, true, true, false)), (String
    ((Ascii (true, true, true, false, false, true, true, false)), (String
    ((Ascii (true, true, true, true, true, false, true, false)), (String
    ((Ascii (false, false, true, false, true, true, true, false)), (String
    ((Ascii (true, false, false, false, false, true, true, false)), (String
    ((Ascii (true, true, false, false, true, true, true, false)), (String
    ((Ascii (true, true, false, true, false, true, true, false)), (String
    ((Ascii (true, true, false, false, true, true, true, false)), (String
    ((Ascii (true, true, true, true, true, false, true, false)),
    EmptyString)))))))))))))))))))))))))))))))))))))))))))))))); a_kind =
    ARead; a_locks = ((String ((Ascii (false, false, true, false, false,
    false, true, false)), (String ((Ascii (true, false, true, false, false,
    true, true, false)), (String ((Ascii (false, false, false, false, true,
    true, true, false)), (String ((Ascii (false, false, true, true, false,
    true, true, false)), (String ((Ascii (true, true, true, true, false,
    true, true, false)), (String ((Ascii (true, false, false, true, true,
    true, true, false)), (String ((Ascii (true, false, true, false, false,
    true, true, false)), (String ((Ascii (false, true, false, false, true,
    true, true, false)), (String ((Ascii (false, true, false, true, true,
    true, false, false)), (String ((Ascii (false, true, false, true, true,
    true, false, false)), (String ((Ascii (true, false, true, true, false,
    true, true, false)), (String ((Ascii (true, false, true, false, true,
    true, true, false)), (String ((Ascii (false, false, true, false, true,
    true, true, false)), (String ((Ascii (true, false, true, false, false,
    true, true, false)), (String ((Ascii (false, false, false, true, true,
    true, true, false)), (String ((Ascii (true, true, true, true, true,
    false, true, false)),
    EmptyString)))))))))))))))))))))))))))))))) :: []) } :: ({ a_fn = (String
    ((Ascii (false, false, true, false, false, false, true, false)), (String
    ((Ascii (true, false, true, false, false, true, true, false)), (String
    ((Ascii (false, false, false, false, true, true, true, false)), (String
    ((Ascii (false, false, true, true, false, true, true, false)), (String
    ((Ascii (true, true, true, true, false, true, true, false)), (String
    ((Ascii (true, false, false, true, true, true, true, false)), (String
    ((Ascii (true, false, true, false, false, true, true, false)), (String
    ((Ascii (false, true, false, false, true, true, true, false)), (String
    ((Ascii (false, true, false, true, true, true, false, false)), (String
    ((Ascii (false, true, false, true, true, true, false, false)), (String
    ((Ascii (true, true, false, false, true, false, true, false)), (String
    ((Ascii (false, false, true, false, true, true, true, false)), (String
    ((Ascii (true, false, false, false, false, true, true, false)), (String
    ((Ascii (false, true, false, false, true, true, true, false)), (String
    ((Ascii (false, false, true, false, true, true, true, false)), (String
    ((Ascii (true, true, true, false, true, false, true, false)), (String
    ((Ascii (true, true, true, true, false, true, true, false)), (String
    ((Ascii (false, true, false, false, true, true, true, false)), (String
    ((Ascii (true, true, false, true, false, true, true, false)),
    EmptyString)))))))))))))))))))))))))))))))))))))); a_var = (String
    ((Ascii (false, false, true, false, false, false, true, false)), (String
    ((Ascii (true, false, true, false, false, true, true, false)), (String
    ((Ascii (false, false, false, false, true, true, true, false)), (String
    ((Ascii (false, false, true, true, false, true, true, false)), (String
    ((Ascii (true, true, true, true, false, true, true, false)), (String
    ((Ascii (true, false, false, true, true, true, true, false)), (String
    ((Ascii (true, false, true, false, false, true, true, false)), (String
    ((Ascii (false, true, false, false, true, true, true, false)), (String
    ((Ascii (false, true, false, true, true, true, false, false)), (String
    ((Ascii (false, true, false, true, true, true, false, false)), (String
    ((Ascii (false, true, false, false, true, true, true, false)), (String
    ((Ascii (true, false, true, false, true, true, true, false)), (String
    ((Ascii (false, true, true, true, false, true, true, false)), (String
    ((Ascii (false, true, true, true, false, true, true, false)), (String
    ((Ascii (true, false, false, true, false, true, true, false)), (String
    ((Ascii (false, true, true, true, false, true, true, false)), (String
    ((Ascii (true, true, true, false, false, true, true, false)), (String
    ((Ascii (true, true, true, true, true, false, true, false)),
    EmptyString)))))))))))))))))))))))))))))))))))); a_kind = AWrite;
    a_locks = ((String ((Ascii (false, false, true, false, false, false,
    true, false)), (String ((Ascii (true, false, true, false, false, true,
    true, false)), (String ((Ascii (false, false, false, false, true, true,
    true, false)), (String ((Ascii (false, false, true, true, false, true,
    true, false)), (String ((Ascii (true, true, true, true, false, true,
    true, false)), (String ((Ascii (true, false, false, true, true, true,
    true, false)), (String ((Ascii (true, false, true, false, false, true,
    true, false)), (String ((Ascii (false, true, false, false, true, true,
    true, false)), (String ((Ascii (false, true, false, true, true, true,
    false, false)), (String ((Ascii (false, true, false, true, true, true,
    false, false)), (String ((Ascii (true, false, true, true, false, true,
    true, false)), (String ((Ascii (true, false, true, false, true, true,
    true, false)), (String ((Ascii (false, false, true, false, true, true,
    true, false)), (String ((Ascii (true, false, true, false, false, true,
    true, false)), (String ((Ascii (false, false, false, true, true, true,
    true, false)), (String ((Ascii (true, true, true, true, true, false,
    true, false)),
    EmptyString)))))))))))))))))))))))))))))))) :: []) } :: ({ a_fn = (String
    ((Ascii (false, false, true, false, false, false, true, false)), (String
    ((Ascii (true, false, true, false, false, true, true, false)), (String
    ((Ascii (false, false, false, false, true, true, true, false)), (String
    ((Ascii (false, false, true, true, false, true, true, false)), (String
    ((Ascii (true, true, true, true, false, true, true, false)), (String
    ((Ascii (true, false, false, true, true, true, true, false)), (String
    ((Ascii (true, false, true, false, false, true, true, false)), (String
    ((Ascii (false, true, false, false, true, true, true, false)), (String
    ((Ascii (false, true, false, true, true, true, false, false)), (String
    ((Ascii (false, true, false, true, true, true, false, false)), (String
    ((Ascii (true, true, false, false, true, false, true, false)), (String
    ((Ascii (false, false, true, false, true, true, true, false)), (String
    ((Ascii (true, false, false, false, false, true, true, false)), (String
    ((Ascii (false, true, false, false, true, true, true, false)), (String
    ((Ascii (false, false, true, false, true, true, true, false)), (String
    ((Ascii (true, true, true, false, true, false, true, false)), (String
    ((Ascii (true, true, true, true, false, true, true, false)), (String
    ((Ascii (false, true, false, false, true, true, true, false)), (String
    ((Ascii (true, true, false, true, false, true, true, false)),
    EmptyString)))))))))))))))))))))))))))))))))))))); a_var = (String
    ((Ascii (false, false, true, false, false, false, true, false)), (String
    ((Ascii (true, false, true, false, false, true, true, false)), (String
    ((Ascii (false, false, false, false, true, true, true, false)), (String
    ((Ascii (false, false, true, true, false, true, true, false)), (String
    ((Ascii (true, true, true, true, false, true, true, false)), (String
    ((Ascii (true, false, false, true, true, true, true, false)), (String
    ((Ascii (true, false, true, false, false, true, true, false)), (String
    ((Ascii (false, true, false, false, true, true, true, false)), (String
    ((Ascii (false, true, false, true, true, true, false, false)), (String
    ((Ascii (false, true, false, true, true, true, false, false)), (String
    ((Ascii (true, true, true, false, true, true, true, false)), (String
    ((Ascii (true, true, true, true, false, true, true, false)), (String
    ((Ascii (false, true, false, false, true, true, true, false)), (String
    ((Ascii (true, true, false, true, false, true, true, false)), (String
    ((Ascii (true, true, true, true, true, false, true, false)),
    EmptyString)))))))))))))))))))))))))))))); a_kind = ARead; a_locks =
    [] } :: ({ a_fn = (String ((Ascii (false, false, true, false, false,
    false, true, false)), (String ((Ascii (true, false, true, false, false,
    true, true, false)), (String ((Ascii (false, false, false, false, true,
    true, true, false)), (String ((Ascii (false, false, true, true, false,
    true, true, false)), (String ((Ascii (true, true, true, true, false,
    true, true, false)), (String ((Ascii (true, false, false, true, true,
    true, true, false)), (String ((Ascii (true, false, true, false, false,
    true, true, false)), (String ((Ascii (false, true, false, false, true,
    true, true, false)), (String ((Ascii (false, true, false, true, true,
    true, false, false)), (String ((Ascii (false, true, false, true, true,
    true, false, false)), (String ((Ascii (true, true, false, false, true,
    false, true, false)), (String ((Ascii (false, false, true, false, true,
    true, true, false)), (String ((Ascii (true, false, false, false, false,
    true, true, false)), (String ((Ascii (false, true, false, false, true,
    true, true, false)), (String ((Ascii (false, false, true, false, true,
    true, true, false)), (String ((Ascii (true, true, true, false, true,
    false, true, false)), (String ((Ascii (true, true, true, true, false,
    true, true, false)), (String ((Ascii (false, true, false, false, true,
    true, true, false)), (String ((Ascii (true, true, false, true, false,
    true, true, false)), EmptyString))))))))))))))))))))))))))))))))))))));
    a_var = (String ((Ascii (false, false, true, false, false, false, true,
    false)), (String ((Ascii (true, false, true, false, false, true, true,
    false)), (String ((Ascii (false, false, false, false, true, true, true,
    false)), (String ((Ascii (false, false, true, true, false, true, true,
    false)), (String ((Ascii (true, true, true, true, false, true, true,
    false)), (String ((Ascii (true, false, false, true, true, true, true,
    false)), (String ((Ascii (true, false, true, false, false, true, true,
    false)), (String ((Ascii (false, true, false, false, true, true, true,
    false)), (String ((Ascii (false, true, false, true, true, true, false,
    false)), (String ((Ascii (false, true, false, true, true, true, false,
    false)), (String ((Ascii (true, true, true, false, true, true, true,
    false)), (String ((Ascii (true, true, true, true, false, true, true,
    false)), (String ((Ascii (false, true, false, false, true, true, true,
    false)), (String ((Ascii (true, true, false, true, false, true, true,
    false)), (String ((Ascii (true, true, true, true, true, false, true,
    false)), EmptyString)))))))))))))))))))))))))))))); a_kind = ARead;
    a_locks = [] } :: ({ a_fn = (String ((Ascii (false, false, true, false,
    false, false, true, false)), (String ((Ascii (true, false, true, false,
    false, true, true, false)), (String ((Ascii (false, false, false, false,
    true, true, true, false)), (String ((Ascii (false, false, true, true,
    false, true, true, false)), (String ((Ascii (true, true, true, true,
    false, true, true, false)), (String ((Ascii (true, false, false, true,
    true, true, true, false)), (String ((Ascii (true, false, true, false,
    false, true, true, false)), (String ((Ascii (false, true, false, false,
    true, true, true, false)), (String ((Ascii (false, true, false, true,
    true, true, false, false)), (String ((Ascii (false, true, false, true,
    true, true, false, false)), (String ((Ascii (true, true, false, false,
    true, false, true, false)), (String ((Ascii (false, false, true, false,
    true, true, true, false)), (String ((Ascii (true, false, false, false,
    false, true, true, false)), (String ((Ascii (false, true, false, false,
    true, true, true, false)), (String ((Ascii (false, false, true, false,
    true, true, true, false)), (String ((Ascii (true, true, true, false,
    true, false, true, false)), (String ((Ascii (true, true, true, true,
    false, true, true, false)), (String ((Ascii (false, true, false, false,
    true, true, true, false)), (String ((Ascii (true, true, false, true,
    false, true, true, false)),
    EmptyString)))))))))))))))))))))))))))))))))))))); a_var = (String
    ((Ascii (false, false, true, false, false, false, true, false)), (String
    ((Ascii (true, false, true, false, false, true, true, false)), (String
    ((Ascii (false, false, false, false, true, true, true, false)), (String
    ((Ascii (false, false, true, true, false, true, true, false)), (String
    ((Ascii (true, true, true, true, false, true, true, false)), (String
    ((Ascii (true, false, false, true, true, true, true, false)), (String
    ((Ascii (true, false, true, false, false, true, true, false)), (String
    ((Ascii (false, true, false, false, true, true, true, false)), (String
    ((Ascii (false, true, false, true, true, true, false, false)), (String
    ((Ascii (false, true, false, true, true, true, false, false)), (String
    ((Ascii (true, true, true, false, true, true, true, false)), (String
    ((Ascii (true, true, true, true, false, true, true, false)), (String
    ((Ascii (false, true, false, false, true, true, true, false)), (String
    ((Ascii (true, true, false, true, false, true, true, false)), (String
    ((Ascii (true, true, true, true, true, false, true, false)),
    EmptyString)))))))))))))))))))))))))))))); a_kind = AWrite; a_locks =
    [] } :: ({ a_fn = (String ((Ascii (false, false, true, false, false,
    false, true, false)), (String ((Ascii (true, false, true, false, false,
    true, true, false)), (String ((Ascii (false, false, false, false, true,
    true, true, false)), (String ((Ascii (false, false, true, true, false,
    true, true, false)), (String ((Ascii (true, true, true, true, false,
    true, true, false)), (String ((Ascii (true, false, false, true, true,
    true, true, false)), (String ((Ascii (true, false, true, false, false,
    true, true, false)), (String ((Ascii (false, true, false, false, true,
    true, true, false)), (String ((Ascii (false, true, false, true, true,
    true, false, false)), (String ((Ascii (false, true, false, true, true,
    true, false, false)), (String ((Ascii (true, true, false, false, true,
    false, true, false)), (String ((Ascii (false, false, true, false, true,
    true, true, false)), (String ((Ascii (true, false, false, false, false,
    true, true, false)), (String ((Ascii (false, true, false, false, true,
    true, true, false)), (String ((Ascii (false, false, true, false, true,
    true, true, false)), (String ((Ascii (true, true, true, false, true,
    false, true, false)), (String ((Ascii (true, true, true, true, false,
    true, true, false)), (String ((Ascii (false, true, false, false, true,
    true, true, false)), (String ((Ascii (true, true, false, true, false,
    true, true, false)), EmptyString))))))))))))))))))))))))))))))))))))));
    a_var = (String ((Ascii (false, false, true, false, false, false, true,
    false)), (String ((Ascii (true, false, true, false, false, true, true,
    false)), (String ((Ascii (false, false, false, false, true, true, true,
    false)), (String ((Ascii (false, false, true, true, false, true, true,
    false)), (String ((Ascii (true, true, true, true, false, true, true,
    false)), (String ((Ascii (true, false, false, true, true, true, true,
    false)), (String ((Ascii (true, false, true, false, false, true, true,
    false)), (String ((Ascii (false, true, false, false, true, true, true,
    false)), (String ((Ascii (false, true, false, true, true, true, false,
    false)), (String ((Ascii (false, true, false, true, true, true, false,
    false)), (String ((Ascii (false, true, false, false, true, false, true,
    false)), (String ((Ascii (true, false, true, false, true, true, true,
    false)), (String ((Ascii (false, true, true, true, false, true, true,
    false)), EmptyString)))))))))))))))))))))))))); a_kind = ACall; a_locks =
    [] } :: ({ a_fn = (String ((Ascii (false, false, true, false, false,
    false, true, false)), (String ((Ascii (true, false, true, false, false,
    true, true, false)), (String ((Ascii (false, false, false, false, true,
    true, true, false)), (String ((Ascii (false, false, true, true, false,
    true, true, false)), (String ((Ascii (true, true, true, true, false,
    true, true, false)), (String ((Ascii (true, false, false, true, true,
    true, true, false)), (String ((Ascii (true, false, true, false, false,
    true, true, false)), (String ((Ascii (false, true, false, false, true,
    true, true, false)), (String ((Ascii (false, true, false, true, true,
    true, false, false)), (String ((Ascii (false, true, false, true, true,
    true, false, false)), (String ((Ascii (true, true, false, false, true,
    false, true, false)), (String ((Ascii (false, false, true, false, true,
    true, true, false)), (String ((Ascii (true, false, false, false, false,
    true, true, false)), (String ((Ascii (false, true, false, false, true,
    true, true, false)), (String ((Ascii (false, false, true, false, true,
    true, true, false)), (String ((Ascii (true, true, true, false, true,
    false, true, false)), (String ((Ascii (true, true, true, true, false,
    true, true, false)), (String ((Ascii (false, true, false, false, true,
    true, true, false)), (String ((Ascii (true, true, false, true, false,
    true, true, false)), EmptyString))))))))))))))))))))))))))))))))))))));
    a_var = (String ((Ascii (false, false, true, false, false, false, true,
    false)), (String ((Ascii (true, false, true, false, false, true, true,
    false)), (String ((Ascii (false, false, false, false, true, true, true,
    false)), (String ((Ascii (false, false, true, true, false, true, true,
    false)), (String ((Ascii (true, true, true, true, false, true, true,
    false)), (String ((Ascii (true, false, false, true, true, true, true,
    false)), (String ((Ascii (true, false, true, false, false, true, true,
    false)), (String ((Ascii (false, true, false, false, true, true, true,
    false)), (String ((Ascii (false, true, false, true, true, true, false,
    false)), (String ((Ascii (false, true, false, true, true, true, false,
    false)), (String ((Ascii (false, true, false, false, true, true, true,
    false)), (String ((Ascii (true, false, true, false, true, true, true,
    false)), (String ((Ascii (false, true, true, true, false, true, true,
    false)), (String ((Ascii (false, true, true, true, false, true, true,
    false)), (String ((Ascii (true, false, false, true, false, true, true,
    false)), (String ((Ascii (false, true, true, true, false, true, true,
    false)), (String ((Ascii (true, true, true, false, false, true, true,
    false)), (String ((Ascii (true, true, true, true, true, false, true,
    false)), EmptyString)))))))))))))))))))))))))))))))))))); a_kind =
    AWrite; a_locks = ((String ((Ascii (false, false, true, false, false,
    false, true, false)), (String ((Ascii (true, false, true, false, false,
    true, true, false)), (String ((Ascii (false, false, false, false, true,
    true, true, false)), (String ((Ascii (false, false, true, true, false,
    true, true, false)), (String ((Ascii (true, true, true, true, false,
    true, true, false)), (String ((Ascii (true, false, false, true, true,
    true, true, false)), (String ((Ascii (true, false, true, false, false,
    true, true, false)), (String ((Ascii (false, true, false, false, true,
    true, true, false)), (String ((Ascii (false, true, false, true, true,
    true, false, false)), (String ((Ascii (false, true, false, true, true,
    true, false, false)), (String ((Ascii (true, false, true, true, false,
    true, true, false)), (String ((Ascii (true, false, true, false, true,
    true, true, false)), (String ((Ascii (false, false, true, false, true,
    true, true, false)), (String ((Ascii (true, false, true, false, false,
    true, true, false)), (String ((Ascii (false, false, false, true, true,
    true, true, false)), (String ((Ascii (true, true, true, true, true,
    false, true, false)),
    EmptyString)))))))))))))))))))))))))))))))) :: []) } :: ({ a_fn = (String
    ((Ascii (false, false, true, false, false, false, true, false)), (String
    ((Ascii (true, false, true, false, false, true, true, false)), (String
    ((Ascii (false, false, false, false, true, true, true, false)), (String
    ((Ascii (false, false, true, true, false, true, true, false)), (String
    ((Ascii (true, true, true, true, false, true, true, false)), (String
    ((Ascii (true, false, false, true, true, true, true, false)), (String
    ((Ascii (true, false, true, false, false, true, true, false)), (String
    ((Ascii (false, true, false, false, true, true, true, false)), (String
    ((Ascii (false, true, false, true, true, true, false, false)), (String
    ((Ascii (false, true, false, true, true, true, false, false)), (String
    ((Ascii (true, true, false, false, true, false, true, false)), (String
    ((Ascii (false, false, true, false, true, true, true, false)), (String
    ((Ascii (true, false, false, false, false, true, true, false)), (String
    ((Ascii (false, true, false, false, true, true, true, false)), (String
    ((Ascii (false, false, true, false, true, true, true, false)), (String
    ((Ascii (true, true, true, false, true, false, true, false)), (String
    ((Ascii (true, true, true, true, false, true, true, false)), (String
    ((Ascii (false, true, false, false, true, true, true, false)), (String
    ((Ascii (true, true, false, true, false, true, true, false)),
    EmptyString)))))))))))))))))))))))))))))))))))))); a_var = (String
    ((Ascii (false, false, true, false, false, false, true, false)), (String
    ((Ascii (true, false, true, false, false, true, true, false)), (String
    ((Ascii (false, false, false, false, true, true, true, false)), (String
    ((Ascii (false, false, true, true, false, true, true, false)), (String
    ((Ascii (true, true, true, true, false, true, true, false)), (String
    ((Ascii (true, false, false, true, true, true, true, false)), (String
    ((Ascii (true, false, true, false, false, true, true, false)), (String
    ((Ascii (false, true, false, false, true, true, true, false)), (String
    ((Ascii (false, true, false, true, true, true, false, false)), (String
    ((Ascii (false, true, false, true, true, true, false, false)), (String
    ((Ascii (true, true, true, false, true, true, true, false)), (String
    ((Ascii (true, true, true, true, false, true, true, false)), (String
    ((Ascii (false, true, false, false, true, true, true, false)), (String
    ((Ascii (true, true, false, true, false, true, true, false)), (String
    ((Ascii (true, true, true, true, true, false, true, false)),
    EmptyString)))))))))))))))))))))))))))))); a_kind = ARead; a_locks =
    [] } :: ({ a_fn = (String ((Ascii (false, false, true, false, false,
    false, true, false)), (String ((Ascii (true, false, true, false, false,
    true, true, false)), (String ((Ascii (false, false, false, false, true,
    true, true, false)), (String ((Ascii (false, false, true, true, false,
    true, true, false)), (String ((Ascii (true, true, true, true, false,
    true, true, false)), (String ((Ascii (true, false, false, true, true,
    true, true, false)), (String ((Ascii (true, false, true, false, false,
    true, true, false)), (String ((Ascii (false, true, false, false, true,
    true, true, false)), (String ((Ascii (false, true, false, true, true,
    true, false, false)), (String ((Ascii (false, true, false, true, true,
    true, false, false)), (String ((Ascii (true, true, false, false, true,
    false, true, false)), (String ((Ascii (false, false, true, false, true,
    true, true, false)), (String ((Ascii (true, false, false, false, false,
    true, true, false)), (String ((Ascii (false, true, false, false, true,
    true, true, false)), (String ((Ascii (false, false, true, false, true,
    true, true, false)), (String ((Ascii (true, false, true, true, false,
    false, true, false)), (String ((Ascii (true, false, false, false, false,
    true, true, false)), (String ((Ascii (true, false, false, true, false,
    true, true, false)), (String ((Ascii (false, true, true, true, false,
    true, true, false)), (String ((Ascii (false, false, true, false, true,
    true, true, false)), (String ((Ascii (true, false, true, false, false,
    true, true, false)), (String ((Ascii (false, true, true, true, false,
    true, true, false)), (String ((Ascii (true, false, false, false, false,
    true, true, false)), (String ((Ascii (false, true, true, true, false,
    true, true, false)), (String ((Ascii (true, true, false, false, false,
    true, true, false)), (String ((Ascii (true, false, true, false, false,
    true, true, false)),
    EmptyString)))))))))))))))))))))))))))))))))))))))))))))))))))); a_var =
    (String ((Ascii (false, false, true, false, false, false, true, false)),
    (String ((Ascii (true, false, true, false, false, true, true, false)),
    (String ((Ascii (false, false, false, false, true, true, true, false)),
    (String ((Ascii (false, false, true, true, false, true, true, false)),
    (String ((Ascii (true, true, true, true, false, true, true, false)),
    (String ((Ascii (true, false, false, true, true, true, true, false)),
    (String ((Ascii (true, false, true, false, false, true, true, false)),
    (String ((Ascii (false, true, false, false, true, true, true, false)),
    (String ((Ascii (false, true, false, true, true, true, false, false)),
    (String ((Ascii (false, true, false, true, true, true, false, false)),
    (String ((Ascii (true, true, false, false, true, false, true, false)),
    (String ((Ascii (false, false, true, false, true, true, true, false)),
    (String ((Ascii (true, false, false, false, false, true, true, false)),
    (String ((Ascii (false, true, false, false, true, true, true, false)),
    (String ((Ascii (false, false, true, false, true, true, true, false)),
    (String ((Ascii (true, true, true, false, true, false, true, false)),
    (String ((Ascii (true, true, true, true, false, true, true, false)),
    (String ((Ascii (false, true, false, false, true, true, true, false)),
    (String ((Ascii (true, true, false, true, false, true, true, false)),
    EmptyString)))))))))))))))))))))))))))))))))))))); a_kind = ACall;
    a_locks = [] } :: ({ a_fn = (String ((Ascii (false, false, true, false,
    false, false, true, false)), (String ((Ascii (true, false, true, false,
    false, true, true, false)), (String ((Ascii (false, false, false, false,
    true, true, true, false)), (String ((Ascii (false, false, true, true,
    false, true, true, false)), (String ((Ascii (true, true, true, true,
    false, true, true, false)), (String ((Ascii (true, false, false, true,
    true, true, true, false)), (String ((Ascii (true, false, true, false,
    false, true, true, false)), (String ((Ascii (false, true, false, false,
    true, true, true, false)), (String ((Ascii (false, true, false, true,
    true, true, false, false)), (String ((Ascii (false, true, false, true,
    true, true, false, false)), (String ((Ascii (true, false, false, true,
    false, false, true, false)), (String ((Ascii (true, true, false, false,
    true, true, true, false)), (String ((Ascii (true, true, true, false,
    true, false, true, false)), (String ((Ascii (true, true, true, true,
    false, true, true, false)), (String ((Ascii (false, true, false, false,
    true, true, true, false)), (String ((Ascii (true, true, false, true,
    false, true, true, false)), (String ((Ascii (true, false, false, true,
    false, true, true, false)), (String ((Ascii (false, true, true, true,
    false, true, true, false)), (String ((Ascii (true, true, true, false,
    false, true, true, false)),
    EmptyString)))))))))))))))))))))))))))))))))))))); a_var = (String
    ((Ascii (false, false, true, false, false, false, true, false)), (String
    ((Ascii (true, false, true, false, false, true, true, false)), (String
    ((Ascii (false, false, false, false, true, true, true, false)), (String
    ((Ascii (false, false, true, true, false, true, true, false)), (String
    ((Ascii (true, true, true, true, false, true, true, false)), (String
    ((Ascii (true, false, false, true, true, true, true, false)), (String
    ((Ascii (true, false, true, false, false, true, true, false)), (String
    ((Ascii (false, true, false, false, true, true, true, false)), (String
    ((Ascii (false, true, false, true, true, true, false, false)), (String
    ((Ascii (false, true, false, true, true, true, false, false)), (String
    ((Ascii (true, true, true, false, true, true, true, false)), (String
    ((Ascii (true, true, true, true, false, true, true, false)), (String
    ((Ascii (false, true, false, false, true, true, true, false)), (String
    ((Ascii (true, true, false, true, false, true, true, false)), (String
    ((Ascii (true, true, true, true, true, false, true, false)),
    EmptyString)))))))))))))))))))))))))))))); a_kind = ARead; a_locks =
    [] } :: ({ a_fn = (String ((Ascii (false, false, true, false, false,
    false, true, false)), (String ((Ascii (true, false, true, false, false,
    true, true, false)), (String ((Ascii (false, false, false, false, true,
    true, true, false)), (String ((Ascii (false, false, true, true, false,
    true, true, false)), (String ((Ascii (true, true, true, true, false,
    true, true, false)), (String ((Ascii (true, false, false, true, true,
    true, true, false)), (String ((Ascii (true, false, true, false, false,
    true, true, false)), (String ((Ascii (false, true, false, false, true,
    true, true, false)), (String ((Ascii (false, true, false, true, true,
    true, false, false)), (String ((Ascii (false, true, false, true, true,
    true, false, false)), (String ((Ascii (true, false, false, true, false,
    false, true, false)), (String ((Ascii (true, true, false, false, true,
    true, true, false)), (String ((Ascii (true, true, true, false, true,
    false, true, false)), (String ((Ascii (true, true, true, true, false,
    true, true, false)), (String ((Ascii (false, true, false, false, true,
    true, true, false)), (String ((Ascii (true, true, false, true, false,
    true, true, false)), (String ((Ascii (true, false, false, true, false,
    true, true, false)), (String ((Ascii (false, true, true, true, false,
    true, true, false)), (String ((Ascii (true, true, true, false, false,
    true, true, false)), EmptyString))))))))))))))))))))))))))))))))))))));
    a_var = (String ((Ascii (false, false, true, false, false, false, true,
    false)), (String ((Ascii (true, false, true, false, false, true, true,
    false)), (String ((Ascii (false, false, false, false, true, true, true,
    false)), (String ((Ascii (false, false, true, true, false, true, true,
    false)), (String ((Ascii (true, true, true, true, false, true, true,
    false)), (String ((Ascii (true, false, false, true, true, true, true,
    false)), (String ((Ascii (true, false, true, false, false, true, true,
    false)), (String ((Ascii (false, true, false, false, true, true, true,
    false)), (String ((Ascii (false, true, false, true, true, true, false,
    false)), (String ((Ascii (false, true, false, true, true, true, false,
    false)), (String ((Ascii (true, true, true, false, true, true, true,
    false)), (String ((Ascii (true, true, true, true, false, true, true,
    false)), (String ((Ascii (false, true, false, false, true, true, true,
    false)), (String ((Ascii (true, true, false, true, false, true, true,
    false)), (String ((Ascii (true, true, true, true, true, false, true,
    false)), EmptyString)))))))))))))))))))))))))))))); a_kind = ARead;
    a_locks = [] } :: ({ a_fn = (String ((Ascii (false, false, true, false,
    false, false, true, false)), (String ((Ascii (true, false, true, false,
    false, true, true, false)), (String ((Ascii (false, false, false, false,
    true, true, true, false)), (String ((Ascii (false, false, true, true,
    false, true, true, false)), (String ((Ascii (true, true, true, true,
    false, true, true, false)), (String ((Ascii (true, false, false, true,
    true, true, true, false)), (String ((Ascii (true, false, true, false,
    false, true, true, false)), (String ((Ascii (false, true, false, false,
    true, true, true, false)), (String ((Ascii (false, true, false, true,
    true, true, false, false)), (String ((Ascii (false, true, false, true,
    true, true, false, false)), (String ((Ascii (true, false, false, true,
    false, false, true, false)), (String ((Ascii (true, true, false, false,
    true, true, true, false)), (String ((Ascii (true, false, true, true,
    false, false, true, false)), (String ((Ascii (true, false, false, false,
    false, true, true, false)), (String ((Ascii (true, false, false, true,
    false, true, true, false)), (String ((Ascii (false, true, true, true,
    false, true, true, false)), (String ((Ascii (false, false, true, false,
    true, true, true, false)), (String ((Ascii (true, false, true, false,
    false, true, true, false)), (String ((Ascii (false, true, true, true,
    false, true, true, false)), (String ((Ascii (true, false, false, false,
    false, true, true, false)), (String ((Ascii (false, true, true, true,
    false, true, true, false)), (String ((Ascii (true, true, false, false,
    false, true, true, false)), (String ((Ascii (true, false, true, false,
    false, true, true, false)), (String ((Ascii (true, false, true, true,
    false, false, true, false)), (String ((Ascii (true, true, true, true,
    false, true, true, false)), (String ((Ascii (false, false, true, false,
    false, true, true, false)), (String ((Ascii (true, false, true, false,
    false, true, true, false)),
    EmptyString))))))))))))))))))))))))))))))))))))))))))))))))))))));
    a_var = (String ((Ascii (false, false, true, false, false, false, true,
    false)), (String ((Ascii (true, false, true, false, false, true, true,
    false)), (String ((Ascii (false, false, false, false, true, true, true,
    false)), (String ((Ascii (false, false, true, true, false, true, true,
    false)), (String ((Ascii (true, true, true, true, false, true, true,
    false)), (String ((Ascii (true, false, false, true, true, true, true,
    false)), (String ((Ascii (true, false, true, false, false, true, true,
    false)), (String ((Ascii (false, true, false, false, true, true, true,
    false)), (String ((Ascii (false, true, false, true, true, true, false,
    false)), (String ((Ascii (false, true, false, true, true, true, false,
    false)), (String ((Ascii (true, false, true, true, false, true, true,
    false)), (String ((Ascii (true, false, false, false, false, true, true,
    false)), (String ((Ascii (true, false, false, true, false, true, true,
    false)), (String ((Ascii (false, true, true, true, false, true, true,
    false)), (String ((Ascii (false, false, true, false, true, true, true,
    false)), (String ((Ascii (true, false, true, false, false, true, true,
    false)), (String ((Ascii (false, true, true, true, false, true, true,
    false)), (String ((Ascii (true, false, false, false, false, true, true,
    false)), (String ((Ascii (false, true, true, true, false, true, true,
    false)), (String ((Ascii (true, true, false, false, false, true, true,
    false)), (String ((Ascii (true, false, true, false, false, true, true,
    false)), (String ((Ascii (true, true, true, true, true, false, true,
    false)), (String ((Ascii (true, false, true, true, false, true, true,
    false)), (String ((Ascii (true, true, true, true, false, true, true,
    false)), (String ((Ascii (false, false, true, false, false, true, true,
    false)), (String ((Ascii (true, false, true, false, false, true, true,
    false)), (String ((Ascii (true, true, true, true, true, false, true,
    false)),
    EmptyString))))))))))))))))))))))))))))))))))))))))))))))))))))));
    a_kind = ARead; a_locks = [] } :: ({ a_fn = (String ((Ascii (false,
    false, true, false, false, false, true, false)), (String ((Ascii (true,
    false, true, false, false, true, true, false)), (String ((Ascii (false,
    false, false, false, true, true, true, false)), (String ((Ascii (false,
    false, true, true, false, true, true, false)), (String ((Ascii (true,
    true, true, true, false, true, true, false)), (String ((Ascii (true,
    false, false, true, true, true, true, false)), (String ((Ascii (true,
    false, true, false, false, true, true, false)), (String ((Ascii (false,
    true, false, false, true, true, true, false)), (String ((Ascii (false,
    true, false, true, true, true, false, false)), (String ((Ascii (false,
    true, false, true, true, true, false, false)), (String ((Ascii (true,
    false, false, true, false, false, true, false)), (String ((Ascii (true,
    true, false, false, true, true, true, false)), (String ((Ascii (true,
    false, true, true, false, false, true, false)), (String ((Ascii (true,
    false, false, false, false, true, true, false)), (String ((Ascii (true,
    false, false, true, false, true, true, false)), (String ((Ascii (false,
    true, true, true, false, true, true, false)), (String ((Ascii (false,
    false, true, false, true, true, true, false)), (String ((Ascii (true,
    false, true, false, false, true, true, false)), (String ((Ascii (false,
    true, true, true, false, true, true, false)), (String ((Ascii (true,
    false, false, false, false, true, true, false)), (String ((Ascii (false,
    true, true, true, false, true, true, false)), (String ((Ascii (true,
    true, false, false, false, true, true, false)), (String ((Ascii (true,
    false, true, false, false, true, true, false)), (String ((Ascii (true,
    false, true, true, false, false, true, false)), (String ((Ascii (true,
    true, true, true, false, true, true, false)), (String ((Ascii (false,
    false, true, false, false, true, true, false)), (String ((Ascii (true,
    false, true, false, false, true, true, false)),
    EmptyString))))))))))))))))))))))))))))))))))))))))))))))))))))));
    a_var = (String ((Ascii (false, false, true, false, false, false, true,
    false)), (String ((Ascii (true, false, true, false, false, true, true,
    false)), (String ((Ascii (false, false, false, false, true, true, true,
    false)), (String ((Ascii (false, false, true, true, false, true, true,
    false)), (String ((Ascii (true, true, true, true, false, true, true,
    false)), (String ((Ascii (true, false, false, true, true, true, true,
    false)), (String ((Ascii (true, false, true, false, false, true, true,
    false)), (String ((Ascii (false, true, false, false, true, true, true,
    false)), (String ((Ascii (false, true, false, true, true, true, false,
    false)), (String ((Ascii (false, true, false, true, true, true, false,
    false)), (String ((Ascii (true, false, false, true, false, false, true,
    false)), (String ((Ascii (true, true, false, false, true, true, true,
    false)), (String ((Ascii (true, true, true, false, true, false, true,
    false)), (String ((Ascii (true, true, true, true, false, true, true,
    false)), (String ((Ascii (false, true, false, false, true, true, true,
    false)), (String ((Ascii (true, true, false, true, false, true, true,
    false)), (String ((Ascii (true, false, false, true, false, true, true,
    false)), (String ((Ascii (false, true, true, true, false, true, true,
    false)), (String ((Ascii (true, true, true, false, false, true, true,
    false)), EmptyString)))))))))))))))))))))))))))))))))))))); a_kind =
    ACall; a_locks = [] } :: ({ a_fn = (String ((Ascii (false, false, true,
    false, false, false, true, false)), (String ((Ascii (true, false, true,
    false, false, true, true, false)), (String ((Ascii (false, false, false,
    false, true, true, true, false)), (String ((Ascii (false, false, true,
    true, false, true, true, false)), (String ((Ascii (true, true, true,
    true, false, true, true, false)), (String ((Ascii (true, false, false,
    true, true, true, true, false)), (String ((Ascii (true, false, true,
    false, false, true, true, false)), (String ((Ascii (false, true, false,
    false, true, true, true, false)), (String ((Ascii (false, true, false,
    true, true, true, false, false)), (String ((Ascii (false, true, false,
    true, true, true, false, false)), (String ((Ascii (false, true, false,
    true, false, false, true, false)), (String ((Ascii (true, true, true,
    true, false, true, true, false)), (String ((Ascii (true, false, false,
    true, false, true, true, false)), (String ((Ascii (false, true, true,
    true, false, true, true, false)), (String ((Ascii (true, true, true,
    false, true, false, true, false)), (String ((Ascii (true, true, true,
    true, false, true, true, false)), (String ((Ascii (false, true, false,
    false, true, true, true, false)), (String ((Ascii (true, true, false,
    true, false, true, true, false)), (String ((Ascii (false, false, true,
    false, true, false, true, false)), (String ((Ascii (false, false, false,
    true, false, true, true, false)), (String ((Ascii (false, true, false,
    false, true, true, true, false)), (String ((Ascii (true, false, true,
    false, false, true, true, false)), (String ((Ascii (true, false, false,
    false, false, true, true, false)), (String ((Ascii (false, false, true,
    false, false, true, true, false)),
    EmptyString)))))))))))))))))))))))))))))))))))))))))))))))); a_var =
    (String ((Ascii (false, false, true, false, false, false, true, false)),
    (String ((Ascii (true, false, true, false, false, true, true, false)),
    (String ((Ascii (false, false, false, false, true, true, true, false)),
    (String ((Ascii (false, false, true, true, false, true, true, false)),
    (String ((Ascii (true, true, true, true, false, true, true, false)),
    (String ((Ascii (true, false, false, true, true, true, true, false)),
    (String ((Ascii (true, false, true, false, false, true, true, false)),
    (String ((Ascii (false, true, false, false, true, true, true, false)),
    (String ((Ascii (false, true, false, true, true, true, false, false)),
    (String ((Ascii (false, true, false, true, true, true, false, false)),
    (String ((Ascii (true, true, true, false, true, true, true, false)),
    (String ((Ascii (true, true, true, true, false, true, true, false)),
    (String ((Ascii (false, true, false, false, true, true, true, false)),
    (String ((Ascii (true, true, false, true, false, true, true, false)),
    (String ((Ascii (true, true, true, true, true, false, true, false)),
    EmptyString)))))))))))))))))))))))))))))); a_kind = ARead; a_locks =
    [] } :: ({ a_fn = (String ((Ascii (false, false, true, false, false,
    false, true, false)), (String ((Ascii (true, false, true, false, false,
    true, true, false)), (String ((Ascii (false, false, false, false, true,
    true, true, false)), (String ((Ascii (false, false, true, true, false,
    true, true, false)), (String ((Ascii (true, true, true, true, false,
    true, true, false)), (String ((Ascii (true, false, false, true, true,
    true, true, false)), (String ((Ascii (true, false, true, false, false,
    true, true, false)), (String ((Ascii (false, true, false, false, true,
    true, true, false)), (String ((Ascii (false, true, false, true, true,
    true, false, false)), (String ((Ascii (false, true, false, true, true,
    true, false, false)), (String ((Ascii (false, true, false, true, false,
    false, true, false)), (String ((Ascii (true, true, true, true, false,
    true, true, false)), (String ((Ascii (true, false, false, true, false,
    true, true, false)), (String ((Ascii (false, true, true, true, false,
    true, true, false)), (String ((Ascii (true, true, true, false, true,
    false, true, false)), (String ((Ascii (true, true, true, true, false,
    true, true, false)), (String ((Ascii (false, true, false, false, true,
    true, true, false)), (String ((Ascii (true, true, false, true, false,
    true, true, false)), (String ((Ascii (false, false, true, false, true,
    false, true, false)), (String ((Ascii (false, false, false, true, false,
    true, true, false)), (String ((Ascii (false, true, false, false, true,
    true, true, false)), (String ((Ascii (true, false, true, false, false,
    true, true, false)), (String ((Ascii (true, false, false, false, false,
    true, true, false)), (String ((Ascii (false, false, true, false, false,
    true, true, false)),
    EmptyString)))))))))))))))))))))))))))))))))))))))))))))))); a_var =
    (String ((Ascii (false, false, true, false, false, false, true, false)),
    (String ((Ascii (true, false, true, false, false, true, true, false)),
    (String ((Ascii (false, false, false, false, true, true, true, false)),
    (String ((Ascii (false, false, true, true, false, true, true, false)),
    (String ((Ascii (true, true, true, true, false, true, true, false)),
    (String ((Ascii (true, false, false, true, true, true, true, false)),
    (String ((Ascii (true, false, true, false, false, true, true, false)),
    (String ((Ascii (false, true, false, false, true, true, true, false)),
    (String ((Ascii (false, true, false, true, true, true, false, false)),
    (String ((Ascii (false, true, false, true, true, true, false, false)),
    (String ((Ascii (true, true, true, false, true, true, true, false)),
    (String ((Ascii (true, true, true, true, false, true, true, false)),
    (String ((Ascii (false, true, false, false, true, true, true, false)),
    (String ((Ascii (true, true, false, true, false, true, true, false)),
    (String ((Ascii (true, true, true, true, true, false, true, false)),
    EmptyString)))))))))))))))))))))))))))))); a_kind = AWrite; a_locks =
    [] } :: ({ a_fn = (String ((Ascii (false, false, true, false, false,
    false, true, false)), (String ((Ascii (true, false, true, false, false,
    true, true, false)), (String ((Ascii (false, false, false, false, true,
    true, true, false)), (String ((Ascii (false, false, true, true, false,
    true, true, false)), (String ((Ascii (true, true, true, true, false,
    true, true, false)), (String ((Ascii (true, false, false, true, true,
    true, true, false)), (String ((Ascii (true, false, true, false, false,
    true, true, false)), (String ((Ascii (false, true, false, false, true,
    true, true, false)), (String ((Ascii (false, true, false, true, true,
    true, false, false)), (String ((Ascii (false, true, false, true, true,
    true, false, false)), (String ((Ascii (false, true, false, true, false,
    false, true, false)), (String ((Ascii (true, true, true, true, false,
    true, true, false)), (String ((Ascii (true, false, false, true, false,
    true, true, false)), (String ((Ascii (false, true, true, true, false,
    true, true, false)), (String ((Ascii (true, false, true, true, false,
    false, true, false)), (String ((Ascii (true, false, false, false, false,
    true, true, false)), (String ((Ascii (true, false, false, true, false,
    true, true, false)), (String ((Ascii (false, true, true, true, false,
    true, true, false)), (String ((Ascii (false, false, true, false, true,
    true, true, false)), (String ((Ascii (true, false, true, false, false,
    true, true, false)), (String ((Ascii (false, true, true, true, false,
    true, true, false)), (String ((Ascii (true, false, false, false, false,
    true, true, false)), (String ((Ascii (false, true, true, true, false,
    true, true, false)), (String ((Ascii (true, true, false, false, false,
    true, true, false)), (String ((Ascii (true, false, true, false, false,
    true, true, false)), (String ((Ascii (false, false, true, false, true,
    false, true, false)), (String ((Ascii (false, false, false, true, false,
    true, true, false)), (String ((Ascii (false, true, false, false, true,
    true, true, false)), (String ((Ascii (true, false, true, false, false,
    true, true, false)), (String ((Ascii (true, false, false, false, false,
    true, true, false)), (String ((Ascii (false, false, true, false, false,
    true, true, false)),
    EmptyString))))))))))))))))))))))))))))))))))))))))))))))))))))))))))))));
    a_var = (String ((Ascii (false, false, true, false, false, false, true,
    false)), (String ((Ascii (true, false, true, false, false, true, true,
    false)), (String ((Ascii (false, false, false, false, true, true, true,
    false)), (String ((Ascii (false, false, true, true, false, true, true,
    false)), (String ((Ascii (true, true, true, true, false, true, true,
    false)), (String ((Ascii (true, false, false, true, true, true, true,
    false)), (String ((Ascii (true, false, true, false, false, true, true,
    false)), (String ((Ascii (false, true, false, false, true, true, true,
    false)), (String ((Ascii (false, true, false, true, true, true, false,
    false)), (String ((Ascii (false, true, false, true, true, true, false,
    false)), (String ((Ascii (false, true, false, true, false, false, true,
    false)), (String ((Ascii (true, true, true, true, false, true, true,
    false)), (String ((Ascii (true, false, false, true, false, true, true,
    false)), (String ((Ascii (false, true, true, true, false, true, true,
    false)), (String ((Ascii (true, true, true, false, true, false, true,
    false)), (String ((Ascii (true, true, true, true, false, true, true,
    false)), (String ((Ascii (false, true, false, false, true, true, true,
    false)), (String ((Ascii (true, true, false, true, false, true, true,
    false)), (String ((Ascii (false, false, true, false, true, false, true,
    false)), (String ((Ascii (false, false, false, true, false, true, true,
    false)), (String ((Ascii (false, true, false, false, true, true, true,
    false)), (String ((Ascii (true, false, true, false, false, true, true,
    false)), (String ((Ascii (true, false, false, false, false, true, true,
    false)), (String ((Ascii (false, false, true, false, false, true, true,
    false)), EmptyString))))))))))))))))))))))))))))))))))))))))))))))));
    a_kind = ACall; a_locks = [] } :: ({ a_fn = (String ((Ascii (false,
    false, true, false, false, false, true, false)), (String ((Ascii (true,
    false, true, false, false, true, true, false)), (String ((Ascii (false,
    false, false, false, true, true, true, false)), (String ((Ascii (false,
    false, true, true, false, true, true, false)), (String ((Ascii (true,
    true, true, true, false, true, true, false)), (String ((Ascii (true,
    false, false, true, true, true, true, false)), (String ((Ascii (true,
    false, true, false, false, true, true, false)), (String ((Ascii (false,
    true, false, false, true, true, true, false)), (String ((Ascii (false,
    true, false, true, true, true, false, false)), (String ((Ascii (false,
    true, false, true, true, true, false, false)), (String ((Ascii (true,
    false, true, false, true, true, true, false)), (String ((Ascii (true,
    true, false, false, true, true, true, false)), (String ((Ascii (true,
    false, true, false, false, true, true, false)), (String ((Ascii (false,
    true, false, false, true, true, true, false)), (String ((Ascii (true,
    true, true, true, true, false, true, false)), (String ((Ascii (false,
    false, true, false, false, true, true, false)), (String ((Ascii (true,
    false, false, false, false, true, true, false)), (String ((Ascii (false,
    false, true, false, true, true, true, false)), (String ((Ascii (true,
    false, false, false, false, true, true, false)), (String ((Ascii (true,
    true, true, true, true, false, true, false)), (String ((Ascii (true,
    true, false, false, true, true, true, false)), (String ((Ascii (true,
    false, false, true, true, true, true, false)), (String ((Ascii (false,
    true, true, true, false, true, true, false)), (String ((Ascii (true,
    true, false, false, false, true, true, false)), (String ((Ascii (true,
    true, true, true, true, false, true, false)), (String ((Ascii (false,
    false, true, false, false, true, true, false)), (String ((Ascii (true,
    false, false, true, false, true, true, false)), (String ((Ascii (false,
    true, false, false, true, true, true, false)),
    EmptyString))))))))))))))))))))))))))))))))))))))))))))))))))))))));
    a_var = (String ((Ascii (false, false, true, false, false, false, true,
    false)), (String ((Ascii (true, false, true, false, false, true, true,
    false)), (String ((Ascii (false, false, false, false, true, true, true,
    false)), (String ((Ascii (false, false, true, true, false, true, true,
    false)), (String ((Ascii (true, true, true, true, false, true, true,
    false)), (String ((Ascii (true, false, false, true, true, true, true,
    false)), (String ((Ascii (true, false, true, false, false, true, true,
    false)), (String ((Ascii (false, true, false, false, true, true, true,
    false)), (String ((Ascii (false, true, false, true, true, true, false,
    false)), (String ((Ascii (false, true, false, true, true, true, false,
    false)), (String ((Ascii (true, true, false, false, true, true, true,
    false)), (String ((Ascii (true, false, false, true, true, true, true,
    false)), (String ((Ascii (false, true, true, true, false, true, true,
    false)), (String ((Ascii (true, true, false, false, false, true, true,
    false)), (String ((Ascii (true, true, true, true, true, false, true,
    false)), (String ((Ascii (false, false, true, false, false, true, true,
    false)), (String ((Ascii (true, false, false, true, false, true, true,
    false)), (String ((Ascii (false, true, false, false, true, true, true,
    false)), EmptyString)))))))))))))))))))))))))))))))))))); a_kind = ARead;
    a_locks = [] } :: ({ a_fn = (String ((Ascii (false, false, true, false,
    false, false, true, false)), (String ((Ascii (true, false, true, false,
    false, true, true, false)), (String ((Ascii (false, false, false, false,
    true, true, true, false)), (String ((Ascii (false, false, true, true,
    false, true, true, false)), (String ((Ascii (true, true, true, true,
    false, true, true, false)), (String ((Ascii (true, false, false, true,
    true, true, true, false)), (String ((Ascii (true, false, true, false,
    false, true, true, false)), (String ((Ascii (false, true, false, false,
    true, true, true, false)), (String ((Ascii (false, true, false, true,
    true, true, false, false)), (String ((Ascii (false, true, false, true,
    true, true, false, false)), (String ((Ascii (true, false, true, false,
    true, true, true, false)), (String ((Ascii (true, true, false, false,
    true, true, true, false)), (String ((Ascii (true, false, true, false,
    false, true, true, false)), (String ((Ascii (false, true, false, false,
    true, true, true, false)), (String ((Ascii (true, true, true, true, true,
    false, true, false)), (String ((Ascii (false, false, true, false, false,
    true, true, false)), (String ((Ascii (true, false, false, false, false,
    true, true, false)), (String ((Ascii (false, false, true, false, true,
    true, true, false)), (String ((Ascii (true, false, false, false, false,
    true, true, false)), (String ((Ascii (true, true, true, true, true,
    false, true, false)), (String ((Ascii (true, true, false, false, true,
    true, true, false)), (String ((Ascii (true, false, false, true, true,
    true, true, false)), (String ((Ascii (false, true, true, true, false,
    true, true, false)), (String ((Ascii (true, true, false, false, false,
    true, true, false)), (String ((Ascii (true, true, true, true, true,
    false, true, false)), (String ((Ascii (false, false, true, false, false,
    true, true, false)), (String ((Ascii (true, false, false, true, false,
    true, true, false)), (String ((Ascii (false, true, false, false, true,
    true, true, false)),
    EmptyString))))))))))))))))))))))))))))))))))))))))))))))))))))))));
    a_var = (String ((Ascii (false, false, true, false, false, false, true,
    false)), (String ((Ascii (true, false, true, false, false, true, true,
    false)), (String ((Ascii (false, false, false, false, true, true, true,
    false)), (String ((Ascii (false, false, true, true, false, true, true,
    false)), (String ((Ascii (true, true, true, true, false, true, true,
    false)), (String ((Ascii (true, false, false, true, true, true, true,
    false)), (String ((Ascii (true, false, true, false, false, true, true,
    false)), (String ((Ascii (false, true, false, false, true, true, true,
    false)), (String ((Ascii (false, true, false, true, true, true, false,
    false)), (String ((Ascii (false, true, false, true, true, true, false,
    false)), (String ((Ascii (true, false, true, false, true, true, true,
    false)), (String ((Ascii (true, true, false, false, true, true, true,
    false)), (String ((Ascii (true, false, true, false, false, true, true,
    false)), (String ((Ascii (false, true, false, false, true, true, true,
    false)), (String ((Ascii (true, true, true, true, true, false, true,
    false)), (String ((Ascii (true, false, false, true, false, true, true,
    false)), (String ((Ascii (false, false, true, false, false, true, true,
    false)), EmptyString)))))))))))))))))))))))))))))))))); a_kind = ARead;
    a_locks = [] } :: ({ a_fn = (String ((Ascii (true, true, false, false,
    true, false, true, false)), (String ((Ascii (true, false, true, false,
    false, true, true, false)), (String ((Ascii (false, true, false, false,
    true, true, true, false)), (String ((Ascii (false, true, true, false,
    true, true, true, false)), (String ((Ascii (true, false, false, true,
    false, true, true, false)), (String ((Ascii (true, true, false, false,
    false, true, true, false)), (String ((Ascii (true, false, true, false,
    false, true, true, false)), (String ((Ascii (false, true, false, true,
    true, true, false, false)), (String ((Ascii (false, true, false, true,
    true, true, false, false)), (String ((Ascii (false, false, true, false,
    false, true, true, false)), (String ((Ascii (true, false, true, false,
    false, true, true, false)), (String ((Ascii (false, false, false, false,
    true, true, true, false)), (String ((Ascii (false, false, true, true,
    false, true, true, false)), (String ((Ascii (true, true, true, true,
    false, true, true, false)), (String ((Ascii (true, false, false, true,
    true, true, true, false)), (String ((Ascii (true, false, true, false,
    false, true, true, false)), (String ((Ascii (false, true, false, false,
    true, true, true, false)), EmptyString))))))))))))))))))))))))))))))))));
    a_var = (String ((Ascii (true, true, false, false, true, false, true,
    false)), (String ((Ascii (true, false, true, false, false, true, true,
    false)), (String ((Ascii (false, true, false, false, true, true, true,
    false)), (String ((Ascii (false, true, true, false, true, true, true,
    false)), (String ((Ascii (true, false, false, true, false, true, true,
    false)), (String ((Ascii (true, true, false, false, false, true, true,
    false)), (String ((Ascii (true, false, true, false, false, true, true,
    false)), (String ((Ascii (false, true, false, true, true, true, false,
    false)), (String ((Ascii (false, true, false, true, true, true, false,
    false)), (String ((Ascii (false, false, true, false, false, true, true,
    false)), (String ((Ascii (true, false, true, false, false, true, true,
    false)), (String ((Ascii (false, false, false, false, true, true, true,
    false)), (String ((Ascii (false, false, true, true, false, true, true,
    false)), (String ((Ascii (true, true, true, true, false, true, true,
    false)), (String ((Ascii (true, false, false, true, true, true, true,
    false)), (String ((Ascii (true, false, true, false, false, true, true,
    false)), (String ((Ascii (false, true, false, false, true, true, true,
    false)), (String ((Ascii (true, true, true, true, true, false, true,
    false)), EmptyString)))))))))))))))))))))))))))))))))))); a_kind = ARead;
    a_locks = [] } :: ({ a_fn = (String ((Ascii (true, true, false, false,
    true, false, true, false)), (String ((Ascii (true, false, true, false,
    false, true, true, false)), (String ((Ascii (false, true, false, false,
    true, true, true, false)), (String ((Ascii (false, true, true, false,
    true, true, true, false)), (String ((Ascii (true, false, false, true,
    false, true, true, false)), (String ((Ascii (true, true, false, false,
    false, true, true, false)), (String ((Ascii (true, false, true, false,
    false, true, true, false)), (String ((Ascii (false, true, false, true,
    true, true, false, false)), (String ((Ascii (false, true, false, true,
    true, true, false, false)), (String ((Ascii (false, false, true, false,
    false, true, true, false)), (String ((Ascii (true, false, false, true,
    false, true, true, false)), (String ((Ascii (true, true, false, false,
    true, true, true, false)), (String ((Ascii (true, false, false, false,
    false, true, true, false)), (String ((Ascii (false, true, false, false,
    false, true, true, false)), (String ((Ascii (false, false, true, true,
    false, true, true, false)), (String ((Ascii (true, false, true, false,
    false, true, true, false)), (String ((Ascii (false, false, true, false,
    false, true, true, false)),
    EmptyString)))))))))))))))))))))))))))))))))); a_var = (String ((Ascii
    (true, true, false, false, true, false, true, false)), (String ((Ascii
    (true, false, true, false, false, true, true, false)), (String ((Ascii
    (false, true, false, false, true, true, true, false)), (String ((Ascii
    (false, true, true, false, true, true, true, false)), (String ((Ascii
    (true, false, false, true, false, true, true, false)), (String ((Ascii
    (true, true, false, false, false, true, true, false)), (String ((Ascii
    (true, false, true, false, false, true, true, false)), (String ((Ascii
    (false, true, false, true, true, true, false, false)), (String ((Ascii
    (false, true, false, true, true, true, false, false)), (String ((Ascii
    (true, true, false, false, true, true, true, false)), (String ((Ascii
    (false, false, true, false, true, true, true, false)), (String ((Ascii
    (true, false, false, false, false, true, true, false)), (String ((Ascii
    (false, true, false, false, true, true, true, false)), (String ((Ascii
    (false, false, true, false, true, true, true, false)), (String ((Ascii
    (true, false, true, false, false, true, true, false)), (String ((Ascii
    (false, false, true, false, false, true, true, false)), (String ((Ascii
    (true, true, true, true, true, false, true, false)),
    EmptyString)))))))))))))))))))))))))))))))))); a_kind = ARead; a_locks =
    [] } :: ({ a_fn = (String ((Ascii (true, true, false, false, true, false,
    true, false)), (String ((Ascii (true, false, true, false, false, true,
    true, false)), (String ((Ascii (false, true, false, false, true, true,
    true, false)), (String ((Ascii (false, true, true, false, true, true,
    true, false)), (String ((Ascii (true, false, false, true, false, true,
    true, false)), (String ((Ascii (true, true, false, false, false, true,
    true, false)), (String ((Ascii (true, false, true, false, false, true,
    true, false)), (String ((Ascii (false, true, false, true, true, true,
    false, false)), (String ((Ascii (false, true, false, true, true, true,
    false, false)), (String ((Ascii (false, false, true, false, false, true,
    true, false)), (String ((Ascii (true, false, false, true, false, true,
    true, false)), (String ((Ascii (true, true, false, false, true, true,
    true, false)), (String ((Ascii (true, false, false, false, false, true,
    true, false)), (String ((Ascii (false, true, false, false, false, true,
    true, false)), (String ((Ascii (false, false, true, true, false, true,
    true, false)), (String ((Ascii (true, false, true, false, false, true,
    true, false)), (String ((Ascii (false, false, true, false, false, true,
    true, false)), EmptyString)))))))))))))))))))))))))))))))))); a_var =
    (String ((Ascii (false, false, true, false, false, false, true, false)),
    (String ((Ascii (true, false, true, false, false, true, true, false)),
    (String ((Ascii (false, false, false, false, true, true, true, false)),
    (String ((Ascii (false, false, true, true, false, true, true, false)),
    (String ((Ascii (true, true, true, true, false, true, true, false)),
    (String ((Ascii (true, false, false, true, true, true, true, false)),
    (String ((Ascii (true, false, true, false, false, true, true, false)),
    (String ((Ascii (false, true, false, false, true, true, true, false)),
    (String ((Ascii (false, true, false, true, true, true, false, false)),
    (String ((Ascii (false, true, false, true, true, true, false, false)),
    (String ((Ascii (true, false, false, true, false, false, true, false)),
    (String ((Ascii (true, true, false, false, true, true, true, false)),
    (String ((Ascii (true, false, true, true, false, false, true, false)),
    (String ((Ascii (true, false, false, false, false, true, true, false)),
    (String ((Ascii (true, false, false, true, false, true, true, false)),
    (String ((Ascii (false, true, true, true, false, true, true, false)),
    (String ((Ascii (false, false, true, false, true, true, true, false)),
    (String ((Ascii (true, false, true, false, false, true, true, false)),
    (String ((Ascii (false, true, true, true, false, true, true, false)),
    (String ((Ascii (true, false, false, false, false, true, true, false)),
    (String ((Ascii (false, true, true, true, false, true, true, false)),
    (String ((Ascii (true, true, false, false, false, true, true, false)),
    (String ((Ascii (true, false, true, false, false, true, true, false)),
    (String ((Ascii (true, false, true, true, false, false, true, false)),
    (String ((Ascii (true, true, true, true, false, true, true, false)),
    (String ((Ascii (false, false, true, false, false, true, true, false)),
    (String ((Ascii (true, false, true, false, false, true, true, false)),
    EmptyString))))))))))))))))))))))))))))))))))))))))))))))))))))));
    a_kind = ACall; a_locks = [] } :: ({ a_fn = (String ((Ascii (true, true,
    false, false, true, false, true, false)), (String ((Ascii (true, false,
    true, false, false, true, true, false)), (String ((Ascii (false, true,
    false, false, true, true, true, false)), (String ((Ascii (false, true,
    true, false, true, true, true, false)), (String ((Ascii (true, false,
    false, true, false, true, true, false)), (String ((Ascii (true, true,
    false, false, false, true, true, false)), (String ((Ascii (true, false,
    true, false, false, true, true, false)), (String ((Ascii (false, true,
    false, true, true, true, false, false)), (String ((Ascii (false, true,
    false, true, true, true, false, false)), (String ((Ascii (true, true,
    false, false, true, false, true, false)), (String ((Ascii (false, false,
    true, false, true, true, true, false)), (String ((Ascii (true, false,
    false, false, false, true, true, false)), (String ((Ascii (false, true,
    false, false, true, true, true, false)), (String ((Ascii (false, false,
    true, false, true, true, true, false)), (String ((Ascii (true, true,
    false, false, true, false, true, false)), (String ((Ascii (true, false,
    true, false, false, true, true, false)), (String ((Ascii (false, true,
    false, false, true, true, true, false)), (String ((Ascii (false, true,
    true, false, true, true, true, false)), (String ((Ascii (true, false,
    false, true, false, true, true, false)), (String ((Ascii (true, true,
    false, false, false, true, true, false)), (String ((Ascii (true, false,
    true, false, false, true, true, false)),
    EmptyString)))))))))))))))))))))))))))))))))))))))))); a_var = (String
    ((Ascii (true, true, false, false, true, false, true, false)), (String
    ((Ascii (true, false, true, false, false, true, true, false)), (String
    ((Ascii (false, true, false, false, true, true, true, false)), (String
    ((Ascii (false, true, true, false, true, true, true, false)), (String
    ((Ascii (true, false, false, true, false, true, true, false)), (String
    ((Ascii (true, true, false, false, false, true, true, false)), (String
    ((Ascii (true, false, true, false, false, true, true, false)), (String
    ((Ascii (false, true, false, true, true, true, false, false)), (String
    ((Ascii (false, true, false, true, true, true, false, false)), (String
    ((Ascii (true, true, false, false, true, true, true, false)), (String
    ((Ascii (false, false, true, false, true, true, true, false)), (String
    ((Ascii (true, false, false, false, false, true, true, false)), (String
    ((Ascii (false, true, false, false, true, true, true, false)), (String
    ((Ascii (false, false, true, false, true, true, true, false)), (String
    ((Ascii (true, false, true, false, false, true, true, false)), (String
    ((Ascii (false, false, true, false, false, true, true, false)), (String
    ((Ascii (true, true, true, true, true, false, true, false)),
    EmptyString)))))))))))))))))))))))))))))))))); a_kind = AWrite; a_locks =
    [] } :: ({ a_fn = (String ((Ascii (true, true, false, false, true, false,
    true, false)), (String ((Ascii (true, false, true, false, false, true,
    true, false)), (String ((Ascii (false, true, false, false, true, true,
    true, false)), (String ((Ascii (false, true, true, false, true, true,
    true, false)), (String ((Ascii (true, false, false, true, false, true,
    true, false)), (String ((Ascii (true, true, false, false, false, true,
    true, false)), (String ((Ascii (true, false, true, false, false, true,
    true, false)), (String ((Ascii (false, true, false, true, true, true,
    false, false)), (String ((Ascii (false, true, false, true, true, true,
    false, false)), (String ((Ascii (true, true, false, false, true, false,
    true, false)), (String ((Ascii (false, false, true, false, true, true,
    true, false)), (String ((Ascii (true, true, true, true, false, true,
    true, false)), (String ((Ascii (false, false, false, false, true, true,
    true, false)), (String ((Ascii (true, true, false, false, true, false,
    true, false)), (String ((Ascii (true, false, true, false, false, true,
    true, false)), (String ((Ascii (false, true, false, false, true, true,
    true, false)), (String ((Ascii (false, true, true, false, true, true,
    true, false)), (String ((Ascii (true, false, false, true, false, true,
    true, false)), (String ((Ascii (true, true, false, false, false, true,
    true, false)), (String ((Ascii (true, false, true, false, false, true,
    true, false)), EmptyString))))))))))))))))))))))))))))))))))))))));
    a_var = (String ((Ascii (true, true, false, false, true, false, true,
    false)), (String ((Ascii (true, false, true, false, false, true, true,
    false)), (String ((Ascii (false, true, false, false, true, true, true,
    false)), (String ((Ascii (false, true, true, false, true, true, true,
    false)), (String ((Ascii (true, false, false, true, false, true, true,
    false)), (String ((Ascii (true, true, false, false, false, true, true,
    false)), (String ((Ascii (true, false, true, false, false, true, true,
    false)), (String ((Ascii (false, true, false, true, true, true, false,
    false)), (String ((Ascii (false, true, false, true, true, true, false,
    false)), (String ((Ascii (true, true, false, false, true, true, true,
    false)), (String ((Ascii (false, false, true, false, true, true, true,
    false)), (String ((Ascii (true, false, false, false, false, true, true,
    false)), (String ((Ascii (false, true, false, false, true, true, true,
    false)), (String ((Ascii (false, false, true, false, true, true, true,
    false)), (String ((Ascii (true, false, true, false, false, true, true,
    false)), (String ((Ascii (false, false, true, false, false, true, true,
    false)), (String ((Ascii (true, true, true, true, true, false, true,
    false)), EmptyString)))))))))))))))))))))))))))))))))); a_kind = AWrite;
    a_locks = [] } :: ({ a_fn = (String ((Ascii (true, true, false, false,
    true, false, true, false)), (String ((Ascii (true, false, true, false,
    false, true, true, false)), (String ((Ascii (false, true, false, false,
    true, true, true, false)), (String ((Ascii (false, true, true, false,
    true, true, true, false)), (String ((Ascii (true, false, false, true,
    false, true, true, false)), (String ((Ascii (true, true, false, false,
    false, true, true, false)), (String ((Ascii (true, false, true, false,
    false, true, true, false)), (String ((Ascii (false, true, false, true,
    true, true, false, false)), (String ((Ascii (false, true, false, true,
    true, true, false, false)), (String ((Ascii (true, true, false, false,
    true, false, true, false)), (String ((Ascii (false, false, true, false,
    true, true, true, false)), (String ((Ascii (true, true, true, true,
    false, true, true, false)), (String ((Ascii (false, false, false, false,
    true, true, true, false)), (String ((Ascii (true, true, false, false,
    true, false, true, false)), (String ((Ascii (true, false, true, false,
    false, true, true, false)), (String ((Ascii (false, true, false, false,
    true, true, true, false)), (String ((Ascii (false, true, true, false,
    true, true, true, false)), (String ((Ascii (true, false, false, true,
    false, true, true, false)), (String ((Ascii (true, true, false, false,
    false, true, true, false)), (String ((Ascii (true, false, true, false,
    false, true, true, false)),
    EmptyString)))))))))))))))))))))))))))))))))))))))); a_var = (String
    ((Ascii (true, true, false, false, true, false, true, false)), (String
    ((Ascii (true, false, true, false, false, true, true, false)), (String
    ((Ascii (false, true, false, false, true, true, true, false)), (String
    ((Ascii (false, true, true, false, true, true, true, false)), (String
    ((Ascii (true, false, false, true, false, true, true, false)), (String
    ((Ascii (true, true, false, false, false, true, true, false)), (String
    ((Ascii (true, false, true, false, false, true, true, false)), (String
    ((Ascii (false, true, false, true, true, true, false, false)), (String
    ((Ascii (false, true, false, true, true, true, false, false)), (String
    ((Ascii (true, true, false, false, false, false, true, false)), (String
    ((Ascii (false, false, true, true, false, true, true, false)), (String
    ((Ascii (true, false, true, false, false, true, true, false)), (String
    ((Ascii (true, false, false, false, false, true, true, false)), (String
    ((Ascii (false, true, true, true, false, true, true, false)), (String
    ((Ascii (true, false, true, false, true, true, true, false)), (String
    ((Ascii (false, false, false, false, true, true, true, false)), (String
    ((Ascii (true, false, false, false, false, false, true, false)), (String
    ((Ascii (false, false, true, true, false, true, true, false)), (String
    ((Ascii (false, false, true, true, false, true, true, false)), (String
    ((Ascii (true, true, false, false, true, false, true, false)), (String
    ((Ascii (true, false, true, false, false, true, true, false)), (String
    ((Ascii (true, true, false, false, true, true, true, false)), (String
    ((Ascii (true, true, false, false, true, true, true, false)), (String
    ((Ascii (true, false, false, true, false, true, true, false)), (String
    ((Ascii (true, true, true, true, false, true, true, false)), (String
    ((Ascii (false, true, true, true, false, true, true, false)), (String
    ((Ascii (true, true, false, false, true, true, true, false)),
    EmptyString))))))))))))))))))))))))))))))))))))))))))))))))))))));
    a_kind = ACall; a_locks = [] } :: ({ a_fn = (String ((Ascii (true, true,
    false, false, true, false, true, false)), (String ((Ascii (true, false,
    true, false, false, true, true, false)), (String ((Ascii (false, true,
    false, false, true, true, true, false)), (String ((Ascii (false, true,
    true, false, true, true, true, false)), (String ((Ascii (true, false,
    false, true, false, true, true, false)), (String ((Ascii (true, true,
    false, false, false, true, true, false)), (String ((Ascii (true, false,
    true, false, false, true, true, false)), (String ((Ascii (false, true,
    false, true, true, true, false, false)), (String ((Ascii (false, true,
    false, true, true, true, false, false)), (String ((Ascii (true, true,
    false, false, false, false, true, false)), (String ((Ascii (false, true,
    false, false, true, true, true, false)), (String ((Ascii (true, false,
    true, false, false, true, true, false)), (String ((Ascii (true, false,
    false, false, false, true, true, false)), (String ((Ascii (false, false,
    true, false, true, true, true, false)), (String ((Ascii (true, false,
    true, false, false, true, true, false)), (String ((Ascii (true, true,
    false, false, true, false, true, false)), (String ((Ascii (true, false,
    true, false, false, true, true, false)), (String ((Ascii (true, true,
    false, false, true, true, true, false)), (String ((Ascii (true, true,
    false, false, true, true, true, false)), (String ((Ascii (true, false,
    false, true, false, true, true, false)), (String ((Ascii (true, true,
    true, true, false, true, true, false)), (String ((Ascii (false, true,
    true, true, false, true, true, false)),
    EmptyString)))))))))))))))))))))))))))))))))))))))))))); a_var = (String
    ((Ascii (true, true, false, false, true, false, true, false)), (String
    ((Ascii (true, false, true, false, false, true, true, false)), (String
    ((Ascii (false, true, false, false, true, true, true, false)), (String
    ((Ascii (false, true, true, false, true, true, true, false)), (String
    ((Ascii (true, false, false, true, false, true, true, false)), (String
    ((Ascii (true, true, false, false, false, true, true, false)), (String
    ((Ascii (true, false, true, false, false, true, true, false)), (String
    ((Ascii (false, true, false, true, true, true, false, false)), (String
    ((Ascii (false, true, false, true, true, true, false, false)), (String
    ((Ascii (false, false, true, false, false, true, true, false)), (String
    ((Ascii (true, false, false, true, false, true, true, false)), (String
    ((Ascii (true, true, false, false, true, true, true, false)), (String
    ((Ascii (true, false, false, false, false, true, true, false)), (String
    ((Ascii (false, true, false, false, false, true, true, false)), (String
    ((Ascii (false, false, true, true, false, true, true, false)), (String
    ((Ascii (true, false, true, false, false, true, true, false)), (String
    ((Ascii (false, false, true, false, false, true, true, false)),
    EmptyString)))))))))))))))))))))))))))))))))); a_kind = ACall; a_locks =
    [] } :: ({ a_fn = (String ((Ascii (true, true, false, false, true, false,
    true, false)), (String ((Ascii (true, false, true, false, false, true,
    true, false)), (String ((Ascii (false, true, false, false, true, true,
    true, false)), (String ((Ascii (false, true, true, false, true, true,
    true, false)), (String ((Ascii (true, false, false, true, false, true,
    true, false)), (String ((Ascii (true, true, false, false, false, true,
    true, false)), (String ((Ascii (true, false, true, false, false, true,
    true, false)), (String ((Ascii (false, true, false, true, true, true,
    false, false)), (String ((Ascii (false, true, false, true, true, true,
    false, false)), (String ((Ascii (true, true, false, false, false, false,
    true, false)), (String ((Ascii (false, true, false, false, true, true,
    true, false)), (String ((Ascii (true, false, true, false, false, true,
    true, false)), (String ((Ascii (true, false, false, false, false, true,
    true, false)), (String ((Ascii (false, false, true, false, true, true,
    true, false)), (String ((Ascii (true, false, true, false, false, true,
    true, false)), (String ((Ascii (true, true, false, false, true, false,
    true, false)), (String ((Ascii (true, false, true, false, false, true,
    true, false)), (String ((Ascii (true, true, false, false, true, true,
    true, false)), (String ((Ascii (true, true, false, false, true, true,
    true, false)), (String ((Ascii (true, false, false, true, false, true,
    true, false)), (String ((Ascii (true, true, true, true, false, true,
    true, false)), (String ((Ascii (false, true, true, true, false, true,
    true, false)), EmptyString))))))))))))))))))))))))))))))))))))))))))));
    a_var = (String ((Ascii (true, true, false, false, true, false, true,
    false)), (String ((Ascii (true, false, true, false, false, true, true,
    false)), (String ((Ascii (false, true, false, false, true, true, true,
    false)), (String ((Ascii (false, true, true, false, true, true, true,
    false)), (String ((Ascii (true, false, false, true, false, true, true,
    false)), (String ((Ascii (true, true, false, false, false, true, true,
    false)), (String ((Ascii (true, false, true, false, false, true, true,
    false)), (String ((Ascii (false, true, false, true, true, true, false,
    false)), (String ((Ascii (false, true, false, true, true, true, false,
    false)), (String ((Ascii (true, true, false, false, true, true, true,
    false)), (String ((Ascii (true, false, true, false, false, true, true,
    false)), (String ((Ascii (true, true, false, false, true, true, true,
    false)), (String ((Ascii (true, true, false, false, true, true, true,
    false)), (String ((Ascii (true, false, false, true, false, true, true,
    false)), (String ((Ascii (true, true, true, true, false, true, true,
    false)), (String ((Ascii (false, true, true, true, false, true, true,
    false)), (String ((Ascii (true, true, false, false, true, true, true,
    false)), (String ((Ascii (true, true, true, true, true, false, true,
    false)), EmptyString)))))))))))))))))))))))))))))))))))); a_kind =
    AWrite; a_locks = [] } :: ({ a_fn = (String ((Ascii (true, true, false,
    false, true, false, true, false)), (String ((Ascii (true, false, true,
    false, false, true, true, false)), (String ((Ascii (false, true, false,
    false, true, true, true, false)), (String ((Ascii (false, true, true,
    false, true, true, true, false)), (String ((Ascii (true, false, false,
    true, false, true, true, false)), (String ((Ascii (true, true, false,
    false, false, true, true, false)), (String ((Ascii (true, false, true,
    false, false, true, true, false)), (String ((Ascii (false, true, false,
    true, true, true, false, false)), (String ((Ascii (false, true, false,
    true, true, true, false, false)), (String ((Ascii (true, true, true,
    false, false, false, true, false)), (String ((Ascii (true, false, true,
    false, false, true, true, false)), (String ((Ascii (false, false, true,
    false, true, true, true, false)), (String ((Ascii (true, true, false,
    false, true, false, true, false)), (String ((Ascii (true, false, true,
    false, false, true, true, false)), (String ((Ascii (true, true, false,
    false, true, true, true, false)), (String ((Ascii (true, true, false,
    false, true, true, true, false)), (String ((Ascii (true, false, false,
    true, false, true, true, false)), (String ((Ascii (true, true, true,
    true, false, true, true, false)), (String ((Ascii (false, true, true,
    true, false, true, true, false)),
    EmptyString)))))))))))))))))))))))))))))))))))))); a_var = (String
    ((Ascii (true, true, false, false, true, false, true, false)), (String
    ((Ascii (true, false, true, false, false, true, true, false)), (String
    ((Ascii (false, true, false, false, true, true, true, false)), (String
    ((Ascii (false, true, true, false, true, true, true, false)), (String
    ((Ascii (true, false, false, true, false, true, true, false)), (String
    ((Ascii (true, true, false, false, false, true, true, false)), (String
    ((Ascii (true, false, true, false, false, true, true, false)), (String
    ((Ascii (false, true, false, true, true, true, false, false)), (String
    ((Ascii (false, true, false, true, true, true, false, false)), (String
    ((Ascii (false, false, true, false, false, true, true, false)), (String
    ((Ascii (true, false, false, true, false, true, true, false)), (String
    ((Ascii (true, true, false, false, true, true, true, false)), (String
    ((Ascii (true, false, false, false, false, true, true, false)), (String
    ((Ascii (false, true, false, false, false, true, true, false)), (String
    ((Ascii (false, false, true, true, false, true, true, false)), (String
    ((Ascii (true, false, true, false, false, true, true, false)), (String
    ((Ascii (false, false, true, false, false, true, true, false)),
    EmptyString)))))))))))))))))))))))))))))))))); a_kind = ACall; a_locks =
    [] } :: ({ a_fn = (String ((Ascii (true, true, false, false, true, false,
    true, false)), (String ((Ascii (true, false, true, false, false, true,
    true, false)), (String ((Ascii (false, true, false, false, true, true,
    true, false)), (String ((Ascii (false, true, true, false, true, true,
    true, false)), (String ((Ascii (true, false, false, true, false, true,
    true, false)), (String ((Ascii (true, true, false, false, false, true,
    true, false)), (String ((Ascii (true, false, true, false, false, true,
    true, false)), (String ((Ascii (false, true, false, true, true, true,
    false, false)), (String ((Ascii (false, true, false, true, true, true,
    false, false)), (String ((Ascii (true, true, true, false, false, false,
    true, false)), (String ((Ascii (true, false, true, false, false, true,
    true, false)), (String ((Ascii (false, false, true, false, true, true,
    true, false)), (String ((Ascii (true, true, false, false, true, false,
    true, false)), (String ((Ascii (true, false, true, false, false, true,
    true, false)), (String ((Ascii (true, true, false, false, true, true,
    true, false)), (String ((Ascii (true, true, false, false, true, true,
    true, false)), (String ((Ascii (true, false, false, true, false, true,
    true, false)), (String ((Ascii (true, true, true, true, false, true,
    true, false)), (String ((Ascii (false, true, true, true, false, true,
    true, false)), EmptyString)))))))))))))))))))))))))))))))))))))); a_var =
    (String ((Ascii (true, true, false, false, true, false, true, false)),
    (String ((Ascii (true, false, true, false, false, true, true, false)),
    (String ((Ascii (false, true, false, false, true, true, true, false)),
    (String ((Ascii (false, true, true, false, true, true, true, false)),
    (String ((Ascii (true, false, false, true, false, true, true, false)),
    (String ((Ascii (true, true, false, false, false, true, true, false)),
    (String ((Ascii (true, false, true, false, false, true, true, false)),
    (String ((Ascii (false, true, false, true, true, true, false, false)),
    (String ((Ascii (false, true, false, true, true, true, false, false)),
    (String ((Ascii (true, true, false, false, true, true, true, false)),
    (String ((Ascii (true, false, true, false, false, true, true, false)),
    (String ((Ascii (true, true, false, false, true, true, true, false)),
    (String ((Ascii (true, true, false, false, true, true, true, false)),
    (String ((Ascii (true, false, false, true, false, true, true, false)),
    (String ((Ascii (true, true, true, true, false, true, true, false)),
    (String ((Ascii (false, true, true, true, false, true, true, false)),
    (String ((Ascii (true, true, false, false, true, true, true, false)),
    (String ((Ascii (true, true, true, true, true, false, true, false)),
    EmptyString)))))))))))))))))))))))))))))))))))); a_kind = ARead;
    a_locks = [] } :: ({ a_fn = (String ((Ascii (true, true, false, false,
    true, false, true, false)), (String ((Ascii (true, false, true, false,
    false, true, true, false)), (String ((Ascii (false, true, false, false,
    true, true, true, false)), (String ((Ascii (false, true, true, false,
    true, true, true, false)), (String ((Ascii (true, false, false, true,
    false, true, true, false)), (String ((Ascii (true, true, false, false,
    false, true, true, false)), (String ((Ascii (true, false, true, false,
    false, true, true, false)), (String ((Ascii (false, true, false, true,
    true, true, false, false)), (String ((Ascii (false, true, false, true,
    true, true, false, false)), (String ((Ascii (true, true, true, false,
    false, false, true, false)), (String ((Ascii (true, false, true, false,
    false, true, true, false)), (String ((Ascii (false, false, true, false,
    true, true, true, false)), (String ((Ascii (true, true, false, false,
    true, false, true, false)), (String ((Ascii (true, false, true, false,
    false, true, true, false)), (String ((Ascii (true, true, false, false,
    true, true, true, false)), (String ((Ascii (true, true, false, false,
    true, true, true, false)), (String ((Ascii (true, false, false, true,
    false, true, true, false)), (String ((Ascii (true, true, true, true,
    false, true, true, false)), (String ((Ascii (false, true, true, true,
    false, true, true, false)),
    EmptyString)))))))))))))))))))))))))))))))))))))); a_var = (String
    ((Ascii (true, true, false, false, true, false, true, false)), (String
    ((Ascii (true, false, true, false, false, true, true, false)), (String
    ((Ascii (false, true, false, false, true, true, true, false)), (String
    ((Ascii (false, true, true, false, true, true, true, false)), (String
    ((Ascii (true, false, false, true, false, true, true, false)), (String
    ((Ascii (true, true, false, false, false, true, true, false)), (String
    ((Ascii (true, false, true, false, false, true, true, false)), (String
    ((Ascii (false, true, false, true, true, true, false, false)), (String
    ((Ascii (false, true, false, true, true, true, false, false)), (String
    ((Ascii (true, true, false, false, true, true, true, false)), (String
    ((Ascii (true, false, true, false, false, true, true, false)), (String
    ((Ascii (true, true, false, false, true, true, true, false)), (String
    ((Ascii (true, true, false, false, true, true, true, false)), (String
    ((Ascii (true, false, false, true, false, true, true, false)), (String
    ((Ascii (true, true, true, true, false, true, true, false)), (String
    ((Ascii (false, true, true, true, false, true, true, false)), (String
    ((Ascii (true, true, false, false, true, true, true, false)), (String
    ((Ascii (true, true, true, true, true, false, true, false)),
    EmptyString)))))))))))))))))))))))))))))))))))); a_kind = ARead;
    a_locks = [] } :: ({ a_fn = (String ((Ascii (true, true, false, false,
    true, false, true, false)), (String ((Ascii (true, false, true, false,
    false, true, true, false)), (String ((Ascii (false, true, false, false,
    true, true, true, false)), (String ((Ascii (false, true, true, false,
    true, true, true, false)), (String ((Ascii (true, false, false, true,
    false, true, true, false)), (String ((Ascii (true, true, false, false,
    false, true, true, false)), (String ((Ascii (true, false, true, false,
    false, true, true, false)), (String ((Ascii (false, true, false, true,
    true, true, false, false)), (String ((Ascii (false, true, false, true,
    true, true, false, false)), (String ((Ascii (false, false, true, false,
    false, false, true, false)), (String ((Ascii (true, false, true, false,
    false, true, true, false)), (String ((Ascii (true, true, false, false,
    true, true, true, false)), (String ((Ascii (false, false, true, false,
    true, true, true, false)), (String ((Ascii (false, true, false, false,
    true, true, true, false)), (String ((Ascii (true, true, true, true,
    false, true, true, false)), (String ((Ascii (true, false, false, true,
    true, true, true, false)), (String ((Ascii (true, true, false, false,
    true, false, true, false)), (String ((Ascii (true, false, true, false,
    false, true, true, false)), (String ((Ascii (true, true, false, false,
    true, true, true, false)), (String ((Ascii (true, true, false, false,
    true, true, true, false)), (String ((Ascii (true, false, false, true,
    false, true, true, false)), (String ((Ascii (true, true, true, true,
    false, true, true, false)), (String ((Ascii (false, true, true, true,
    false, true, true, false)),
    EmptyString)))))))))))))))))))))))))))))))))))))))))))))); a_var =
    (String ((Ascii (true, true, false, false, true, false, true, false)),
    (String ((Ascii (true, false, true, false, false, true, true, false)),
    (String ((Ascii (false, true, false, false, true, true, true, false)),
    (String ((Ascii (false, true, true, false, true, true, true, false)),
    (String ((Ascii (true, false, false, true, false, true, true, false)),
    (String ((Ascii (true, true, false, false, false, true, true, false)),
    (String ((Ascii (true, false, true, false, false, true, true, false)),
    (String ((Ascii (false, true, false, true, true, true, false, false)),
    (String ((Ascii (false, true, false, true, true, true, false, false)),
    (String ((Ascii (true, true, false, false, true, true, true, false)),
    (String ((Ascii (true, false, true, false, false, true, true, false)),
    (String ((Ascii (true, true, false, false, true, true, true, false)),
    (String ((Ascii (true, true, false, false, true, true, true, false)),
    (String ((Ascii (true, false, false, true, false, true, true, false)),
    (String ((Ascii (true, true, true, true, false, true, true, false)),
    (String ((Ascii (false, true, true, true, false, true, true, false)),
    (String ((Ascii (true, true, false, false, true, true, true, false)),
    (String ((Ascii (true, true, true, true, true, false, true, false)),
    EmptyString)))))))))))))))))))))))))))))))))))); a_kind = ARead;
    a_locks = [] } :: ({ a_fn = (String ((Ascii (true, true, false, false,
    true, false, true, false)), (String ((Ascii (true, false, true, false,
    false, true, true, false)), (String ((Ascii (false, true, false, false,
    true, true, true, false)), (String ((Ascii (false, true, true, false,
    true, true, true, false)), (String ((Ascii (true, false, false, true,
    false, true, true, false)), (String ((Ascii (true, true, false, false,
    false, true, true, false)), (String ((Ascii (true, false, true, false,
    false, true, true, false)), (String ((Ascii (false, true, false, true,
    true, true, false, false)), (String ((Ascii (false, true, false, true,
    true, true, false, false)), (String ((Ascii (false, false, true, false,
    false, false, true, false)), (String ((Ascii (true, false, true, false,
    false, true, true, false)), (String ((Ascii (true, true, false, false,
    true, true, true, false)), (String ((Ascii (false, false, true, false,
    true, true, true, false)), (String ((Ascii (false, true, false, false,
    true, true, true, false)), (String ((Ascii (true, true, true, true,
    false, true, true, false)), (String ((Ascii (true, false, false, true,
    true, true, true, false)), (String ((Ascii (true, true, false, false,
    true, false, true, false)), (String ((Ascii (true, false, true, false,
    false, true, true, false)), (String ((Ascii (true, true, false, false,
    true, true, true, false)), (String ((Ascii (true, true, false, false,
    true, true, true, false)), (String ((Ascii (true, false, false, true,
    false, true, true, false)), (String ((Ascii (true, true, true, true,
    false, true, true, false)), (String ((Ascii (false, true, true, true,
    false, true, true, false)),
    EmptyString)))))))))))))))))))))))))))))))))))))))))))))); a_var =
    (String ((Ascii (true, true, false, false, true, false, true, false)),
    (String ((Ascii (true, false, true, false, false, true, true, false)),
    (String ((Ascii (false, true, false, false, true, true, true, false)),
    (String ((Ascii (false, true, true, false, true, true, true, false)),
    (String ((Ascii (true, false, false, true, false, true, true, false)),
    (String ((Ascii (true, true, false, false, false, true, true, false)),
    (String ((Ascii (true, false, true, false, false, true, true, false)),
    (String ((Ascii (false, true, false, true, true, true, false, false)),
    (String ((Ascii (false, true, false, true, true, true, false, false)),
    (String ((Ascii (true, true, false, false, true, true, true, false)),
    (String ((Ascii (true, false, true, false, false, true, true, false)),
    (String ((Ascii (true, true, false, false, true, true, true, false)),
    (String ((Ascii (true, true, false, false, true, true, true, false)),
    (String ((Ascii (true, false, false, true, false, true, true, false)),
    (String ((Ascii (true, true, true, true, false, true, true, false)),
    (String ((Ascii (false, true, true, true, false, true, true, false)),
    (String ((Ascii (true, true, false, false, true, true, true, false)),
    (String ((Ascii (true, true, true, true, true, false, true, false)),
    EmptyString)))))))))))))))))))))))))))))))))))); a_kind = ARead;
    a_locks = [] } :: ({ a_fn = (String ((Ascii (true, true, false, false,
    true, false, true, false)), (String ((Ascii (true, false, true, false,
    false, true, true, false)), (String ((Ascii (false, true, false, false,
    true, true, true, false)), (String ((Ascii (false, true, true, false,
    true, true, true, false)), (String ((Ascii (true, false, false, true,
    false, true, true, false)), (String ((Ascii (true, true, false, false,
    false, true, true, false)), (String ((Ascii (true, false, true, false,
    false, true, true, false)), (String ((Ascii (false, true, false, true,
    true, true, false, false)), (String ((Ascii (false, true, false, true,
    true, true, false, false)), (String ((Ascii (false, false, true, false,
    false, false, true, false)), (String ((Ascii (true, false, true, false,
    false, true, true, false)), (String ((Ascii (true, true, false, false,
    true, true, true, false)), (String ((Ascii (false, false, true, false,
    true, true, true, false)), (String ((Ascii (false, true, false, false,
    true, true, true, false)), (String ((Ascii (true, true, true, true,
    false, true, true, false)), (String ((Ascii (true, false, false, true,
    true, true, true, false)), (String ((Ascii (true, true, false, false,
    true, false, true, false)), (String ((Ascii (true, false, true, false,
    false, true, true, false)), (String ((Ascii (true, true, false, false,
    true, true, true, false)), (String ((Ascii (true, true, false, false,
    true, true, true, false)), (String ((Ascii (true, false, false, true,
    false, true, true, false)), (String ((Ascii (true, true, true, true,
    false, true, true, false)), (String ((Ascii (false, true, true, true,
    false, true, true, false)),
    EmptyString)))))))))))))))))))))))))))))))))))))))))))))); a_var =
    (String ((Ascii (true, true, false, false, true, false, true, false)),
    (String ((Ascii (true, false, true, false, false, true, true, false)),
    (String ((Ascii (false, true, false, false, true, true, true, false)),
    (String ((Ascii (false, true, true, false, true, true, true, false)),
    (String ((Ascii (true, false, false, true, false, true, true, false)),
    (String ((Ascii (true, true, false, false, false, true, true, false)),
    (String ((Ascii (true, false, true, false, false, true, true, false)),
    (String ((Ascii (false, true, false, true, true, true, false, false)),
    (String ((Ascii (false, true, false, true, true, true, false, false)),
    (String ((Ascii (true, true, false, false, true, true, true, false)),
    (String ((Ascii (true, false, true, false, false, true, true, false)),
    (String ((Ascii (true, true, false, false, true, true, true, false)),
    (String ((Ascii (true, true, false, false, true, true, true, false)),
    (String ((Ascii (true, false, false, true, false, true, true, false)),
    (String ((Ascii (true, true, true, true, false, true, true, false)),
    (String ((Ascii (false, true, true, true, false, true, true, false)),
    (String ((Ascii (true, true, false, false, true, true, true, false)),
    (String ((Ascii (true, true, true, true, true, false, true, false)),
    EmptyString)))))))))))))))))))))))))))))))))))); a_kind = AWrite;
    a_locks = [] } :: ({ a_fn = (String ((Ascii (true, true, false, false,
    true, false, true, false)), (String ((Ascii (true, false, true, false,
    false, true, true, false)), (String ((Ascii (false, true, false, false,
    true, true, true, false)), (String ((Ascii (false, true, true, false,
    true, true, true, false)), (String ((Ascii (true, false, false, true,
    false, true, true, false)), (String ((Ascii (true, true, false, false,
    false, true, true, false)), (String ((Ascii (true, false, true, false,
    false, true, true, false)), (String ((Ascii (false, true, false, true,
    true, true, false, false)), (String ((Ascii (false, true, false, true,
    true, true, false, false)), (String ((Ascii (true, true, false, false,
    false, false, true, false)), (String ((Ascii (false, false, true, true,
    false, true, true, false)), (String ((Ascii (true, false, true, false,
    false, true, true, false)), (String ((Ascii (true, false, false, false,
    false, true, true, false)), (String ((Ascii (false, true, true, true,
    false, true, true, false)), (String ((Ascii (true, false, true, false,
    true, true, true, false)), (String ((Ascii (false, false, false, false,
    true, true, true, false)), (String ((Ascii (true, true, false, false,
    true, false, true, false)), (String ((Ascii (false, false, true, false,
    true, true, true, false)), (String ((Ascii (true, false, false, false,
    false, true, true, false)), (String ((Ascii (false, false, true, true,
    false, true, true, false)), (String ((Ascii (true, false, true, false,
    false, true, true, false)), (String ((Ascii (true, true, false, false,
    true, false, true, false)), (String ((Ascii (true, false, true, false,
    false, true, true, false)), (String ((Ascii (true, true, false, false,
    true, true, true, false)), (String ((Ascii (true, true, false, false,
    true, true, true, false)), (String ((Ascii (true, false, false, true,
    false, true, true, false)), (String ((Ascii (true, true, true, true,
    false, true, true, false)), (String ((Ascii (false, true, true, true,
    false, true, true, false)), (String ((Ascii (true, true, false, false,
    true, true, true, false)),
    EmptyString))))))))))))))))))))))))))))))))))))))))))))))))))))))))));
    a_var = (String ((Ascii (true, true, false, false, true, false, true,
    false)), (String ((Ascii (true, false, true, false, false, true, true,
    false)), (String ((Ascii (false, true, false, false, true, true, true,
    false)), (String ((Ascii (false, true, true, false, true, true, true,
    false)), (String ((Ascii (true, false, false, true, false, true, true,
    false)), (String ((Ascii (true, true, false, false, false, true, true,
    false)), (String ((Ascii (true, false, true, false, false, true, true,
    false)), (String ((Ascii (false, true, false, true, true, true, false,
    false)), (String ((Ascii (false, true, false, true, true, true, false,
    false)), (String ((Ascii (true, true, false, false, true, true, true,
    false)), (String ((Ascii (true, false, true, false, false, true, true,
    false)), (String ((Ascii (true, true, false, false, true, true, true,
    false)), (String ((Ascii (true, true, false, false, true, true, true,
    false)), (String ((Ascii (true, false, false, true, false, true, true,
    false)), (String ((Ascii (true, true, true, true, false, true, true,
    false)), (String ((Ascii (false, true, true, true, false, true, true,
    false)), (String ((Ascii (true, true, false, false, true, true, true,
    false)), (String ((Ascii (true, true, true, true, true, false, true,
    false)), EmptyString)))))))))))))))))))))))))))))))))))); a_kind = ARead;
    a_locks = [] } :: ({ a_fn = (String ((Ascii (true, true, false, false,
    true, false, true, false)), (String ((Ascii (true, false, true, false,
    false, true, true, false)), (String ((Ascii (false, true, false, false,
    true, true, true, false)), (String ((Ascii (false, true, true, false,
    true, true, true, false)), (String ((Ascii (true, false, false, true,
    false, true, true, false)), (String ((Ascii (true, true, false, false,
    false, true, true, false)), (String ((Ascii (true, false, true, false,
    false, true, true, false)), (String ((Ascii (false, true, false, true,
    true, true, false, false)), (String ((Ascii (false, true, false, true,
    true, true, false, false)), (String ((Ascii (true, true, false, false,
    false, false, true, false)), (String ((Ascii (false, false, true, true,
    false, true, true, false)), (String ((Ascii (true, false, true, false,
    false, true, true, false)), (String ((Ascii (true, false, false, false,
    false, true, true, false)), (String ((Ascii (false, true, true, true,
    false, true, true, false)), (String ((Ascii (true, false, true, false,
    true, true, true, false)), (String ((Ascii (false, false, false, false,
    true, true, true, false)), (String ((Ascii (true, true, false, false,
    true, false, true, false)), (String ((Ascii (false, false, true, false,
    true, true, true, false)), (String ((Ascii (true, false, false, false,
    false, true, true, false)), (String ((Ascii (false, false, true, true,
    false, true, true, false)), (String ((Ascii (true, false, true, false,
    false, true, true, false)), (String ((Ascii (true, true, false, false,
    true, false, true, false)), (String ((Ascii (true, false, true, false,
    false, true, true, false)), (String ((Ascii (true, true, false, false,
    true, true, true, false)), (String ((Ascii (true, true, false, false,
    true, true, true, false)), (String ((Ascii (true, false, false, true,
    false, true, true, false)), (String ((Ascii (true, true, true, true,
    false, true, true, false)), (String ((Ascii (false, true, true, true,
    false, true, true, false)), (String ((Ascii (true, true, false, false,
    true, true, true, false)),
    EmptyString))))))))))))))))))))))))))))))))))))))))))))))))))))))))));
    a_var = (String ((Ascii (true, true, false, false, true, false, true,
    false)), (String ((Ascii (true, false, true, false, false, true, true,
    false)), (String ((Ascii (false, true, false, false, true, true, true,
    false)), (String ((Ascii (false, true, true, false, true, true, true,
    false)), (String ((Ascii (true, false, false, true, false, true, true,
    false)), (String ((Ascii (true, true, false, false, false, true, true,
    false)), (String ((Ascii (true, false, true, false, false, true, true,
    false)), (String ((Ascii (false, true, false, true, true, true, false,
    false)), (String ((Ascii (false, true, false, true, true, true, false,
    false)), (String ((Ascii (true, true, false, false, true, true, true,
    false)), (String ((Ascii (true, false, true, false, false, true, true,
    false)), (String ((Ascii (true, true, false, false, true, true, true,
    false)), (String ((Ascii (true, true, false, false, true, true, true,
    false)), (String ((Ascii (true, false, false, true, false, true, true,
    false)), (String ((Ascii (true, true, true, true, false, true, true,
    false)), (String ((Ascii (false, true, true, true, false, true, true,
    false)), (String ((Ascii (true, true, false, false, true, true, true,
    false)), (String ((Ascii (true, true, true, true, true, false, true,
    false)), EmptyString)))))))))))))))))))))))))))))))))))); a_kind = ARead;
    a_locks = [] } :: ({ a_fn = (String ((Ascii (true, true, false, false,
    true, false, true, false)), (String ((Ascii (true, false, true, false,
    false, true, true, false)), (String ((Ascii (false, true, false, false,
    true, true, true, false)), (String ((Ascii (false, true, true, false,
    true, true, true, false)), (String ((Ascii (true, false, false, true,
    false, true, true, false)), (String ((Ascii (true, true, false, false,
    false, true, true, false)), (String ((Ascii (true, false, true, false,
    false, true, true, false)), (String ((Ascii (false, true, false, true,
    true, true, false, false)), (String ((Ascii (false, true, false, true,
    true, true, false, false)), (String ((Ascii (true, true, false, false,
    false, false, true, false)), (String ((Ascii (false, false, true, true,
    false, true, true, false)), (String ((Ascii (true, false, true, false,
    false, true, true, false)), (String ((Ascii (true, false, false, false,
    false, true, true, false)), (String ((Ascii (false, true, true, true,
    false, true, true, false)), (String ((Ascii (true, false, true, false,
    true, true, true, false)), (String ((Ascii (false, false, false, false,
    true, true, true, false)), (String ((Ascii (true, true, false, false,
    true, false, true, false)), (String ((Ascii (false, false, true, false,
    true, true, true, false)), (String ((Ascii (true, false, false, false,
    false, true, true, false)), (String ((Ascii (false, false, true, true,
    false, true, true, false)), (String ((Ascii (true, false, true, false,
    false, true, true, false)), (String ((Ascii (true, true, false, false,
    true, false, true, false)), (String ((Ascii (true, false, true, false,
    false, true, true, false)), (String ((Ascii (true, true, false, false,
    true, true, true, false)), (String ((Ascii (true, true, false, false,
    true, true, true, false)), (String ((Ascii (true, false, false, true,
    false, true, true, false)), (String ((Ascii (true, true, true, true,
    false, true, true, false)), (String ((Ascii (false, true, true, true,
    false, true, true, false)), (String ((Ascii (true, true, false, false,
    true, true, true, false)),
    EmptyString))))))))))))))))))))))))))))))))))))))))))))))))))))))))));
    a_var = (String ((Ascii (true, true, false, false, true, false, true,
    false)), (String ((Ascii (true, false, true, false, false, true, true,
    false)), (String ((Ascii (false, true, false, false, true, true, true,
    false)), (String ((Ascii (false, true, true, false, true, true, true,
    false)), (String ((Ascii (true, false, false, true, false, true, true,
    false)), (String ((Ascii (true, true, false, false, false, true, true,
    false)), (String ((Ascii (true, false, true, false, false, true, true,
    false)), (String ((Ascii (false, true, false, true, true, true, false,
    false)), (String ((Ascii (false, true, false, true, true, true, false,
    false)), (String ((Ascii (true, true, false, false, true, true, true,
    false)), (String ((Ascii (true, false, true, false, false, true, true,
    false)), (String ((Ascii (true, true, false, false, true, true, true,
    false)), (String ((Ascii (true, true, false, false, true, true, true,
    false)), (String ((Ascii (true, false, false, true, false, true, true,
    false)), (String ((Ascii (true, true, true, true, false, true, true,
    false)), (String ((Ascii (false, true, true, true, false, true, true,
    false)), (String ((Ascii (true, true, false, false, true, true, true,
    false)), (String ((Ascii (true, true, true, true, true, false, true,
    false)), EmptyString)))))))))))))))))))))))))))))))))))); a_kind =
    AWrite; a_locks = [] } :: ({ a_fn = (String ((Ascii (true, true, false,
    false, true, false, true, false)), (String ((Ascii (true, false, true,
    false, false, true, true, false)), (String ((Ascii (false, true, false,
    false, true, true, true, false)), (String ((Ascii (false, true, true,
    false, true, true, true, false)), (String ((Ascii (true, false, false,
    true, false, true, true, false)), (String ((Ascii (true, true, false,
    false, false, true, true, false)), (String ((Ascii (true, false, true,
    false, false, true, true, false)), (String ((Ascii (false, true, false,
    true, true, true, false, false)), (String ((Ascii (false, true, false,
    true, true, true, false, false)), (String ((Ascii (true, true, false,
    false, false, false, true, false)), (String ((Ascii (false, false, true,
    true, false, true, true, false)), (String ((Ascii (true, false, true,
    false, false, true, true, false)), (String ((Ascii (true, false, false,
    false, false, true, true, false)), (String ((Ascii (false, true, true,
    true, false, true, true, false)), (String ((Ascii (true, false, true,
    false, true, true, true, false)), (String ((Ascii (false, false, false,
    false, true, true, true, false)), (String ((Ascii (true, false, false,
    false, false, false, true, false)), (String ((Ascii (false, false, true,
    true, false, true, true, false)), (String ((Ascii (false, false, true,
    true, false, true, true, false)), (String ((Ascii (true, true, false,
    false, true, false, true, false)), (String ((Ascii (true, false, true,
    false, false, true, true, false)), (String ((Ascii (true, true, false,
    false, true, true, true, false)), (String ((Ascii (true, true, false,
    false, true, true, true, false)), (String ((Ascii (true, false, false,
    true, false, true, true, false)), (String ((Ascii (true, true, true,
    true, false, true, true, false)), (String ((Ascii (false, true, true,
    true, false, true, true, false)), (String ((Ascii (true, true, false,
    false, true, true, true, false)),
    EmptyString))))))))))))))))))))))))))))))))))))))))))))))))))))));
    a_var = (String ((Ascii (true, true, false, false, true, false, true,
    false)), (String ((Ascii (true, false, true, false, false, true, true,
    false)), (String ((Ascii (false, true, false, false, true, true, true,
    false)), (String ((Ascii (false, true, true, false, true, true, true,
    false)), (String ((Ascii (true, false, false, true, false, true, true,
    false)), (String ((Ascii (true, true, false, false, false, true, true,
    false)), (String ((Ascii (true, false, true, false, false, true, true,
    false)), (String ((Ascii (false, true, false, true, true, true, false,
    false)), (String ((Ascii (false, true, false, true, true, true, false,
    false)), (String ((Ascii (true, true, false, false, true, true, true,
    false)), (String ((Ascii (true, false, true, false, false, true, true,
    false)), (String ((Ascii (true, true, false, false, true, true, true,
    false)), (String ((Ascii (true, true, false, false, true, true, true,
    false)), (String ((Ascii (true, false, false, true, false, true, true,
    false)), (String ((Ascii (true, true, true, true, false, true, true,
    false)), (String ((Ascii (false, true, true, true, false, true, true,
    false)), (String ((Ascii (true, true, false, false, true, true, true,
    false)), (String ((Ascii (true, true, true, true, true, false, true,
    false)), EmptyString)))))))))))))))))))))))))))))))))))); a_kind =
    AWrite; a_locks = [] } :: ({ a_fn = (String ((Ascii (true, true, false,
    false, true, false, true, false)), (String ((Ascii (true, false, true,
    false, false, true, true, false)), (String ((Ascii (false, true, false,
    false, true, true, true, false)), (String ((Ascii (false, true, true,
    false, true, true, true, false)), (String ((Ascii (true, false, false,
    true, false, true, true, false)), (String ((Ascii (true, true, false,
    false, false, true, true, false)), (String ((Ascii (true, false, true,
    false, false, true, true, false)), (String ((Ascii (false, true, false,
    true, true, true, false, false)), (String ((Ascii (false, true, false,
    true, true, true, false, false)), (String ((Ascii (true, true, false,
    false, true, false, true, false)), (String ((Ascii (true, false, true,
    false, false, true, true, false)), (String ((Ascii (false, false, true,
    false, true, true, true, false)), (String ((Ascii (false, true, true,
    true, false, false, true, false)), (String ((Ascii (true, true, true,
    true, false, true, true, false)), (String ((Ascii (false, false, true,
    false, true, true, true, false)), (String ((Ascii (true, false, false,
    true, false, true, true, false)), (String ((Ascii (false, true, true,
    false, false, true, true, false)), (String ((Ascii (true, false, false,
    true, false, true, true, false)), (String ((Ascii (true, true, false,
    false, false, true, true, false)), (String ((Ascii (true, false, false,
    false, false, true, true, false)), (String ((Ascii (false, false, true,
    false, true, true, true, false)), (String ((Ascii (true, false, false,
    true, false, true, true, false)), (String ((Ascii (true, true, true,
    true, false, true, true, false)), (String ((Ascii (false, true, true,
    true, false, true, true, false)), (String ((Ascii (false, false, false,
    true, false, false, true, false)), (String ((Ascii (true, false, false,
    false, false, true, true, false)), (String ((Ascii (false, true, true,
    true, false, true, true, false)), (String ((Ascii (false, false, true,
    false, false, true, true, false)), (String ((Ascii (false, false, true,
    true, false, true, true, false)), (String ((Ascii (true, false, true,
    false, false, true, true, false)), (String ((Ascii (false, true, false,
    false, true, true, true, false)),
    EmptyString))))))))))))))))))))))))))))))))))))))))))))))))))))))))))))));
    a_var = (String ((Ascii (true, true, false, false, true, false, true,
    false)), (String ((Ascii (true, false, true, false, false, true, true,
    false)), (String ((Ascii (false, true, false, false, true, true, true,
    false)), (String ((Ascii (false, true, true, false, true, true, true,
    false)), (String ((Ascii (true, false, false, true, false, true, true,
    false)), (String ((Ascii (true, true, false, false, false, true, true,
    false)), (String ((Ascii (true, false, true, false, false, true, true,
    false)), (String ((Ascii (false, true, false, true, true, true, false,
    false)), (String ((Ascii (false, true, false, true, true, true, false,
    false)), (String ((Ascii (false, true, true, true, false, true, true,
    false)), (String ((Ascii (true, true, true, true, false, true, true,
    false)), (String ((Ascii (false, false, true, false, true, true, true,
    false)), (String ((Ascii (true, false, false, true, false, true, true,
    false)), (String ((Ascii (false, true, true, false, false, true, true,
    false)), (String ((Ascii (true, false, false, true, false, true, true,
    false)), (String ((Ascii (true, true, false, false, false, true, true,
    false)), (String ((Ascii (true, false, false, false, false, true, true,
    false)), (String ((Ascii (false, false, true, false, true, true, true,
    false)), (String ((Ascii (true, false, false, true, false, true, true,
    false)), (String ((Ascii (true, true, true, true, false, true, true,
    false)), (String ((Ascii (false, true, true, true, false, true, true,
    false)), (String ((Ascii (true, true, true, true, true, false, true,
    false)), (String ((Ascii (false, false, false, true, false, true, true,
    false)), (String ((Ascii (true, false, false, false, false, true, true,
    false)), (String ((Ascii (false, true, true, true, false, true, true,
    false)), (String ((Ascii (false, false, true, false, false, true, true,
    false)), (String ((Ascii (false, false, true, true, false, true, true,
    false)), (String ((Ascii (true, false, true, false, false, true, true,
    false)), (String ((Ascii (false, true, false, false, true, true, true,
    false)), (String ((Ascii (true, true, true, true, true, false, true,
    false)),
    EmptyString))))))))))))))))))))))))))))))))))))))))))))))))))))))))))));
    a_kind = AWrite; a_locks = ((String ((Ascii (true, true, false, false,
    true, false, true, false)), (String ((Ascii (true, false, true, false,
    false, true, true, false)), (String ((Ascii (false, true, false, false,
    true, true, true, false)), (String ((Ascii (false, true, true, false,
    true, true, true, false)), (String ((Ascii (true, false, false, true,
    false, true, true, false)), (String ((Ascii (true, true, false, false,
    false, true, true, false)), (String ((Ascii (true, false, true, false,
    false, true, true, false)), (String ((Ascii (false, true, false, true,
    true, true, false, false)), (String ((Ascii (false, true, false, true,
    true, true, false, false)), (String ((Ascii (true, false, true, true,
    false, true, true, false)), (String ((Ascii (true, false, true, false,
    true, true, true, false)), (String ((Ascii (false, false, true, false,
    true, true, true, false)), (String ((Ascii (true, false, true, false,
    false, true, true, false)), (String ((Ascii (false, false, false, true,
    true, true, true, false)), (String ((Ascii (true, true, true, true, true,
    false, true, false)),
    EmptyString)))))))))))))))))))))))))))))) :: []) } :: ({ a_fn = (String
    ((Ascii (true, true, false, false, true, false, true, false)), (String
    ((Ascii (true, false, true, false, false, true, true, false)), (String
    ((Ascii (false, true, false, false, true, true, true, false)), (String
    ((Ascii (false, true, true, false, true, true, true, false)), (String
    ((Ascii (true, false, false, true, false, true, true, false)), (String
    ((Ascii (true, true, false, false, false, true, true, false)), (String
    ((Ascii (true, false, true, false, false, true, true, false)), (String
    ((Ascii (false, true, false, true, true, true, false, false)), (String
    ((Ascii (false, true, false, true, true, true, false, false)), (String
    ((Ascii (true, true, false, false, false, false, true, false)), (String
    ((Ascii (false, false, true, true, false, true, true, false)), (String
    ((Ascii (true, false, true, false, false, true, true, false)), (String
    ((Ascii (true, false, false, false, false, true, true, false)), (String
    ((Ascii (false, true, false, false, true, true, true, false)), (String
    ((Ascii (false, true, true, true, false, false, true, false)), (String
    ((Ascii (true, true, true, true, false, true, true, false)), (String
    ((Ascii (false, false, true, false, true, true, true, false)), (String
    ((Ascii (true, false, false, true, false, true, true, false)), (String
    ((Ascii (false, true, true, false, false, true, true, false)), (String
    ((Ascii (true, false, false, true, false, true, true, false)), (String
    ((Ascii (true, true, false, false, false, true, true, false)), (String
    ((Ascii (true, false, false, false, false, true, true, false)), (String
    ((Ascii (false, false, true, false, true, true, true, false)), (String
    ((Ascii (true, false, false, true, false, true, true, false)), (String
    ((Ascii (true, true, true, true, false, true, true, false)), (String
    ((Ascii (false, true, true, true, false, true, true, false)), (String
    ((Ascii (false, false, false, true, false, false, true, false)), (String
    ((Ascii (true, false, false, false, false, true, true, false)), (String
    ((Ascii (false, true, true, true, false, true, true, false)), (String
    ((Ascii (false, false, true, false, false, true, true, false)), (String
    ((Ascii (false, false, true, true, false, true, true, false)), (String
    ((Ascii (true, false, true, false, false, true, true, false)), (String
    ((Ascii (false, true, false, false, true, true, true, false)),
    EmptyString))))))))))))))))))))))))))))))))))))))))))))))))))))))))))))))))));
    a_var = (String ((Ascii (true, true, false, false, true, false, true,
    false)), (String ((Ascii (true, false, true, false, false, true, true,
    false)), (String ((Ascii (false, true, false, false, true, true, true,
    false)), (String ((Ascii (false, true, true, false, true, true, true,
    false)), (String ((Ascii (true, false, false, true, false, true, true,
    false)), (String ((Ascii (true, true, false, false, false, true, true,
    false)), (String ((Ascii (true, false, true, false, false, true, true,
    false)), (String ((Ascii (false, true, false, true, true, true, false,
    false)), (String ((Ascii (false, true, false, true, true, true, false,
    false)), (String ((Ascii (false, true, true, true, false, true, true,
    false)), (String ((Ascii (true, true, true, true, false, true, true,
    false)), (String ((Ascii (false, false, true, false, true, true, true,
    false)), (String ((Ascii (true, false, false, true, false, true, true,
    false)), (String ((Ascii (false, true, true, false, false, true, true,
    false)), (String ((Ascii (true, false, false, true, false, true, true,
    false)), (String ((Ascii (true, true, false, false, false, true, true,
    false)), (String ((Ascii (true, false, false, false, false, true, true,
    false)), (String ((Ascii (false, false, true, false, true, true, true,
    false)), (String ((Ascii (true, false, false, true, false, true, true,
    false)), (String ((Ascii (true, true, true, true, false, true, true,
    false)), (String ((Ascii (false, true, true, true, false, true, true,
    false)), (String ((Ascii (true, true, true, true, true, false, true,
    false)), (String ((Ascii (false, false, false, true, false, true, true,
    false)), (String ((Ascii (true, false, false, false, false, true, true,
    false)), (String ((Ascii (false, true, true, true, false, true, true,
    false)), (String ((Ascii (false, false, true, false, false, true, true,
    false)), (String ((Ascii (false, false, true, true, false, true, true,
    false)), (String ((Ascii (true, false, true, false, false, true, true,
    false)), (String ((Ascii (false, true, false, false, true, true, true,
    false)), (String ((Ascii (true, true, true, true, true, false, true,
    false)),
    EmptyString))))))))))))))))))))))))))))))))))))))))))))))))))))))))))));
    a_kind = AWrite; a_locks = ((String ((Ascii (true, true, false, false,
    true, false, true, false)), (String ((Ascii (true, false, true, false,
    false, true, true, false)), (String ((Ascii (false, true, false, false,
    true, true, true, false)), (String ((Ascii (false, true, true, false,
    true, true, true, false)), (String ((Ascii (true, false, false, true,
    false, true, true, false)), (String ((Ascii (true, true, false, false,
    false, true, true, false)), (String ((Ascii (true, false, true, false,
    false, true, true, false)), (String ((Ascii (false, true, false, true,
    true, true, false, false)), (String ((Ascii (false, true, false, true,
    true, true, false, false)), (String ((Ascii (true, false, true, true,
    false, true, true, false)), (String ((Ascii (true, false, true, false,
    true, true, true, false)), (String ((Ascii (false, false, true, false,
    true, true, true, false)), (String ((Ascii (true, false, true, false,
    false, true, true, false)), (String ((Ascii (false, false, false, true,
    true, true, true, false)), (String ((Ascii (true, true, true, true, true,
    false, true, false)),
    EmptyString)))))))))))))))))))))))))))))) :: []) } :: ({ a_fn = (String
    ((Ascii (true, true, false, false, true, false, true, false)), (String
    ((Ascii (true, false, true, false, false, true, true, false)), (String
    ((Ascii (false, true, false, false, true, true, true, false)), (String
    ((Ascii (false, true, true, false, true, true, true, false)), (String
    ((Ascii (true, false, false, true, false, true, true, false)), (String
    ((Ascii (true, true, false, false, false, true, true, false)), (String
    ((Ascii (true, false, true, false, false, true, true, false)), (String
    ((Ascii (false, true, false, true, true, true, false, false)), (String
    ((Ascii (false, true, false, true, true, true, false, false)), (String
    ((Ascii (false, true, true, true, false, false, true, false)), (String
    ((Ascii (true, true, true, true, false, true, true, false)), (String
    ((Ascii (false, false, true, false, true, true, true, false)), (String
    ((Ascii (true, false, false, true, false, true, true, false)), (String
    ((Ascii (false, true, true, false, false, true, true, false)), (String
    ((Ascii (true, false, false, true, true, true, true, false)),
    EmptyString)))))))))))))))))))))))))))))); a_var = (String ((Ascii (true,
    true, false, false, true, false, true, false)), (String ((Ascii (true,
    false, true, false, false, true, true, false)), (String ((Ascii (false,
    true, false, false, true, true, true, false)), (String ((Ascii (false,
    true, true, false, true, true, true, false)), (String ((Ascii (true,
    false, false, true, false, true, true, false)), (String ((Ascii (true,
    true, false, false, false, true, true, false)), (String ((Ascii (true,
    false, true, false, false, true, true, false)), (String ((Ascii (false,
    true, false, true, true, true, false, false)), (String ((Ascii (false,
    true, false, true, true, true, false, false)), (String ((Ascii (false,
    true, true, true, false, true, true, false)), (String ((Ascii (true,
    true, true, true, false, true, true, false)), (String ((Ascii (false,
    false, true, false, true, true, true, false)), (String ((Ascii (true,
    false, false, true, false, true, true, false)), (String ((Ascii (false,
    true, true, false, false, true, true, false)), (String ((Ascii (true,
    false, false, true, false, true, true, false)), (String ((Ascii (true,
    true, false, false, false, true, true, false)), (String ((Ascii (true,
    false, false, false, false, true, true, false)), (String ((Ascii (false,
    false, true, false, true, true, true, false)), (String ((Ascii (true,
    false, false, true, false, true, true, false)), (String ((Ascii (true,
    true, true, true, false, true, true, false)), (String ((Ascii (false,
    true, true, true, false, true, true, false)), (String ((Ascii (true,
    true, true, true, true, false, true, false)), (String ((Ascii (false,
    false, false, true, false, true, true, false)), (String ((Ascii (true,
    false, false, false, false, true, true, false)), (String ((Ascii (false,
    true, true, true, false, true, true, false)), (String ((Ascii (false,
    false, true, false, false, true, true, false)), (String ((Ascii (false,
    false, true, true, false, true, true, false)), (String ((Ascii (true,
    false, true, false, false, true, true, false)), (String ((Ascii (false,
    true, false, false, true, true, true, false)), (String ((Ascii (true,
    true, true, true, true, false, true, false)),
    EmptyString))))))))))))))))))))))))))))))))))))))))))))))))))))))))))));
    a_kind = ARead; a_locks = ((String ((Ascii (true, true, false, false,
    true, false, true, false)), (String ((Ascii (true, false, true, false,
    false, true, true, false)), (String ((Ascii (false, true, false, false,
    true, true, true, false)), (String ((Ascii (false, true, true, false,
    true, true, true, false)), (String ((Ascii (true, false, false, true,
    false, true, true, false)), (String ((Ascii (true, true, false, false,
    false, true, true, false)), (String ((Ascii (true, false, true, false,
    false, true, true, false)), (String ((Ascii (false, true, false, true,
    true, true, false, false)), (String ((Ascii (false, true, false, true,
    true, true, false, false)), (String ((Ascii (true, false, true, true,
    false, true, true, false)), (String ((Ascii (true, false, true, false,
    true, true, true, false)), (String ((Ascii (false, false, true, false,
    true, true, true, false)), (String ((Ascii (true, false, true, false,
    false, true, true, false)), (String ((Ascii (false, false, false, true,
    true, true, true, false)), (String ((Ascii (true, true, true, true, true,
    false, true, false)),
    EmptyString)))))))))))))))))))))))))))))) :: []) } :: ({ a_fn = (String
    ((Ascii (true, true, false, false, true, false, true, false)), (String
    ((Ascii (true, false, true, false, false, true, true, false)), (String
    ((Ascii (false, true, false, false, true, true, true, false)), (String
    ((Ascii (false, true, true, false, true, true, true, false)), (String
    ((Ascii (true, false, false, true, false, true, true, false)), (String
    ((Ascii (true, true, false, false, false, true, true, false)), (String
    ((Ascii (true, false, true, false, false, true, true, false)), (String
    ((Ascii (false, true, false, true, true, true, false, false)), (String
    ((Ascii (false, true, false, true, true, true, false, false)), (String
    ((Ascii (false, true, true, true, false, false, true, false)), (String
    ((Ascii (true, true, true, true, false, true, true, false)), (String
    ((Ascii (false, false, true, false, true, true, true, false)), (String
    ((Ascii (true, false, false, true, false, true, true, false)), (String
    ((Ascii (false, true, true, false, false, true, true, false)), (String
    ((Ascii (true, false, false, true, true, true, true, false)),
    EmptyString)))))))))))))))))))))))))))))); a_var = (String ((Ascii (true,
    true, false, false, true, false, true, false)), (String ((Ascii (true,
    false, true, false, false, true, true, false)), (String ((Ascii (false,
    true, false, false, true, true, true, false)), (String ((Ascii (false,
    true, true, false, true, true, true, false)), (String ((Ascii (true,
    false, false, true, false, true, true, false)), (String ((Ascii (true,
    true, false, false, false, true, true, false)), (String ((Ascii (true,
    false, true, false, false, true, true, false)), (String ((Ascii (false,
    true, false, true, true, true, false, false)), (String ((Ascii (false,
    true, false, true, true, true, false, false)), (String ((Ascii (false,
    true, true, true, false, true, true, false)), (String ((Ascii (true,
    true, true, true, false, true, true, false)), (String ((Ascii (false,
    false, true, false, true, true, true, false)), (String ((Ascii (true,
    false, false, true, false, true, true, false)), (String ((Ascii (false,
    true, true, false, false, true, true, false)), (String ((Ascii (true,
    false, false, true, false, true, true, false)), (String ((Ascii (true,
    true, false, false, false, true, true, false)), (String ((Ascii (true,
    false, false, false, false, true, true, false)), (String ((Ascii (false,
    false, true, false, true, true, true, false)), (String ((Ascii (true,
    false, false, true, false, true, true, false)), (String ((Ascii (true,
    true, true, true, false, true, true, false)), (String ((Ascii (false,
    true, true, true, false, true, true, false)), (String ((Ascii (true,
    true, true, true, true, false, true, false)), (String ((Ascii (false,
    false, false, true, false, true, true, false)), (String ((Ascii (true,
    false, false, false, false, true, true, false)), (String ((Ascii (false,
    true, true, true, false, true, true, false)), (String ((Ascii (false,
    false, true, false, false, true, true, false)), (String ((Ascii (false,
    false, true, true, false, true, true, false)), (String ((Ascii (true,
    false, true, false, false, true, true, false)), (String ((Ascii (false,
    true, false, false, true, true, true, false)), (String ((Ascii (true,
    true, true, true, true, false, true, false)),
    EmptyString))))))))))))))))))))))))))))))))))))))))))))))))))))))))))));
    a_kind = ARead; a_locks = ((String ((Ascii (true, true, false, false,
    true, false, true, false)), (String ((Ascii (true, false, true, false,
    false, true, true, false)), (String ((Ascii (false, true, false, false,
    true, true, true, false)), (String ((Ascii (false, true, true, false,
    true, true, true, false)), (String ((Ascii (true, false, false, true,
    false, true, true, false)), (String ((Ascii (true, true, false, false,
    false, true, true, false)), (String ((Ascii (true, false, true, false,
    false, true, true, false)), (String ((Ascii (false, true, false, true,
    true, true, false, false)), (String ((Ascii (false, true, false, true,
    true, true, false, false)), (String ((Ascii (true, false, true, true,
    false, true, true, false)), (String ((Ascii (true, false, true, false,
    true, true, true, false)), (String ((Ascii (false, false, true, false,
    true, true, true, false)), (String ((Ascii (true, false, true, false,
    false, true, true, false)), (String ((Ascii (false, false, false, true,
    true, true, true, false)), (String ((Ascii (true, true, true, true, true,
    false, true, false)),
    EmptyString)))))))))))))))))))))))))))))) :: []) } :: ({ a_fn = (String
    ((Ascii (true, true, false, false, true, false, true, false)), (String
    ((Ascii (true, false, true, false, false, true, true, false)), (String
    ((Ascii (false, true, false, false, true, true, true, false)), (String
    ((Ascii (false, true, true, false, true, true, true, false)), (String
    ((Ascii (true, false, false, true, false, true, true, false)), (String
    ((Ascii (true, true, false, false, false, true, true, false)), (String
    ((Ascii (true, false, true, false, false, true, true, false)), (String
    ((Ascii (false, true, false, true, true, true, false, false)), (String
    ((Ascii (false, true, false, true, true, true, false, false)), (String
    ((Ascii (true, true, false, false, false, false, true, false)), (String
    ((Ascii (false, true, false, false, true, true, true, false)), (String
    ((Ascii (true, false, true, false, false, true, true, false)), (String
    ((Ascii (true, false, false, false, false, true, true, false)), (String
    ((Ascii (false, false, true, false, true, true, true, false)), (String
    ((Ascii (true, false, true, false, false, true, true, false)), (String
    ((Ascii (false, true, false, false, true, false, true, false)), (String
    ((Ascii (true, false, true, false, false, true, true, false)), (String
    ((Ascii (true, true, false, false, true, true, true, false)), (String
    ((Ascii (true, true, true, true, false, true, true, false)), (String
    ((Ascii (true, false, true, false, true, true, true, false)), (String
    ((Ascii (false, true, false, false, true, true, true, false)), (String
    ((Ascii (true, true, false, false, false, true, true, false)), (String
    ((Ascii (true, false, true, false, false, true, true, false)), (String
    ((Ascii (false, true, false, false, true, false, true, false)), (String
    ((Ascii (true, false, true, false, false, true, true, false)), (String
    ((Ascii (true, true, false, false, true, true, true, false)), (String
    ((Ascii (true, true, true, true, false, true, true, false)), (String
    ((Ascii (false, false, true, true, false, true, true, false)), (String
    ((Ascii (false, true, true, false, true, true, true, false)), (String
    ((Ascii (true, false, true, false, false, true, true, false)), (String
    ((Ascii (false, true, false, false, true, true, true, false)),
    EmptyString))))))))))))))))))))))))))))))))))))))))))))))))))))))))))))));
    a_var = (String ((Ascii (true, true, false, false, true, false, true,
    false)), (String ((Ascii (true, false, true, false, false, true, true,
    false)), (String ((Ascii (false, true, false, false, true, true, true,
    false)), (String ((Ascii (false, true, true, false, true, true, true,
    false)), (String ((Ascii (true, false, false, true, false, true, true,
    false)), (String ((Ascii (true, true, false, false, false, true, true,
    false)), (String ((Ascii (true, false, true, false, false, true, true,
    false)), (String ((Ascii (false, true, false, true, true, true, false,
    false)), (String ((Ascii (false, true, false, true, true, true, false,
    false)), (String ((Ascii (false, false, true, false, false, true, true,
    false)), (String ((Ascii (true, false, true, false, false, true, true,
    false)), (String ((Ascii (false, false, false, false, true, true, true,
    false)), (String ((Ascii (false, false, true, true, false, true, true,
    false)), (String ((Ascii (true, true, true, true, false, true, true,
    false)), (String ((Ascii (true, false, false, true, true, true, true,
    false)), (String ((Ascii (true, false, true, false, false, true, true,
    false)), (String ((Ascii (false, true, false, false, true, true, true,
    false)), EmptyString)))))))))))))))))))))))))))))))))); a_kind = ACall;
    a_locks = [] } :: ({ a_fn = (String ((Ascii (true, true, false, false,
    true, false, true, false)), (String ((Ascii (true, false, true, false,
    false, true, true, false)), (String ((Ascii (false, true, false, false,
    true, true, true, false)), (String ((Ascii (false, true, true, false,
    true, true, true, false)), (String ((Ascii (true, false, false, true,
    false, true, true, false)), (String ((Ascii (true, true, false, false,
    false, true, true, false)), (String ((Ascii (true, false, true, false,
    false, true, true, false)), (String ((Ascii (false, true, false, true,
    true, true, false, false)), (String ((Ascii (false, true, false, true,
    true, true, false, false)), (String ((Ascii (true, true, false, false,
    false, false, true, false)), (String ((Ascii (false, true, false, false,
    true, true, true, false)), (String ((Ascii (true, false, true, false,
    false, true, true, false)), (String ((Ascii (true, false, false, false,
    false, true, true, false)), (String ((Ascii (false, false, true, false,
    true, true, true, false)), (String ((Ascii (true, false, true, false,
    false, true, true, false)), (String ((Ascii (false, true, false, false,
    true, false, true, false)), (String ((Ascii (true, false, true, false,
    false, true, true, false)), (String ((Ascii (true, true, false, false,
    true, true, true, false)), (String ((Ascii (true, true, true, true,
    false, true, true, false)), (String ((Ascii (true, false, true, false,
    true, true, true, false)), (String ((Ascii (false, true, false, false,
    true, true, true, false)), (String ((Ascii (true, true, false, false,
    false, true, true, false)), (String ((Ascii (true, false, true, false,
    false, true, true, false)), (String ((Ascii (false, true, false, false,
    true, false, true, false)), (String ((Ascii (true, false, true, false,
    false, true, true, false)), (String ((Ascii (true, true, false, false,
    true, true, true, false)), (String ((Ascii (true, true, true, true,
    false, true, true, false)), (String ((Ascii (false, false, true, true,
    false, true, true, false)), (String ((Ascii (false, true, true, false,
    true, true, true, false)), (String ((Ascii (true, false, true, false,
    false, true, true, false)), (String ((Ascii (false, true, false, false,
    true, true, true, false)),
    EmptyString))))))))))))))))))))))))))))))))))))))))))))))))))))))))))))));
    a_var = (String ((Ascii (true, true, false, false, true, false, true,
    false)), (String ((Ascii (true, false, true, false, false, true, true,
    false)), (String ((Ascii (false, true, false, false, true, true, true,
    false)), (String ((Ascii (false, true, true, false, true, true, true,
    false)), (String ((Ascii (true, false, false, true, false, true, true,
    false)), (String ((Ascii (true, true, false, false, false, true, true,
    false)), (String ((Ascii (true, false, true, false, false, true, true,
    false)), (String ((Ascii (false, true, false, true, true, true, false,
    false)), (String ((Ascii (false, true, false, true, true, true, false,
    false)), (String ((Ascii (false, false, true, false, false, true, true,
    false)), (String ((Ascii (true, false, true, false, false, true, true,
    false)), (String ((Ascii (false, false, false, false, true, true, true,
    false)), (String ((Ascii (false, false, true, true, false, true, true,
    false)), (String ((Ascii (true, true, true, true, false, true, true,
    false)), (String ((Ascii (true, false, false, true, true, true, true,
    false)), (String ((Ascii (true, false, true, false, false, true, true,
    false)), (String ((Ascii (false, true, false, false, true, true, true,
    false)), EmptyString)))))))))))))))))))))))))))))))))); a_kind = ACall;
    a_locks = [] } :: ({ a_fn = (String ((Ascii (true, true, false, false,
    true, false, true, false)), (String ((Ascii (true, false, true, false,
    false, true, true, false)), (String ((Ascii (false, true, false, false,
    true, true, true, false)), (String ((Ascii (false, true, true, false,
    true, true, true, false)), (String ((Ascii (true, false, false, true,
    false, true, true, false)), (String ((Ascii (true, true, false, false,
    false, true, true, false)), (String ((Ascii (true, false, true, false,
    false, true, true, false)), (String ((Ascii (false, true, false, true,
    true, true, false, false)), (String ((Ascii (false, true, false, true,
    true, true, false, false)), (String ((Ascii (true, true, false, false,
    false, false, true, false)), (String ((Ascii (false, true, false, false,
    true, true, true, false)), (String ((Ascii (true, false, true, false,
    false, true, true, false)), (String ((Ascii (true, false, false, false,
    false, true, true, false)), (String ((Ascii (false, false, true, false,
    true, true, true, false)), (String ((Ascii (true, false, true, false,
    false, true, true, false)), (String ((Ascii (true, false, true, false,
    true, false, true, false)), (String ((Ascii (true, true, false, false,
    true, true, true, false)), (String ((Ascii (true, false, true, false,
    false, true, true, false)), (String ((Ascii (false, true, false, false,
    true, true, true, false)), (String ((Ascii (true, true, false, false,
    true, false, true, false)), (String ((Ascii (false, false, false, false,
    true, true, true, false)), (String ((Ascii (true, false, true, false,
    false, true, true, false)), (String ((Ascii (true, true, false, false,
    false, true, true, false)), (String ((Ascii (true, false, false, true,
    false, true, true, false)), (String ((Ascii (false, true, true, false,
    false, true, true, false)), (String ((Ascii (true, false, false, true,
    false, true, true, false)), (String ((Ascii (true, true, false, false,
    false, true, true, false)), (String ((Ascii (false, true, false, false,
    true, false, true, false)), (String ((Ascii (true, false, true, false,
    false, true, true, false)), (String ((Ascii (true, true, false, false,
    true, true, true, false)), (String ((Ascii (true, true, true, true,
    false, true, true, false)), (String ((Ascii (true, false, true, false,
    true, true, true, false)), (String ((Ascii (false, true, false, false,
    true, true, true, false)), (String ((Ascii (true, true, false, false,
    false, true, true, false)), (String ((Ascii (true, false, true, false,
    false, true, true, false)), (String ((Ascii (false, true, false, false,
    true, false, true, false)), (String ((Ascii (true, false, true, false,
    false, true, true, false)), (String ((Ascii (true, true, false, false,
    true, true, true, false)), (String ((Ascii (true, true, true, true,
    false, true, true, false)), (String ((Ascii (false, false, true, true,
    false, true, true, false)), (String ((Ascii (false, true, true, false,
    true, true, true, false)), (String ((Ascii (true, false, true, false,
    false, true, true, false)), (String ((Ascii (false, true, false, false,
    true, true, true, false)),
    EmptyString))))))))))))))))))))))))))))))))))))))))))))))))))))))))))))))))))))))))))))))))))))));
    a_var = (String ((Ascii (true, true, false, false, true, false, true,
    false)), (String ((Ascii (true, false, true, false, false, true, true,
    false)), (String ((Ascii (false, true, false, false, true, true, true,
    false)), (String ((Ascii (false, true, true, false, true, true, true,
    false)), (String ((Ascii (true, false, false, true, false, true, true,
    false)), (String ((Ascii (true, true, false, false, false, true, true,
    false)), (String ((Ascii (true, false, true, false, false, true, true,
    false)), (String ((Ascii (false, true, false, true, true, true, false,
    false)), (String ((Ascii (false, true, false, true, true, true, false,
    false)), (String ((Ascii (false, false, true, false, false, true, true,
    false)), (String ((Ascii (true, false, true, false, false, true, true,
    false)), (String ((Ascii (false, false, false, false, true, true, true,
    false)), (String ((Ascii (false, false, true, true, false, true, true,
    false)), (String ((Ascii (true, true, true, true, false, true, true,
    false)), (String ((Ascii (true, false, false, true, true, true, true,
    false)), (String ((Ascii (true, false, true, false, false, true, true,
    false)), (String ((Ascii (false, true, false, false, true, true, true,
    false)), EmptyString)))))))))))))))))))))))))))))))))); a_kind = ACall;
    a_locks = [] } :: ({ a_fn = (String ((Ascii (true, true, false, false,
    true, false, true, false)), (String ((Ascii (true, false, true, false,
    false, true, true, false)), (String ((Ascii (false, true, false, false,
    true, true, true, false)), (String ((Ascii (false, true, true, false,
    true, true, true, false)), (String ((Ascii (true, false, false, true,
    false, true, true, false)), (String ((Ascii (true, true, false, false,
    false, true, true, false)), (String ((Ascii (true, false, true, false,
    false, true, true, false)), (String ((Ascii (false, true, false, true,
    true, true, false, false)), (String ((Ascii (false, true, false, true,
    true, true, false, false)), (String ((Ascii (true, true, false, false,
    false, false, true, false)), (String ((Ascii (false, true, false, false,
    true, true, true, false)), (String ((Ascii (true, false, true, false,
    false, true, true, false)), (String ((Ascii (true, false, false, false,
    false, true, true, false)), (String ((Ascii (false, false, true, false,
    true, true, true, false)), (String ((Ascii (true, false, true, false,
    false, true, true, false)), (String ((Ascii (false, false, true, false,
    false, false, true, false)), (String ((Ascii (true, false, true, false,
    false, true, true, false)), (String ((Ascii (false, false, false, false,
    true, true, true, false)), (String ((Ascii (false, false, true, true,
    false, true, true, false)), (String ((Ascii (true, true, true, true,
    false, true, true, false)), (String ((Ascii (true, false, false, true,
    true, true, true, false)), (String ((Ascii (true, false, true, false,
    false, true, true, false)), (String ((Ascii (false, false, true, false,
    false, true, true, false)), (String ((Ascii (false, true, false, false,
    true, false, true, false)), (String ((Ascii (true, false, true, false,
    false, true, true, false)), (String ((Ascii (true, true, false, false,
    true, true, true, false)), (String ((Ascii (true, true, true, true,
    false, true, true, false)), (String ((Ascii (true, false, true, false,
    true, true, true, false)), (String ((Ascii (false, true, false, false,
    true, true, true, false)), (String ((Ascii (true, true, false, false,
    false, true, true, false)), (String ((Ascii (true, false, true, false,
    false, true, true, false)), (String ((Ascii (false, true, false, false,
    true, false, true, false)), (String ((Ascii (true, false, true, false,
    false, true, true, false)), (String ((Ascii (true, true, false, false,
    true, true, true, false)), (String ((Ascii (true, true, true, true,
    false, true, true, false)), (String ((Ascii (false, false, true, true,
    false, true, true, false)), (String ((Ascii (false, true, true, false,
    true, true, true, false)), (String ((Ascii (true, false, true, false,
    false, true, true, false)), (String ((Ascii (false, true, false, false,
    true, true, true, false)),
    EmptyString))))))))))))))))))))))))))))))))))))))))))))))))))))))))))))))))))))))))))))));
    a_var = (String ((Ascii (true, true, false, false, true, false, true,
    false)), (String ((Ascii (true, false, true, false, false, true, true,
    false)), (String ((Ascii (false, true, false, false, true, true, true,
    false)), (String ((Ascii (false, true, true, false, true, true, true,
    false)), (String ((Ascii (true, false, false, true, false, true, true,
    false)), (String ((Ascii (true, true, false, false, false, true, true,
    false)), (String ((Ascii (true, false, true, false, false, true, true,
    false)), (String ((Ascii (false, true, false, true, true, true, false,
    false)), (String ((Ascii (false, true, false, true, true, true, false,
    false)), (String ((Ascii (false, false, true, false, false, true, true,
    false)), (String ((Ascii (true, false, true, false, false, true, true,
    false)), (String ((Ascii (false, false, false, false, true, true, true,
    false)), (String ((Ascii (false, false, true, true, false, true, true,
    false)), (String ((Ascii (true, true, true, true, false, true, true,
    false)), (String ((Ascii (true, false, false, true, true, true, true,
    false)), (String ((Ascii (true, false, true, false, false, true, true,
    false)), (String ((Ascii (false, true, false, false, true, true, true,
    false)), EmptyString)))))))))))))))))))))))))))))))))); a_kind = ACall;
    a_locks = [] } :: ({ a_fn = (String ((Ascii (true, true, false, false,
    true, false, true, false)), (String ((Ascii (true, false, true, false,
    false, true, true, false)), (String ((Ascii (false, true, false, false,
    true, true, true, false)), (String ((Ascii (false, true, true, false,
    true, true, true, false)), (String ((Ascii (true, false, false, true,
    false, true, true, false)), (String ((Ascii (true, true, false, false,
    false, true, true, false)), (String ((Ascii (true, false, true, false,
    false, true, true, false)), (String ((Ascii (false, true, false, true,
    true, true, false, false)), (String ((Ascii (false, true, false, true,
    true, true, false, false)), (String ((Ascii (true, true, false, false,
    false, false, true, false)), (String ((Ascii (false, true, false, false,
    true, true, true, false)), (String ((Ascii (true, false, true, false,
    false, true, true, false)), (String ((Ascii (true, false, false, false,
    false, true, true, false)), (String ((Ascii (false, false, true, false,
    true, true, true, false)), (String ((Ascii (true, false, true, false,
    false, true, true, false)), (String ((Ascii (false, false, true, false,
    false, false, true, false)), (String ((Ascii (true, false, true, false,
    false, true, true, false)), (String ((Ascii (false, false, false, false,
    true, true, true, false)), (String ((Ascii (false, false, true, true,
    false, true, true, false)), (String ((Ascii (true, true, true, true,
    false, true, true, false)), (String ((Ascii (true, false, false, true,
    true, true, true, false)), (String ((Ascii (true, false, true, false,
    false, true, true, false)), (String ((Ascii (false, false, true, false,
    false, true, true, false)), (String ((Ascii (false, true, false, false,
    true, false, true, false)), (String ((Ascii (true, false, true, false,
    false, true, true, false)), (String ((Ascii (true, true, false, false,
    true, true, true, false)), (String ((Ascii (true, true, true, true,
    false, true, true, false)), (String ((Ascii (true, false, true, false,
    true, true, true, false)), (String ((Ascii (false, true, false, false,
    true, true, true, false)), (String ((Ascii (true, true, false, false,
    false, true, true, false)), (String ((Ascii (true, false, true, false,
    false, true, true, false)), (String ((Ascii (false, true, false, false,
    true, false, true, false)), (String ((Ascii (true, false, true, false,
    false, true, true, false)), (String ((Ascii (true, true, false, false,
    true, true, true, false)), (String ((Ascii (true, true, true, true,
    false, true, true, false)), (String ((Ascii (false, false, true, true,
    false, true, true, false)), (String ((Ascii (false, true, true, false,
    true, true, true, false)), (String ((Ascii (true, false, true, false,
    false, true, true, false)), (String ((Ascii (false, true, false, false,
    true, true, true, false)),
    EmptyString))))))))))))))))))))))))))))))))))))))))))))))))))))))))))))))))))))))))))))));
    a_var = (String ((Ascii (true, true, false, false, true, false, true,
    false)), (String ((Ascii (true, false, true, false, false, true, true,
    false)), (String ((Ascii (false, true, false, false, true, true, true,
    false)), (String ((Ascii (false, true, true, false, true, true, true,
    false)), (String ((Ascii (true, false, false, true, false, true, true,
    false)), (String ((Ascii (true, true, false, false, false, true, true,
    false)), (String ((Ascii (true, false, true, false, false, true, true,
    false)), (String ((Ascii (false, true, false, true, true, true, false,
    false)), (String ((Ascii (false, true, false, true, true, true, false,
    false)), (String ((Ascii (false, false, true, false, false, true, true,
    false)), (String ((Ascii (true, false, true, false, false, true, true,
    false)), (String ((Ascii (false, false, false, false, true, true, true,
    false)), (String ((Ascii (false, false, true, true, false, true, true,
    false)), (String ((Ascii (true, true, true, true, false, true, true,
    false)), (String ((Ascii (true, false, false, true, true, true, true,
    false)), (String ((Ascii (true, false, true, false, false, true, true,
    false)), (String ((Ascii (false, true, false, false, true, true, true,
    false)), EmptyString)))))))))))))))))))))))))))))))))); a_kind = ACall;
    a_locks = [] } :: ({ a_fn = (String ((Ascii (true, true, false, false,
    true, false, true, false)), (String ((Ascii (true, false, true, false,
    false, true, true, false)), (String ((Ascii (false, true, false, false,
    true, true, true, false)), (String ((Ascii (false, true, true, false,
    true, true, true, false)), (String ((Ascii (true, false, false, true,
    false, true, true, false)), (String ((Ascii (true, true, false, false,
    false, true, true, false)), (String ((Ascii (true, false, true, false,
    false, true, true, false)), (String ((Ascii (false, true, false, true,
    true, true, false, false)), (String ((Ascii (false, true, false, true,
    true, true, false, false)), (String ((Ascii (true, true, false, false,
    false, false, true, false)), (String ((Ascii (false, true, false, false,
    true, true, true, false)), (String ((Ascii (true, false, true, false,
    false, true, true, false)), (String ((Ascii (true, false, false, false,
    false, true, true, false)), (String ((Ascii (false, false, true, false,
    true, true, true, false)), (String ((Ascii (true, false, true, false,
    false, true, true, false)), (String ((Ascii (true, true, false, false,
    true, false, true, false)), (String ((Ascii (false, false, true, false,
    true, true, true, false)), (String ((Ascii (true, false, false, false,
    false, true, true, false)), (String ((Ascii (true, true, true, false,
    false, true, true, false)), (String ((Ascii (true, false, false, true,
    false, true, true, false)), (String ((Ascii (false, true, true, true,
    false, true, true, false)), (String ((Ascii (true, true, true, false,
    false, true, true, false)), (String ((Ascii (false, true, false, false,
    true, false, true, false)), (String ((Ascii (true, false, true, false,
    false, true, true, false)), (String ((Ascii (true, true, false, false,
    true, true, true, false)), (String ((Ascii (true, true, true, true,
    false, true, true, false)), (String ((Ascii (true, false, true, false,
    true, true, true, false)), (String ((Ascii (false, true, false, false,
    true, true, true, false)), (String ((Ascii (true, true, false, false,
    false, true, true, false)), (String ((Ascii (true, false, true, false,
    false, true, true, false)), (String ((Ascii (false, true, false, false,
    true, false, true, false)), (String ((Ascii (true, false, true, false,
    false, true, true, false)), (String ((Ascii (true, true, false, false,
    true, true, true, false)), (String ((Ascii (true, true, true, true,
    false, true, true, false)), (String ((Ascii (false, false, true, true,
    false, true, true, false)), (String ((Ascii (false, true, true, false,
    true, true, true, false)), (String ((Ascii (true, false, true, false,
    false, true, true, false)), (String ((Ascii (false, true, false, false,
    true, true, true, false)),
    EmptyString))))))))))))))))))))))))))))))))))))))))))))))))))))))))))))))))))))))))))));
    a_var = (String ((Ascii (true, true, false, false, true, false, true,
    false)), (String ((Ascii (true, false, true, false, false, true, true,
    false)), (String ((Ascii (false, true, false, false, true, true, true,
    false)), (String ((Ascii (false, true, true, false, true, true, true,
    false)), (String ((Ascii (true, false, false, true, false, true, true,
    false)), (String ((Ascii (true, true, false, false, false, true, true,
    false)), (String ((Ascii (true, false, true, false, false, true, true,
    false)), (String ((Ascii (false, true, false, true, true, true, false,
    false)), (String ((Ascii (false, true, false, true, true, true, false,
    false)), (String ((Ascii (false, false, true, false, false, true, true,
    false)), (String ((Ascii (true, false, true, false, false, true, true,
    false)), (String ((Ascii (false, false, false, false, true, true, true,
    false)), (String ((Ascii (false, false, true, true, false, true, true,
    false)), (String ((Ascii (true, true, true, true, false, true, true,
    false)), (String ((Ascii (true, false, false, true, true, true, true,
    false)), (String ((Ascii (true, false, true, false, false, true, true,
    false)), (String ((Ascii (false, true, false, false, true, true, true,
    false)), EmptyString)))))))))))))))))))))))))))))))))); a_kind = ACall;
    a_locks =
    [] } :: []))))))))))))))))))))))))))))))))))))))))))))))))))))))))))))

(** val handover_fact : handover **)

let handover_fact =
  HFlag
