
type nat =
| O
| S of nat

val length : 'a1 list -> nat

val app : 'a1 list -> 'a1 list -> 'a1 list

val add : nat -> nat -> nat

val sub : nat -> nat -> nat

type byte =
| X00
| X01
| X02
| X03
| X04
| X05
| X06
| X07
| X08
| X09
| X0a
| X0b
| X0c
| X0d
| X0e
| X0f
| X10
| X11
| X12
| X13
| X14
| X15
| X16
| X17
| X18
| X19
| X1a
| X1b
| X1c
| X1d
| X1e
| X1f
| X20
| X21
| X22
| X23
| X24
| X25
| X26
| X27
| X28
| X29
| X2a
| X2b
| X2c
| X2d
| X2e
| X2f
| X30
| X31
| X32
| X33
| X34
| X35
| X36
| X37
| X38
| X39
| X3a
| X3b
| X3c
| X3d
| X3e
| X3f
| X40
| X41
| X42
| X43
| X44
| X45
| X46
| X47
| X48
| X49
| X4a
| X4b
| X4c
| X4d
| X4e
| X4f
| X50
| X51
| X52
| X53
| X54
| X55
| X56
| X57
| X58
| X59
| X5a
| X5b
| X5c
| X5d
| X5e
| X5f
| X60
| X61
| X62
| X63
| X64
| X65
| X66
| X67
| X68
| X69
| X6a
| X6b
| X6c
| X6d
| X6e
| X6f
| X70
| X71
| X72
| X73
| X74
| X75
| X76
| X77
| X78
| X79
| X7a
| X7b
| X7c
| X7d
| X7e
| X7f
| X80
| X81
| X82
| X83
| X84
| X85
| X86
| X87
| X88
| X89
| X8a
| X8b
| X8c
| X8d
| X8e
| X8f
| X90
| X91
| X92
| X93
| X94
| X95
| X96
| X97
| X98
| X99
| X9a
| X9b
| X9c
| X9d
| X9e
| X9f
| Xa0
| Xa1
| Xa2
| Xa3
| Xa4
| Xa5
| Xa6
| Xa7
| Xa8
| Xa9
| Xaa
| Xab
| Xac
| Xad
| Xae
| Xaf
| Xb0
| Xb1
| Xb2
| Xb3
| Xb4
| Xb5
| Xb6
| Xb7
| Xb8
| Xb9
| Xba
| Xbb
| Xbc
| Xbd
| Xbe
| Xbf
| Xc0
| Xc1
| Xc2
| Xc3
| Xc4
| Xc5
| Xc6
| Xc7
| Xc8
| Xc9
| Xca
| Xcb
| Xcc
| Xcd
| Xce
| Xcf
| Xd0
| Xd1
| Xd2
| Xd3
| Xd4
| Xd5
| Xd6
| Xd7
| Xd8
| Xd9
| Xda
| Xdb
| Xdc
| Xdd
| Xde
| Xdf
| Xe0
| Xe1
| Xe2
| Xe3
| Xe4
| Xe5
| Xe6
| Xe7
| Xe8
| Xe9
| Xea
| Xeb
| Xec
| Xed
| Xee
| Xef
| Xf0
| Xf1
| Xf2
| Xf3
| Xf4
| Xf5
| Xf6
| Xf7
| Xf8
| Xf9
| Xfa
| Xfb
| Xfc
| Xfd
| Xfe
| Xff

val to_bits :
  byte -> bool * (bool * (bool * (bool * (bool * (bool * (bool * bool))))))

val eqb : bool -> bool -> bool

module Nat :
 sig
  val eqb : nat -> nat -> bool

  val leb : nat -> nat -> bool

  val ltb : nat -> nat -> bool

  val min : nat -> nat -> nat
 end

val nth : nat -> 'a1 list -> 'a1 -> 'a1

val firstn : nat -> 'a1 list -> 'a1 list

val skipn : nat -> 'a1 list -> 'a1 list

val repeat : 'a1 -> nat -> 'a1 list

type positive =
| XI of positive
| XO of positive
| XH

type n =
| N0
| Npos of positive

val eqb0 : byte -> byte -> bool

val to_N : byte -> n

val of_N : n -> byte option

type ascii =
| Ascii of bool * bool * bool * bool * bool * bool * bool * bool

type string =
| EmptyString
| String of ascii * string

type bytes = byte list

val byte_of_N : n -> byte

val n_of_byte : byte -> n

type bytes0 = bytes

type sz =
| SzN
| SzNm1
| SzLen
| SzLenP1
| SzMinLenNm1
| SzMinLenP1N
| SzConst of nat
| SzUnknown

type stmt =
| Strncpy of sz
| Memcpy of sz
| PokeNul of sz
| Snprintf of sz
| IfPos of stmt list
| Unrecognised

val eval_sz : sz -> nat -> nat -> nat option

val strncpy_bytes : bytes0 -> nat -> bytes0

val write0 : bytes0 -> bytes0 -> bytes0 option

val poke : nat -> byte -> bytes0 -> bytes0 option

val exec_stmt : nat -> stmt -> bytes0 -> nat -> bytes0 -> bytes0 option

val exec : nat -> stmt list -> bytes0 -> nat -> bytes0 -> bytes0 option

val run : stmt list -> bytes0 -> nat -> bytes0 -> bytes0 option

val byte_eqb : byte -> byte -> bool

val bytes_eqb : bytes0 -> bytes0 -> bool

val copy_postb : bytes0 -> nat -> bytes0 -> bytes0 -> bool

val idiom_ok : stmt list -> bool

type site = { site_name : string; site_prog : stmt list }

val copy_sites : site list
