
(** val negb : bool -> bool **)

let negb = function
| true -> false
| false -> true

type nat =
| O
| S of nat

(** val app : 'a1 list -> 'a1 list -> 'a1 list **)

let rec app l m =
  match l with
  | [] -> m
  | a :: l1 -> a :: (app l1 m)

type comparison =
| Eq
| Lt
| Gt

(** val eqb : bool -> bool -> bool **)

let eqb b1 b2 =
  if b1 then b2 else if b2 then false else true

(** val map : ('a1 -> 'a2) -> 'a1 list -> 'a2 list **)

let rec map f = function
| [] -> []
| a :: t -> (f a) :: (map f t)

(** val flat_map : ('a1 -> 'a2 list) -> 'a1 list -> 'a2 list **)

let rec flat_map f = function
| [] -> []
| x :: t -> app (f x) (flat_map f t)

(** val fold_left : ('a1 -> 'a2 -> 'a1) -> 'a2 list -> 'a1 -> 'a1 **)

let rec fold_left f l a0 =
  match l with
  | [] -> a0
  | b :: t -> fold_left f t (f a0 b)

(** val existsb : ('a1 -> bool) -> 'a1 list -> bool **)

let rec existsb f = function
| [] -> false
| a :: l0 -> (||) (f a) (existsb f l0)

(** val forallb : ('a1 -> bool) -> 'a1 list -> bool **)

let rec forallb f = function
| [] -> true
| a :: l0 -> (&&) (f a) (forallb f l0)

type positive =
| XI of positive
| XO of positive
| XH

type n =
| N0
| Npos of positive

module Pos =
 struct
  (** val compare_cont : comparison -> positive -> positive -> comparison **)

  let rec compare_cont r x y =
    match x with
    | XI p ->
      (match y with
       | XI q -> compare_cont r p q
       | XO q -> compare_cont Gt p q
       | XH -> Gt)
    | XO p ->
      (match y with
       | XI q -> compare_cont Lt p q
       | XO q -> compare_cont r p q
       | XH -> Gt)
    | XH -> (match y with
             | XH -> r
             | _ -> Lt)

  (** val compare : positive -> positive -> comparison **)

  let compare =
    compare_cont Eq

  (** val eqb : positive -> positive -> bool **)

  let rec eqb p q =
    match p with
    | XI p0 -> (match q with
                | XI q0 -> eqb p0 q0
                | _ -> false)
    | XO p0 -> (match q with
                | XO q0 -> eqb p0 q0
                | _ -> false)
    | XH -> (match q with
             | XH -> true
             | _ -> false)
 end

module N =
 struct
  (** val compare : n -> n -> comparison **)

  let compare n0 m =
    match n0 with
    | N0 -> (match m with
             | N0 -> Eq
             | Npos _ -> Lt)
    | Npos n' -> (match m with
                  | N0 -> Gt
                  | Npos m' -> Pos.compare n' m')

  (** val eqb : n -> n -> bool **)

  let eqb n0 m =
    match n0 with
    | N0 -> (match m with
             | N0 -> true
             | Npos _ -> false)
    | Npos p -> (match m with
                 | N0 -> false
                 | Npos q -> Pos.eqb p q)

  (** val leb : n -> n -> bool **)

  let leb x y =
    match compare x y with
    | Gt -> false
    | _ -> true

  (** val max : n -> n -> n **)

  let max n0 n' =
    match compare n0 n' with
    | Gt -> n0
    | _ -> n'
 end

type ascii =
| Ascii of bool * bool * bool * bool * bool * bool * bool * bool

(** val eqb0 : ascii -> ascii -> bool **)

let eqb0 a b =
  let Ascii (a0, a1, a2, a3, a4, a5, a6, a7) = a in
  let Ascii (b0, b1, b2, b3, b4, b5, b6, b7) = b in
  if if if if if if if eqb a0 b0 then eqb a1 b1 else false
                 then eqb a2 b2
                 else false
              then eqb a3 b3
              else false
           then eqb a4 b4
           else false
        then eqb a5 b5
        else false
     then eqb a6 b6
     else false
  then eqb a7 b7
  else false

type string =
| EmptyString
| String of ascii * string

(** val eqb1 : string -> string -> bool **)

let rec eqb1 s1 s2 =
  match s1 with
  | EmptyString ->
    (match s2 with
     | EmptyString -> true
     | String (_, _) -> false)
  | String (c1, s1') ->
    (match s2 with
     | EmptyString -> false
     | String (c2, s2') -> if eqb0 c1 c2 then eqb1 s1' s2' else false)

type bstmt =
| SCreate
| SAllocMeta
| SField of string
| STag
| SRetTrue
| SUnknown of string

type kind =
| KTable
| KPrismF
| KReverse

type save_mode =
| InPlace
| TempRename
| SaveUnknown

type build_facts = { bf_prog : (kind -> bstmt list);
                     bf_remove_before : (kind -> bool);
                     bf_create_resizes_existing : bool;
                     bf_alloc_zeroes : bool; bf_open_guarded : bool;
                     bf_save_mode : save_mode; bf_stamp_last : bool }

type mfile = { m_size : n; m_tag : bool; m_fields : string list; m_extent : n }

type eff =
| ETrunc
| ESize of n
| EResize of n
| EZeroMeta
| EStore of string * n
| ETag
| EShrink of n

(** val blank : n -> mfile **)

let blank n0 =
  { m_size = n0; m_tag = false; m_fields = []; m_extent = N0 }

(** val apply_eff : eff -> mfile option -> mfile option **)

let apply_eff e f =
  match e with
  | ETrunc -> Some (blank N0)
  | ESize n0 -> Some (blank n0)
  | EResize n0 ->
    (match f with
     | Some m ->
       Some { m_size = n0; m_tag = m.m_tag; m_fields = m.m_fields; m_extent =
         m.m_extent }
     | None -> None)
  | EZeroMeta ->
    (match f with
     | Some m ->
       Some { m_size = m.m_size; m_tag = false; m_fields = []; m_extent = N0 }
     | None -> None)
  | EStore (g, x) ->
    (match f with
     | Some m ->
       Some { m_size = m.m_size; m_tag = m.m_tag; m_fields =
         (g :: m.m_fields); m_extent = (N.max m.m_extent x) }
     | None -> None)
  | ETag ->
    (match f with
     | Some m ->
       Some { m_size = m.m_size; m_tag = true; m_fields = m.m_fields;
         m_extent = m.m_extent }
     | None -> None)
  | EShrink n0 ->
    (match f with
     | Some m ->
       Some { m_size = n0; m_tag = m.m_tag; m_fields = m.m_fields; m_extent =
         m.m_extent }
     | None -> None)

(** val run_effs : eff list -> mfile option -> mfile option **)

let run_effs es f =
  fold_left (fun st e -> apply_eff e st) es f

(** val stmt_effs :
    build_facts -> bool -> n -> (string -> n) -> bstmt -> eff list **)

let stmt_effs bf ex est ext = function
| SCreate ->
  if (&&) ex bf.bf_create_resizes_existing
  then (EResize est) :: []
  else ETrunc :: ((ESize est) :: [])
| SAllocMeta -> if bf.bf_alloc_zeroes then EZeroMeta :: [] else []
| SField g -> (EStore (g, (ext g))) :: []
| STag -> ETag :: []
| _ -> []

(** val builder_effs :
    build_facts -> kind -> bool -> n -> n -> (string -> n) -> eff list **)

let builder_effs bf k ex est fin ext =
  app (flat_map (stmt_effs bf ex est ext) (bf.bf_prog k)) ((EShrink
    fin) :: [])

(** val start_file : build_facts -> kind -> mfile option -> mfile option **)

let start_file bf k old =
  if bf.bf_remove_before k then None else old

(** val is_some : 'a1 option -> bool **)

let is_some = function
| Some _ -> true
| None -> false

(** val kill_effs :
    build_facts -> kind -> mfile option -> n -> n -> (string -> n) -> eff list **)

let kill_effs bf k old est fin ext =
  builder_effs bf k (is_some (start_file bf k old)) est fin ext

type lres =
| LReject
| LAccept
| LCrash

(** val has : string -> mfile -> bool **)

let has g m =
  existsb (eqb1 g) m.m_fields

(** val checked_ptrs : kind -> string list **)

let checked_ptrs = function
| KTable ->
  (String ((Ascii (true, true, false, false, true, true, true, false)),
    (String ((Ascii (true, false, false, true, true, true, true, false)),
    (String ((Ascii (false, false, true, true, false, true, true, false)),
    (String ((Ascii (false, false, true, true, false, true, true, false)),
    (String ((Ascii (true, false, false, false, false, true, true, false)),
    (String ((Ascii (false, true, false, false, false, true, true, false)),
    (String ((Ascii (true, false, false, false, false, true, true, false)),
    (String ((Ascii (false, true, false, false, true, true, true, false)),
    (String ((Ascii (true, false, false, true, true, true, true, false)),
    EmptyString)))))))))))))))))) :: ((String ((Ascii (true, false, false,
    true, false, true, true, false)), (String ((Ascii (false, true, true,
    true, false, true, true, false)), (String ((Ascii (false, false, true,
    false, false, true, true, false)), (String ((Ascii (true, false, true,
    false, false, true, true, false)), (String ((Ascii (false, false, false,
    true, true, true, true, false)), EmptyString)))))))))) :: [])
| KPrismF ->
  (String ((Ascii (false, false, true, false, false, true, true, false)),
    (String ((Ascii (true, true, true, true, false, true, true, false)),
    (String ((Ascii (true, false, true, false, true, true, true, false)),
    (String ((Ascii (false, true, false, false, false, true, true, false)),
    (String ((Ascii (false, false, true, true, false, true, true, false)),
    (String ((Ascii (true, false, true, false, false, true, true, false)),
    (String ((Ascii (true, true, true, true, true, false, true, false)),
    (String ((Ascii (true, false, false, false, false, true, true, false)),
    (String ((Ascii (false, true, false, false, true, true, true, false)),
    (String ((Ascii (false, true, false, false, true, true, true, false)),
    (String ((Ascii (true, false, false, false, false, true, true, false)),
    (String ((Ascii (true, false, false, true, true, true, true, false)),
    EmptyString)))))))))))))))))))))))) :: []
| KReverse -> []

(** val load : build_facts -> kind -> mfile option -> lres **)

let load bf k = function
| Some m ->
  if N.eqb m.m_size N0
  then if bf.bf_open_guarded then LReject else LCrash
  else if negb m.m_tag
       then LReject
       else if negb (forallb (fun g -> has g m) (checked_ptrs k))
            then LReject
            else if N.leb m.m_extent m.m_size then LAccept else LCrash
| None -> LReject

(** val fields_then_tag : bstmt list -> bool **)

let rec fields_then_tag = function
| [] -> false
| b :: r ->
  (match b with
   | SField _ -> fields_then_tag r
   | STag ->
     (match r with
      | [] -> false
      | b0 :: l ->
        (match b0 with
         | SRetTrue -> (match l with
                        | [] -> true
                        | _ :: _ -> false)
         | _ -> false))
   | _ -> false)

(** val prog_ok : bstmt list -> bool **)

let prog_ok = function
| [] -> false
| b :: l ->
  (match b with
   | SCreate ->
     (match l with
      | [] -> false
      | b0 :: r ->
        (match b0 with
         | SAllocMeta -> fields_then_tag r
         | _ -> false))
   | _ -> false)

(** val prog_fields : bstmt list -> string list **)

let prog_fields p =
  flat_map (fun s -> match s with
                     | SField g -> g :: []
                     | _ -> []) p

(** val builder_ok : build_facts -> kind -> bool **)

let builder_ok bf k =
  (&&)
    ((&&)
      ((&&) ((&&) (prog_ok (bf.bf_prog k)) (bf.bf_remove_before k))
        bf.bf_open_guarded) bf.bf_alloc_zeroes)
    (forallb (fun g -> existsb (eqb1 g) (prog_fields (bf.bf_prog k)))
      (checked_ptrs k))

(** val tag_index : eff list -> nat **)

let rec tag_index = function
| [] -> O
| e :: r -> (match e with
             | ETag -> O
             | _ -> S (tag_index r))

type 'a yfs = { y_final : 'a list option; y_tmp : 'a list option }

type 'a yeff =
| YOpenTrunc of bool
| YWrite of bool * 'a list
| YRename

(** val yapp : 'a1 list option -> 'a1 list -> 'a1 list option **)

let yapp o c =
  match o with
  | Some b -> Some (app b c)
  | None -> None

(** val apply_yeff : 'a1 yeff -> 'a1 yfs -> 'a1 yfs **)

let apply_yeff e st =
  match e with
  | YOpenTrunc tmp ->
    if tmp
    then { y_final = st.y_final; y_tmp = (Some []) }
    else { y_final = (Some []); y_tmp = st.y_tmp }
  | YWrite (tmp, c) ->
    if tmp
    then { y_final = st.y_final; y_tmp = (yapp st.y_tmp c) }
    else { y_final = (yapp st.y_final c); y_tmp = st.y_tmp }
  | YRename ->
    (match st.y_tmp with
     | Some b -> { y_final = (Some b); y_tmp = None }
     | None -> st)

(** val run_yeffs : 'a1 yeff list -> 'a1 yfs -> 'a1 yfs **)

let run_yeffs es st =
  fold_left (fun s e -> apply_yeff e s) es st

(** val save_effs : save_mode -> 'a1 list list -> 'a1 yeff list **)

let save_effs mode chunks =
  match mode with
  | InPlace -> (YOpenTrunc false) :: (map (fun x -> YWrite (false, x)) chunks)
  | TempRename ->
    (YOpenTrunc
      true) :: (app (map (fun x -> YWrite (true, x)) chunks) (YRename :: []))
  | SaveUnknown -> []

(** val prog_KTable : bstmt list **)

let prog_KTable =
  SCreate :: (SAllocMeta :: ((SField (String ((Ascii (false, false, true,
    false, false, true, true, false)), (String ((Ascii (true, false, false,
    true, false, true, true, false)), (String ((Ascii (true, true, false,
    false, false, true, true, false)), (String ((Ascii (false, false, true,
    false, true, true, true, false)), (String ((Ascii (true, true, true,
    true, true, false, true, false)), (String ((Ascii (false, true, true,
    false, false, true, true, false)), (String ((Ascii (true, false, false,
    true, false, true, true, false)), (String ((Ascii (false, false, true,
    true, false, true, true, false)), (String ((Ascii (true, false, true,
    false, false, true, true, false)), (String ((Ascii (true, true, true,
    true, true, false, true, false)), (String ((Ascii (true, true, false,
    false, false, true, true, false)), (String ((Ascii (false, false, false,
    true, false, true, true, false)), (String ((Ascii (true, false, true,
    false, false, true, true, false)), (String ((Ascii (true, true, false,
    false, false, true, true, false)), (String ((Ascii (true, true, false,
    true, false, true, true, false)), (String ((Ascii (true, true, false,
    false, true, true, true, false)), (String ((Ascii (true, false, true,
    false, true, true, true, false)), (String ((Ascii (true, false, true,
    true, false, true, true, false)),
    EmptyString))))))))))))))))))))))))))))))))))))) :: ((SField (String
    ((Ascii (false, true, true, true, false, true, true, false)), (String
    ((Ascii (true, false, true, false, true, true, true, false)), (String
    ((Ascii (true, false, true, true, false, true, true, false)), (String
    ((Ascii (true, true, true, true, true, false, true, false)), (String
    ((Ascii (true, true, false, false, true, true, true, false)), (String
    ((Ascii (true, false, false, true, true, true, true, false)), (String
    ((Ascii (false, false, true, true, false, true, true, false)), (String
    ((Ascii (false, false, true, true, false, true, true, false)), (String
    ((Ascii (true, false, false, false, false, true, true, false)), (String
    ((Ascii (false, true, false, false, false, true, true, false)), (String
    ((Ascii (false, false, true, true, false, true, true, false)), (String
    ((Ascii (true, false, true, false, false, true, true, false)), (String
    ((Ascii (true, true, false, false, true, true, true, false)),
    EmptyString))))))))))))))))))))))))))) :: ((SField (String ((Ascii
    (false, true, true, true, false, true, true, false)), (String ((Ascii
    (true, false, true, false, true, true, true, false)), (String ((Ascii
    (true, false, true, true, false, true, true, false)), (String ((Ascii
    (true, true, true, true, true, false, true, false)), (String ((Ascii
    (true, false, true, false, false, true, true, false)), (String ((Ascii
    (false, true, true, true, false, true, true, false)), (String ((Ascii
    (false, false, true, false, true, true, true, false)), (String ((Ascii
    (false, true, false, false, true, true, true, false)), (String ((Ascii
    (true, false, false, true, false, true, true, false)), (String ((Ascii
    (true, false, true, false, false, true, true, false)), (String ((Ascii
    (true, true, false, false, true, true, true, false)),
    EmptyString))))))))))))))))))))))) :: ((SField (String ((Ascii (true,
    true, false, false, true, true, true, false)), (String ((Ascii (true,
    false, false, true, true, true, true, false)), (String ((Ascii (false,
    false, true, true, false, true, true, false)), (String ((Ascii (false,
    false, true, true, false, true, true, false)), (String ((Ascii (true,
    false, false, false, false, true, true, false)), (String ((Ascii (false,
    true, false, false, false, true, true, false)), (String ((Ascii (true,
    false, false, false, false, true, true, false)), (String ((Ascii (false,
    true, false, false, true, true, true, false)), (String ((Ascii (true,
    false, false, true, true, true, true, false)),
    EmptyString))))))))))))))))))) :: ((SField (String ((Ascii (true, false,
    false, true, false, true, true, false)), (String ((Ascii (false, true,
    true, true, false, true, true, false)), (String ((Ascii (false, false,
    true, false, false, true, true, false)), (String ((Ascii (true, false,
    true, false, false, true, true, false)), (String ((Ascii (false, false,
    false, true, true, true, true, false)),
    EmptyString))))))))))) :: ((SField (String ((Ascii (true, true, false,
    false, true, true, true, false)), (String ((Ascii (false, false, true,
    false, true, true, true, false)), (String ((Ascii (false, true, false,
    false, true, true, true, false)), (String ((Ascii (true, false, false,
    true, false, true, true, false)), (String ((Ascii (false, true, true,
    true, false, true, true, false)), (String ((Ascii (true, true, true,
    false, false, true, true, false)), (String ((Ascii (true, true, true,
    true, true, false, true, false)), (String ((Ascii (false, false, true,
    false, true, true, true, false)), (String ((Ascii (true, false, false,
    false, false, true, true, false)), (String ((Ascii (false, true, false,
    false, false, true, true, false)), (String ((Ascii (false, false, true,
    true, false, true, true, false)), (String ((Ascii (true, false, true,
    false, false, true, true, false)),
    EmptyString))))))))))))))))))))))))) :: ((SField (String ((Ascii (true,
    true, false, false, true, true, true, false)), (String ((Ascii (false,
    false, true, false, true, true, true, false)), (String ((Ascii (false,
    true, false, false, true, true, true, false)), (String ((Ascii (true,
    false, false, true, false, true, true, false)), (String ((Ascii (false,
    true, true, true, false, true, true, false)), (String ((Ascii (true,
    true, true, false, false, true, true, false)), (String ((Ascii (true,
    true, true, true, true, false, true, false)), (String ((Ascii (false,
    false, true, false, true, true, true, false)), (String ((Ascii (true,
    false, false, false, false, true, true, false)), (String ((Ascii (false,
    true, false, false, false, true, true, false)), (String ((Ascii (false,
    false, true, true, false, true, true, false)), (String ((Ascii (true,
    false, true, false, false, true, true, false)), (String ((Ascii (true,
    true, true, true, true, false, true, false)), (String ((Ascii (true,
    true, false, false, true, true, true, false)), (String ((Ascii (true,
    false, false, true, false, true, true, false)), (String ((Ascii (false,
    true, false, true, true, true, true, false)), (String ((Ascii (true,
    false, true, false, false, true, true, false)),
    EmptyString))))))))))))))))))))))))))))))))))) :: (STag :: (SRetTrue :: []))))))))))

(** val prog_KPrismF : bstmt list **)

let prog_KPrismF =
  SCreate :: (SAllocMeta :: ((SField (String ((Ascii (false, false, true,
    false, false, true, true, false)), (String ((Ascii (true, false, false,
    true, false, true, true, false)), (String ((Ascii (true, true, false,
    false, false, true, true, false)), (String ((Ascii (false, false, true,
    false, true, true, true, false)), (String ((Ascii (true, true, true,
    true, true, false, true, false)), (String ((Ascii (false, true, true,
    false, false, true, true, false)), (String ((Ascii (true, false, false,
    true, false, true, true, false)), (String ((Ascii (false, false, true,
    true, false, true, true, false)), (String ((Ascii (true, false, true,
    false, false, true, true, false)), (String ((Ascii (true, true, true,
    true, true, false, true, false)), (String ((Ascii (true, true, false,
    false, false, true, true, false)), (String ((Ascii (false, false, false,
    true, false, true, true, false)), (String ((Ascii (true, false, true,
    false, false, true, true, false)), (String ((Ascii (true, true, false,
    false, false, true, true, false)), (String ((Ascii (true, true, false,
    true, false, true, true, false)), (String ((Ascii (true, true, false,
    false, true, true, true, false)), (String ((Ascii (true, false, true,
    false, true, true, true, false)), (String ((Ascii (true, false, true,
    true, false, true, true, false)),
    EmptyString))))))))))))))))))))))))))))))))))))) :: ((SField (String
    ((Ascii (true, true, false, false, true, true, true, false)), (String
    ((Ascii (true, true, false, false, false, true, true, false)), (String
    ((Ascii (false, false, false, true, false, true, true, false)), (String
    ((Ascii (true, false, true, false, false, true, true, false)), (String
    ((Ascii (true, false, true, true, false, true, true, false)), (String
    ((Ascii (true, false, false, false, false, true, true, false)), (String
    ((Ascii (true, true, true, true, true, false, true, false)), (String
    ((Ascii (false, true, true, false, false, true, true, false)), (String
    ((Ascii (true, false, false, true, false, true, true, false)), (String
    ((Ascii (false, false, true, true, false, true, true, false)), (String
    ((Ascii (true, false, true, false, false, true, true, false)), (String
    ((Ascii (true, true, true, true, true, false, true, false)), (String
    ((Ascii (true, true, false, false, false, true, true, false)), (String
    ((Ascii (false, false, false, true, false, true, true, false)), (String
    ((Ascii (true, false, true, false, false, true, true, false)), (String
    ((Ascii (true, true, false, false, false, true, true, false)), (String
    ((Ascii (true, true, false, true, false, true, true, false)), (String
    ((Ascii (true, true, false, false, true, true, true, false)), (String
    ((Ascii (true, false, true, false, true, true, true, false)), (String
    ((Ascii (true, false, true, true, false, true, true, false)),
    EmptyString))))))))))))))))))))))))))))))))))))))))) :: ((SField (String
    ((Ascii (false, true, true, true, false, true, true, false)), (String
    ((Ascii (true, false, true, false, true, true, true, false)), (String
    ((Ascii (true, false, true, true, false, true, true, false)), (String
    ((Ascii (true, true, true, true, true, false, true, false)), (String
    ((Ascii (true, true, false, false, true, true, true, false)), (String
    ((Ascii (true, false, false, true, true, true, true, false)), (String
    ((Ascii (false, false, true, true, false, true, true, false)), (String
    ((Ascii (false, false, true, true, false, true, true, false)), (String
    ((Ascii (true, false, false, false, false, true, true, false)), (String
    ((Ascii (false, true, false, false, false, true, true, false)), (String
    ((Ascii (false, false, true, true, false, true, true, false)), (String
    ((Ascii (true, false, true, false, false, true, true, false)), (String
    ((Ascii (true, true, false, false, true, true, true, false)),
    EmptyString))))))))))))))))))))))))))) :: ((SField (String ((Ascii
    (false, true, true, true, false, true, true, false)), (String ((Ascii
    (true, false, true, false, true, true, true, false)), (String ((Ascii
    (true, false, true, true, false, true, true, false)), (String ((Ascii
    (true, true, true, true, true, false, true, false)), (String ((Ascii
    (true, true, false, false, true, true, true, false)), (String ((Ascii
    (false, false, false, false, true, true, true, false)), (String ((Ascii
    (true, false, true, false, false, true, true, false)), (String ((Ascii
    (false, false, true, true, false, true, true, false)), (String ((Ascii
    (false, false, true, true, false, true, true, false)), (String ((Ascii
    (true, false, false, true, false, true, true, false)), (String ((Ascii
    (false, true, true, true, false, true, true, false)), (String ((Ascii
    (true, true, true, false, false, true, true, false)), (String ((Ascii
    (true, true, false, false, true, true, true, false)),
    EmptyString))))))))))))))))))))))))))) :: ((SField (String ((Ascii
    (false, false, true, false, false, true, true, false)), (String ((Ascii
    (true, true, true, true, false, true, true, false)), (String ((Ascii
    (true, false, true, false, true, true, true, false)), (String ((Ascii
    (false, true, false, false, false, true, true, false)), (String ((Ascii
    (false, false, true, true, false, true, true, false)), (String ((Ascii
    (true, false, true, false, false, true, true, false)), (String ((Ascii
    (true, true, true, true, true, false, true, false)), (String ((Ascii
    (true, false, false, false, false, true, true, false)), (String ((Ascii
    (false, true, false, false, true, true, true, false)), (String ((Ascii
    (false, true, false, false, true, true, true, false)), (String ((Ascii
    (true, false, false, false, false, true, true, false)), (String ((Ascii
    (true, false, false, true, true, true, true, false)),
    EmptyString))))))))))))))))))))))))) :: ((SField (String ((Ascii (false,
    false, true, false, false, true, true, false)), (String ((Ascii (true,
    true, true, true, false, true, true, false)), (String ((Ascii (true,
    false, true, false, true, true, true, false)), (String ((Ascii (false,
    true, false, false, false, true, true, false)), (String ((Ascii (false,
    false, true, true, false, true, true, false)), (String ((Ascii (true,
    false, true, false, false, true, true, false)), (String ((Ascii (true,
    true, true, true, true, false, true, false)), (String ((Ascii (true,
    false, false, false, false, true, true, false)), (String ((Ascii (false,
    true, false, false, true, true, true, false)), (String ((Ascii (false,
    true, false, false, true, true, true, false)), (String ((Ascii (true,
    false, false, false, false, true, true, false)), (String ((Ascii (true,
    false, false, true, true, true, true, false)), (String ((Ascii (true,
    true, true, true, true, false, true, false)), (String ((Ascii (true,
    true, false, false, true, true, true, false)), (String ((Ascii (true,
    false, false, true, false, true, true, false)), (String ((Ascii (false,
    true, false, true, true, true, true, false)), (String ((Ascii (true,
    false, true, false, false, true, true, false)),
    EmptyString))))))))))))))))))))))))))))))))))) :: ((SField (String
    ((Ascii (true, true, false, false, true, true, true, false)), (String
    ((Ascii (false, false, false, false, true, true, true, false)), (String
    ((Ascii (true, false, true, false, false, true, true, false)), (String
    ((Ascii (false, false, true, true, false, true, true, false)), (String
    ((Ascii (false, false, true, true, false, true, true, false)), (String
    ((Ascii (true, false, false, true, false, true, true, false)), (String
    ((Ascii (false, true, true, true, false, true, true, false)), (String
    ((Ascii (true, true, true, false, false, true, true, false)), (String
    ((Ascii (true, true, true, true, true, false, true, false)), (String
    ((Ascii (true, false, true, true, false, true, true, false)), (String
    ((Ascii (true, false, false, false, false, true, true, false)), (String
    ((Ascii (false, false, false, false, true, true, true, false)),
    EmptyString))))))))))))))))))))))))) :: (STag :: (SRetTrue :: []))))))))))

(** val prog_KReverse : bstmt list **)

let prog_KReverse =
  SCreate :: (SAllocMeta :: ((SField (String ((Ascii (false, false, true,
    false, false, true, true, false)), (String ((Ascii (true, false, false,
    true, false, true, true, false)), (String ((Ascii (true, true, false,
    false, false, true, true, false)), (String ((Ascii (false, false, true,
    false, true, true, true, false)), (String ((Ascii (true, true, true,
    true, true, false, true, false)), (String ((Ascii (false, true, true,
    false, false, true, true, false)), (String ((Ascii (true, false, false,
    true, false, true, true, false)), (String ((Ascii (false, false, true,
    true, false, true, true, false)), (String ((Ascii (true, false, true,
    false, false, true, true, false)), (String ((Ascii (true, true, true,
    true, true, false, true, false)), (String ((Ascii (true, true, false,
    false, false, true, true, false)), (String ((Ascii (false, false, false,
    true, false, true, true, false)), (String ((Ascii (true, false, true,
    false, false, true, true, false)), (String ((Ascii (true, true, false,
    false, false, true, true, false)), (String ((Ascii (true, true, false,
    true, false, true, true, false)), (String ((Ascii (true, true, false,
    false, true, true, true, false)), (String ((Ascii (true, false, true,
    false, true, true, true, false)), (String ((Ascii (true, false, true,
    true, false, true, true, false)),
    EmptyString))))))))))))))))))))))))))))))))))))) :: ((SField (String
    ((Ascii (false, false, true, false, false, true, true, false)), (String
    ((Ascii (true, false, false, true, false, true, true, false)), (String
    ((Ascii (true, true, false, false, false, true, true, false)), (String
    ((Ascii (false, false, true, false, true, true, true, false)), (String
    ((Ascii (true, true, true, true, true, false, true, false)), (String
    ((Ascii (true, true, false, false, true, true, true, false)), (String
    ((Ascii (true, false, true, false, false, true, true, false)), (String
    ((Ascii (false, false, true, false, true, true, true, false)), (String
    ((Ascii (false, false, true, false, true, true, true, false)), (String
    ((Ascii (true, false, false, true, false, true, true, false)), (String
    ((Ascii (false, true, true, true, false, true, true, false)), (String
    ((Ascii (true, true, true, false, false, true, true, false)), (String
    ((Ascii (true, true, false, false, true, true, true, false)),
    EmptyString))))))))))))))))))))))))))) :: ((SField (String ((Ascii (true,
    false, false, true, false, true, true, false)), (String ((Ascii (false,
    true, true, true, false, true, true, false)), (String ((Ascii (false,
    false, true, false, false, true, true, false)), (String ((Ascii (true,
    false, true, false, false, true, true, false)), (String ((Ascii (false,
    false, false, true, true, true, true, false)), (String ((Ascii (false,
    true, true, true, false, true, false, false)), (String ((Ascii (true,
    true, false, false, true, true, true, false)), (String ((Ascii (true,
    false, false, true, false, true, true, false)), (String ((Ascii (false,
    true, false, true, true, true, true, false)), (String ((Ascii (true,
    false, true, false, false, true, true, false)),
    EmptyString))))))))))))))))))))) :: ((SField (String ((Ascii (true,
    false, false, true, false, true, true, false)), (String ((Ascii (false,
    true, true, true, false, true, true, false)), (String ((Ascii (false,
    false, true, false, false, true, true, false)), (String ((Ascii (true,
    false, true, false, false, true, true, false)), (String ((Ascii (false,
    false, false, true, true, true, true, false)), (String ((Ascii (false,
    true, true, true, false, true, false, false)), (String ((Ascii (true,
    false, false, false, false, true, true, false)), (String ((Ascii (false,
    false, true, false, true, true, true, false)),
    EmptyString))))))))))))))))) :: ((SField (String ((Ascii (true, true,
    false, true, false, true, true, false)), (String ((Ascii (true, false,
    true, false, false, true, true, false)), (String ((Ascii (true, false,
    false, true, true, true, true, false)), (String ((Ascii (true, true,
    true, true, true, false, true, false)), (String ((Ascii (false, false,
    true, false, true, true, true, false)), (String ((Ascii (false, true,
    false, false, true, true, true, false)), (String ((Ascii (true, false,
    false, true, false, true, true, false)), (String ((Ascii (true, false,
    true, false, false, true, true, false)),
    EmptyString))))))))))))))))) :: ((SField (String ((Ascii (true, true,
    false, true, false, true, true, false)), (String ((Ascii (true, false,
    true, false, false, true, true, false)), (String ((Ascii (true, false,
    false, true, true, true, true, false)), (String ((Ascii (true, true,
    true, true, true, false, true, false)), (String ((Ascii (false, false,
    true, false, true, true, true, false)), (String ((Ascii (false, true,
    false, false, true, true, true, false)), (String ((Ascii (true, false,
    false, true, false, true, true, false)), (String ((Ascii (true, false,
    true, false, false, true, true, false)), (String ((Ascii (true, true,
    true, true, true, false, true, false)), (String ((Ascii (true, true,
    false, false, true, true, true, false)), (String ((Ascii (true, false,
    false, true, false, true, true, false)), (String ((Ascii (false, true,
    false, true, true, true, true, false)), (String ((Ascii (true, false,
    true, false, false, true, true, false)),
    EmptyString))))))))))))))))))))))))))) :: ((SField (String ((Ascii
    (false, true, true, false, true, true, true, false)), (String ((Ascii
    (true, false, false, false, false, true, true, false)), (String ((Ascii
    (false, false, true, true, false, true, true, false)), (String ((Ascii
    (true, false, true, false, true, true, true, false)), (String ((Ascii
    (true, false, true, false, false, true, true, false)), (String ((Ascii
    (true, true, true, true, true, false, true, false)), (String ((Ascii
    (false, false, true, false, true, true, true, false)), (String ((Ascii
    (false, true, false, false, true, true, true, false)), (String ((Ascii
    (true, false, false, true, false, true, true, false)), (String ((Ascii
    (true, false, true, false, false, true, true, false)),
    EmptyString))))))))))))))))))))) :: ((SField (String ((Ascii (false,
    true, true, false, true, true, true, false)), (String ((Ascii (true,
    false, false, false, false, true, true, false)), (String ((Ascii (false,
    false, true, true, false, true, true, false)), (String ((Ascii (true,
    false, true, false, true, true, true, false)), (String ((Ascii (true,
    false, true, false, false, true, true, false)), (String ((Ascii (true,
    true, true, true, true, false, true, false)), (String ((Ascii (false,
    false, true, false, true, true, true, false)), (String ((Ascii (false,
    true, false, false, true, true, true, false)), (String ((Ascii (true,
    false, false, true, false, true, true, false)), (String ((Ascii (true,
    false, true, false, false, true, true, false)), (String ((Ascii (true,
    true, true, true, true, false, true, false)), (String ((Ascii (true,
    true, false, false, true, true, true, false)), (String ((Ascii (true,
    false, false, true, false, true, true, false)), (String ((Ascii (false,
    true, false, true, true, true, true, false)), (String ((Ascii (true,
    false, true, false, false, true, true, false)),
    EmptyString))))))))))))))))))))))))))))))) :: (STag :: (SRetTrue :: [])))))))))))

(** val facts : build_facts **)

let facts =
  { bf_prog = (fun k ->
    match k with
    | KTable -> prog_KTable
    | KPrismF -> prog_KPrismF
    | KReverse -> prog_KReverse); bf_remove_before = (fun _ -> true);
    bf_create_resizes_existing = true; bf_alloc_zeroes = true;
    bf_open_guarded = true; bf_save_mode = TempRename; bf_stamp_last = true }
