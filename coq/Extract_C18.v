(** Extraction of the C18 model (ExtrOcamlBasic only). *)
From Coq Require Extraction.
From Coq Require ExtrOcamlBasic.
From RimeV Require Import Base.Bytes Cfg.Tree Cfg.Path Cfg.Typed Cfg.Api Cfg.Yaml.
Extraction "c18_model.ml" byte_of_N N_of_byte api_step prune item_eqb emit_doc load_doc.
