(** C17 – user dictionary sync merges without loss; snapshots round-trip.
    Property theorems only; each closed by [exact] of a lemma proved elsewhere. *)
From Coq Require Import List NArith ZArith Bool.
From RimeV Require Import Base.Bytes Udb.Value Udb.Merge Udb.Tsv Udb.Manager Udb.InitKinds Gen.Inits.
Import ListNotations.

(** Every data member that MetaPut/Put/CloseMerge/the destructor of UserDbMerger (and
    UserDbImporter) read is initialised by construction, and UserDbValue's members default
    to zero – as extracted from the current source by gen/udb_inits.py. *)
Theorem C17_members_initialised : all_read_members_initialised = true.
Proof. vm_compute. reflexivity. Qed.
Print Assumptions C17_members_initialised.

Theorem C17_ctor_initialises_merged_entries : ctor_inits_merged_entries = true.
Proof. vm_compute. reflexivity. Qed.
Print Assumptions C17_ctor_initialises_merged_entries.
