(** C17 – user dictionary sync merges without loss; snapshots round-trip.
    Property theorems only; each closed by [exact]/[apply] of a lemma proved in
    Udb/*Proofs.v (two-line glue where the generated fact of Gen/Inits.v is plugged in).

    Conventions: [O] is the abstract double ([dee_ops]); [dee_print_ok O] says that a printed
    double contains no blank and is accepted by stod again.  [inits] is instantiated by
    [ctor_inits_merged_entries], the fact gen/udb_inits.py extracts from the current
    src/rime/dict/user_db.h/.cc.  [g] is whatever the merger's storage held before
    construction.  Dictionaries are arbitrary (all proofs are inductions over entry lists). *)
From Coq Require Import List NArith ZArith Bool.
From Coq.Strings Require Byte.
From RimeV Require Import Base.Bytes Udb.Value Udb.ValueProofs Udb.Merge Udb.MergeProofs Udb.Tsv Udb.TsvProofs
  Udb.Manager Udb.ManagerProofs Udb.SyncAbstract Udb.SyncProofs Udb.Examples Udb.InitKinds Gen.Inits.
Import ListNotations.

(** ** the constructor facts of the current source *)

(** Every data member that MetaPut/Put/CloseMerge/the destructor of UserDbMerger (and of
    UserDbImporter) read is initialised by construction, and UserDbValue's members default
    to zero. *)
Theorem C17_members_initialised : all_read_members_initialised = true.
Proof. vm_compute. reflexivity. Qed.
Print Assumptions C17_members_initialised.

Theorem C17_ctor_initialises_merged_entries : ctor_inits_merged_entries = true.
Proof. vm_compute. reflexivity. Qed.
Print Assumptions C17_ctor_initialises_merged_entries.

(** With the constructor of the current source, a merge never reads an uninitialised member
    and its outcome does not depend on what the storage held before. *)
Theorem C17_merge_reads_initialised : forall O g g' uid src dst,
  m_uninit (merge_run O ctor_inits_merged_entries g uid src dst) = false /\
  merge_run O ctor_inits_merged_entries g uid src dst = merge_run O ctor_inits_merged_entries g' uid src dst.
Proof. rewrite C17_ctor_initialises_merged_entries. exact merge_reads_initialised. Qed.
Print Assumptions C17_merge_reads_initialised.

(** Not vacuous: without the initialisation the model does read the indeterminate value, and
    with -1 in the storage a one-entry merge leaves the tick behind. *)
Theorem C17_uninitialised_counter_example :
  get_tick_count (merge_db erased_ops false (-1) ex_u0 ex_one ex_ours) = 10%N /\
  m_uninit (merge_run erased_ops false (-1) ex_u0 ex_one ex_ours) = true /\
  get_tick_count (merge_db erased_ops false 0 ex_u0 ex_one ex_ours) = 20%N.
Proof. exact ex_uninitialised_counter. Qed.
Print Assumptions C17_uninitialised_counter_example.

(** ** merging a snapshot ([UserDbMerger] fed by a [DbSource]) *)

(** No entry is removed: every key of the dictionary and every key the snapshot's cursor
    yields is a key of the result; and no key is invented. *)
Theorem C17_merge_keys_kept : forall O inits g uid src dst k,
  (find k (data dst) <> None -> find k (data (merge_db O inits g uid src dst)) <> None) /\
  (In k (keys (query_all (data src))) -> find k (data (merge_db O inits g uid src dst)) <> None) /\
  (In k (keys (data (merge_db O inits g uid src dst))) -> In k (keys (data dst)) \/ In k (keys (query_all (data src)))).
Proof.
  intros. split; [apply merge_keeps_our_keys | split; [apply merge_keeps_their_keys | apply merge_invents_no_key]].
Qed.
Print Assumptions C17_merge_keys_kept.

(** Each entry of the snapshot ends with the larger magnitude of the two sides.  The sign
    rule of the code, exactly: theirs replaces ours iff |ours| < |theirs| (a tie keeps ours;
    an entry we do not have counts as 0); the entry is stamped with the new tick. *)
Theorem C17_merge_magnitude_max : forall O, dee_print_ok O ->
  forall inits g uid src dst k v,
  NoDup (keys (data src)) -> In (k, v) (query_all (data src)) ->
  exists s, find k (data (merge_db O inits g uid src dst)) = Some s
    /\ commits (unpack O s) = merged_commits (our_commits O dst k) (commits (unpack O v))
    /\ Z.abs (commits (unpack O s)) = Z.max (Z.abs (our_commits O dst k)) (Z.abs (commits (unpack O v)))
    /\ tick (unpack O s) = N.max (get_tick_count dst) (snapshot_tick src).
Proof.
  intros O HO inits g uid src dst k v ND H.
  destruct (merge_entry O HO inits g uid src dst k v ND H) as (s & F & C & T).
  exists s. rewrite C. repeat split; try assumption. apply merged_commits_abs.
Qed.
Print Assumptions C17_merge_magnitude_max.

(** Entries present on one side only are kept: ours untouched (same stored value), theirs
    with their commit count. *)
Theorem C17_merge_one_sided_kept : forall O, dee_print_ok O ->
  forall inits g uid src dst k,
  (~ In k (keys (query_all (data src))) -> find k (data (merge_db O inits g uid src dst)) = find k (data dst)) /\
  (forall v, NoDup (keys (data src)) -> In (k, v) (query_all (data src)) -> find k (data dst) = None ->
     exists s, find k (data (merge_db O inits g uid src dst)) = Some s /\ commits (unpack O s) = commits (unpack O v)).
Proof.
  intros O HO inits g uid src dst k. split; [apply merge_untouched|].
  intros v ND H F. destruct (merge_entry O HO inits g uid src dst k v ND H) as (s & Fs & C & _).
  exists s. split; [exact Fs|]. rewrite C. unfold our_commits. rewrite F. apply merged_commits_zero.
Qed.
Print Assumptions C17_merge_one_sided_kept.

(** A merge never lowers the magnitude of any entry's commit count (any snapshot). *)
Theorem C17_merge_never_lowers : forall O, dee_print_ok O ->
  forall inits g uid src dst, mag_le O (data dst) (data (merge_db O inits g uid src dst)).
Proof. intros O HO inits g uid src dst. apply merge_mag_le. exact HO. Qed.
Print Assumptions C17_merge_never_lowers.

(** The tick becomes the maximum of both – when the snapshot contributes at least one entry
    (CloseMerge returns early otherwise).  A dictionary without "/tick" counts as 1, a
    snapshot without it as 0. *)
Theorem C17_merge_tick_max : forall O g uid src dst,
  query_all (data src) <> [] ->
  get_tick_count (merge_db O ctor_inits_merged_entries g uid src dst) = N.max (get_tick_count dst) (snapshot_tick src).
Proof. rewrite C17_ctor_initialises_merged_entries. exact merge_tick_max. Qed.
Print Assumptions C17_merge_tick_max.

(** The statement without that hypothesis is false of the code as written: an empty
    snapshot with a larger tick leaves the whole dictionary, tick included, as it was. *)
Definition C17_merge_tick_max_full : Prop :=
  forall O g uid src dst,
  get_tick_count (merge_db O true g uid src dst) = N.max (get_tick_count dst) (snapshot_tick src).

Theorem C17_merge_tick_max_full_refuted : ~ C17_merge_tick_max_full.
Proof.
  intro H. specialize (H erased_ops 0%Z ex_u0 ex_empty_100 ex_ours).
  destruct ex_empty_snapshot_tick as [A B]. rewrite A, B in H. discriminate.
Qed.
Print Assumptions C17_merge_tick_max_full_refuted.

Theorem C17_merge_empty_snapshot_noop : forall O g uid src dst,
  query_all (data src) = [] -> merge_db O ctor_inits_merged_entries g uid src dst = dst.
Proof. rewrite C17_ctor_initialises_merged_entries. exact merge_empty_snapshot_noop. Qed.
Print Assumptions C17_merge_empty_snapshot_noop.

(** Merging the same snapshot a second time changes nothing observable: the list of
    (key, commits, tick) and the dictionary's tick stay the same. *)
Theorem C17_merge_idempotent : forall O, dee_print_ok O ->
  forall g uid src dst, NoDup (keys (data src)) ->
  let r1 := merge_db O ctor_inits_merged_entries g uid src dst in
  let r2 := merge_db O ctor_inits_merged_entries g uid src r1 in
  dump O r2 = dump O r1 /\ get_tick_count r2 = get_tick_count r1.
Proof. rewrite C17_ctor_initialises_merged_entries. exact merge_idempotent. Qed.
Print Assumptions C17_merge_idempotent.

(** Not vacuous: a concrete pair of dictionaries meets the hypotheses and the merge gives
    a -> -5 (was 3 vs -5), b -> 1 kept, c -> -1 added, tick 20 = max 10 20. *)
Theorem C17_merge_example :
  dee_print_ok erased_ops /\ NoDup (keys (data ex_theirs)) /\ query_all (data ex_theirs) <> [] /\
  dump erased_ops (merge_db erased_ops true 0 ex_u0 ex_theirs ex_ours) =
    [(ex_k1, (-5)%Z, 20%N); (ex_k2, 1%Z, 1%N); (ex_k3, (-1)%Z, 20%N)] /\
  get_tick_count (merge_db erased_ops true 0 ex_u0 ex_theirs ex_ours) = 20%N.
Proof.
  split; [exact erased_print_ok|]. split; [exact ex_theirs_nodup|]. split; [exact ex_theirs_nonempty|]. exact ex_merge_result.
Qed.
Print Assumptions C17_merge_example.

(** ** snapshots *)

(** UniformBackup then UniformRestore into an empty store gives back every record of a
    well-formed dictionary (keys: code TAB text, code starting with a byte >= 0x20 other
    than '#' and ending with a blank, no TAB/LF inside; values and metadata without TAB/LF
    and not ending in an isspace byte), data and metadata alike, byte for byte. *)
Theorem C17_snapshot_roundtrip : forall d, wf_db d ->
  let r := uniform_restore (uniform_backup d) empty_db in
  (forall k, find k (data r) = find k (data d)) /\ (forall k, find k (meta r) = find k (meta d)).
Proof. exact uniform_roundtrip. Qed.
Print Assumptions C17_snapshot_roundtrip.

(** UserDictManager::Backup on one installation, UserDictManager::Restore of that snapshot
    into an empty dictionary of another: the restore succeeds and the result has exactly the
    keys of the original, each with its commit count. *)
Theorem C17_backup_restore_into_empty : forall O, dee_print_ok O ->
  forall inits g ver uidA uidB d dest,
  wf_db d -> get_user_id d = uidA -> is_user_db d = true ->
  find mk_db_name (meta d) = Some dict_name -> data dest = [] ->
  let snap := snd (um_backup ver uidA dict_name d) in
  let res := um_restore O inits g ver uidB dict_name snap dest in
  snd res = RestoreOk /\
  forall k, match find k (data d) with
            | Some v => exists s, find k (data (fst res)) = Some s /\ commits (unpack O s) = commits (unpack O v)
            | None => find k (data (fst res)) = None
            end.
Proof. intros O HO inits g ver. exact (backup_restore_into_empty O HO inits g ver). Qed.
Print Assumptions C17_backup_restore_into_empty.

Theorem C17_backup_restore_example :
  wf_db ex_theirs /\ get_user_id ex_theirs = ex_u1 /\ is_user_db ex_theirs = true /\
  find mk_db_name (meta ex_theirs) = Some dict_name /\
  let snap := snd (um_backup ex_ver ex_u1 dict_name ex_theirs) in
  let res := um_restore erased_ops true 0 ex_ver ex_u0 dict_name snap (create_metadata ex_ver ex_u0 dict_name empty_db) in
  map (fun e => (fst (fst e), snd (fst e))) (dump erased_ops (fst res)) = [(ex_k1, (-5)%Z); (ex_k3, (-1)%Z)].
Proof.
  split; [exact ex_theirs_wf|]. destruct ex_roundtrip_hyps as (A & B & C).
  split; [exact A|]. split; [exact B|]. split; [exact C|]. exact ex_roundtrip_result.
Qed.
Print Assumptions C17_backup_restore_example.

(** ** text import ([UserDbImporter::Put]) *)

(** A positive count raises ours to the maximum, a negative one marks the entry deleted with
    at least our magnitude, zero changes nothing; the entry's tick is not touched; other
    entries are not touched. *)
Theorem C17_import_semantics : forall O, dee_print_ok O ->
  forall d k v,
  (exists s, find k (data (imp_put O d k v)) = Some s
     /\ commits (unpack O s) = imported_commits (our_commits O d k) (commits (unpack O v))
     /\ tick (unpack O s) = match find k (data d) with Some s0 => tick (unpack O s0) | None => 0%N end) /\
  (forall k', k' <> k -> find k' (data (imp_put O d k v)) = find k' (data d)).
Proof.
  intros O HO d k v. split; [apply import_put_entry; exact HO | intros k' N; now apply import_put_other].
Qed.
Print Assumptions C17_import_semantics.

Theorem C17_import_example :
  imported_commits 3 5 = 5%Z /\ imported_commits (-5) 2 = 2%Z /\ imported_commits 3 (-1) = (-3)%Z /\
  imported_commits 2 (-7) = (-7)%Z /\ imported_commits 4 0 = 4%Z.
Proof. exact ex_import_rule. Qed.
Print Assumptions C17_import_example.

(** Text export then import, line by line: a non-deleted entry whose code is tidy (no
    surrounding isspace bytes besides the final blank) is written as text TAB code TAB commits
    and parsed back to the same key with the same commit count (dee recomputed, tick 0). *)
Theorem C17_export_import_line : forall O core text v,
  tidy core -> text <> [] -> Forall (fun b => is_tab b = false) core -> Forall (fun b => is_tab b = false) text ->
  (0 <= commits (unpack O v))%Z ->
  let k := (core ++ [Byte.x20]) ++ TAB :: text in
  let c := commits (unpack O v) in
  table_formatter O k v = Some [text; core; print_Z c] /\
  table_parser O [text; core; print_Z c] = Some (k, pack O {| commits := c; dee := d_of_commits O c; tick := 0 |}).
Proof. exact export_import_line. Qed.
Print Assumptions C17_export_import_line.

Theorem C17_export_import_example :
  tidy [Byte.x61] /\ (0 <= commits (unpack erased_ops ex_v_3_3))%Z /\
  table_formatter erased_ops ex_k1 ex_v_3_3 = Some [[Byte.x41]; [Byte.x61]; [Byte.x33]] /\
  option_map fst (table_parser erased_ops [[Byte.x41]; [Byte.x61]; [Byte.x33]]) = Some ex_k1.
Proof. exact ex_export_line. Qed.
Print Assumptions C17_export_import_example.

(** Whole files: UserDictManager::Export of a well-formed dictionary whose keys survive the
    table format (code = tidy core + one blank, text not starting with '#'), then
    UserDictManager::Import of that file into any user dictionary.  The import returns the
    number of non-deleted entries; the importer's metadata (tick included) is untouched;
    every non-deleted entry arrives under the import rule and keeps the importer's own entry
    tick (0 for a new entry); deleted entries are not exported; the "# ..." description and
    the "#@" metadata lines of the file change nothing; all other entries are untouched. *)
Theorem C17_export_import_file : forall O, dee_print_ok O ->
  forall ver uid d d0,
  wf_db d -> forallb wf_export_rec (data d) = true -> is_user_db d = true ->
  is_user_db (open_rw ver uid dict_name d0) = true ->
  exists f n, um_export O d = Some (f, n) /\
    let res := um_import O ver uid dict_name f d0 in
    snd res = Some (length (filter (nonneg O) (data d))) /\
    meta (fst res) = meta (open_rw ver uid dict_name d0) /\
    forall k, match find k (data d) with
              | Some v =>
                  if (commits (unpack O v) <? 0)%Z then find k (data (fst res)) = find k (data d0)
                  else exists s, find k (data (fst res)) = Some s
                         /\ commits (unpack O s) = imported_commits (our_commits O d0 k) (commits (unpack O v))
                         /\ tick (unpack O s) = match find k (data d0) with Some s0 => tick (unpack O s0) | None => 0%N end
              | None => find k (data (fst res)) = find k (data d0)
              end.
Proof. intros O HO ver. exact (export_import_file O HO ver). Qed.
Print Assumptions C17_export_import_file.

(** ... and into an empty dictionary: exactly the non-deleted entries, each with its key
    and commit count (tick 0). *)
Theorem C17_export_import_into_empty : forall O, dee_print_ok O ->
  forall ver uid d d0,
  wf_db d -> forallb wf_export_rec (data d) = true -> is_user_db d = true ->
  is_user_db (open_rw ver uid dict_name d0) = true -> data d0 = [] ->
  exists f n, um_export O d = Some (f, n) /\
    forall k, match find k (data d) with
              | Some v =>
                  if (commits (unpack O v) <? 0)%Z then find k (data (fst (um_import O ver uid dict_name f d0))) = None
                  else exists s, find k (data (fst (um_import O ver uid dict_name f d0))) = Some s
                         /\ commits (unpack O s) = commits (unpack O v) /\ tick (unpack O s) = 0%N
              | None => find k (data (fst (um_import O ver uid dict_name f d0))) = None
              end.
Proof. intros O HO ver. exact (export_import_into_empty O HO ver). Qed.
Print Assumptions C17_export_import_into_empty.

Theorem C17_export_import_file_example :
  (wf_db ex_ours /\ forallb wf_export_rec (data ex_ours) = true /\ is_user_db ex_ours = true) /\
  match um_export erased_ops ex_ours with
  | Some (f, n) =>
      n = 2%nat /\
      dump erased_ops (fst (um_import erased_ops ex_ver ex_u1 dict_name f ex_theirs)) =
        [(ex_k1, 3%Z, 4%N); (ex_k2, 1%Z, 0%N); (ex_k3, (-1)%Z, 2%N)] /\
      snd (um_import erased_ops ex_ver ex_u1 dict_name f ex_theirs) = Some 2%nat
  | None => False
  end.
Proof. split; [exact ex_ours_wf | exact ex_export_import_result]. Qed.
Print Assumptions C17_export_import_file_example.

(** ** histories *)

(** Over every sequence of backup / restore / restore-from-file / synchronize / export /
    direct merge / direct backup operations between any number of installations, starting
    from any world, no dictionary ever loses an entry or ends with a smaller commit
    magnitude for an entry than it had (import and a direct UniformRestore are excluded:
    import may resurrect a deleted entry with a smaller count, UniformRestore overwrites). *)
Theorem C17_history_never_loses : forall O, dee_print_ok O ->
  forall inits g ver ops w j, forallb sync_op ops = true ->
  mag_le O (data (get_db w j)) (data (get_db (run O inits g ver ops w) j)).
Proof. intros O HO inits g ver. exact (history_never_loses O HO inits g ver). Qed.
Print Assumptions C17_history_never_loses.

(** ** Synchronize between installations (beyond the property: convergence) *)

(** "Every installation synchronises twice" is not enough in an arbitrary order: with three
    installations synchronising back to back (u0, u0, u1, u1, u2, u2; the sync directory
    always lists everybody) u0 ends without the entries of u1 and u2. *)
Theorem C17_sync_twice_any_order_refuted :
  exists ops w,
    (forall i, In i ex_all -> 2 <= length (filter (fun o => match o with OSync j _ => Nat.eqb i j | _ => false end) ops)) /\
    mags erased_ops (get_db (ex_run ops w) 0) <> mags erased_ops (get_db (ex_run ops w) 2).
Proof.
  exists [OSync 0 ex_all; OSync 0 ex_all; OSync 1 ex_all; OSync 1 ex_all; OSync 2 ex_all; OSync 2 ex_all], ex_world.
  split.
  - intros i [<-|[<-|[<-|[]]]]; cbn; repeat constructor.
  - destruct ex_sync_twice_any_order as [A B]. rewrite A, B. discriminate.
Qed.
Print Assumptions C17_sync_twice_any_order_refuted.

(** Two rounds (each installation once per round, rounds in different orders) do make the
    three installations of the example agree on every key and commit magnitude. *)
Theorem C17_sync_two_rounds_example :
  let w := ex_run [OSync 0 ex_all; OSync 1 ex_all; OSync 2 ex_all; OSync 2 ex_all; OSync 0 ex_all; OSync 1 ex_all] ex_world in
  mags erased_ops (get_db w 0) = [(ex_k1, 5%Z); (ex_k2, 1%Z); (ex_k3, 1%Z)] /\
  mags erased_ops (get_db w 1) = mags erased_ops (get_db w 0) /\ mags erased_ops (get_db w 2) = mags erased_ops (get_db w 0).
Proof. exact ex_sync_two_rounds. Qed.
Print Assumptions C17_sync_two_rounds_example.

(** Signs need not converge: with |ours| = |theirs| and opposite signs each side keeps its
    own sign through any number of rounds (here three), while the magnitudes agree. *)
Theorem C17_sync_sign_tie_example :
  let w := ex_run [OSync 0 [0; 1]%nat; OSync 1 [0; 1]%nat; OSync 0 [0; 1]%nat; OSync 1 [0; 1]%nat; OSync 0 [0; 1]%nat; OSync 1 [0; 1]%nat]
                  ex_world_tie in
  map (fun e => snd (fst e)) (dump erased_ops (get_db w 0)) = [3%Z] /\
  map (fun e => snd (fst e)) (dump erased_ops (get_db w 1)) = [(-3)%Z] /\
  mags erased_ops (get_db w 0) = mags erased_ops (get_db w 1).
Proof. exact ex_sync_sign_tie. Qed.
Print Assumptions C17_sync_sign_tie_example.

(** Convergence for any number N of installations: start from good dictionaries (well-formed,
    userdb metadata, own user id) and no published snapshot; run two rounds of Synchronize,
    where in each round every installation synchronises at least once (any order, any
    repetitions) and the sync directory lists every installation.  Afterwards all
    installations have the same keys, each with the same commit magnitude ([mg] is |commits|,
    -1 for an absent key).  Signs are not claimed (C17_sync_sign_tie_example).  Needs a
    printed double to contain no isspace byte (so that merged values stay snapshot-safe). *)
Theorem C17_sync_two_rounds_converge : forall O,
  (forall d, Forall (fun b => is_space b = false) (d_print O d) /\ d_parse O (d_print O d) <> None) ->
  forall inits g ver N w p q,
  length (w_dbs w) = N -> w_snaps w = repeat None N ->
  (forall i, i < N -> good i (get_db w i)) ->
  orders_ok N p -> orders_ok N q -> covers N p -> covers N q ->
  let w' := run O inits g ver (sync_ops p ++ sync_ops q) w in
  forall i i' k, i < N -> i' < N -> mg O (get_db w' i) k = mg O (get_db w' i') k.
Proof. exact sync_two_rounds_converge. Qed.
Print Assumptions C17_sync_two_rounds_converge.

(** Not vacuous: the three-installation example world and its two rounds meet every hypothesis
    (the computed outcome is C17_sync_two_rounds_example). *)
Theorem C17_sync_convergence_hypotheses_example :
  (forall d : D erased_ops, Forall (fun b => is_space b = false) (d_print erased_ops d) /\ d_parse erased_ops (d_print erased_ops d) <> None) /\
  length (w_dbs ex_world) = 3 /\ w_snaps ex_world = repeat None 3 /\
  (forall i, i < 3 -> good i (get_db ex_world i)) /\
  orders_ok 3 ex_round1 /\ orders_ok 3 ex_round2 /\ covers 3 ex_round1 /\ covers 3 ex_round2.
Proof.
  split; [exact erased_print_clean|]. split; [reflexivity|]. split; [reflexivity|]. split; [exact ex_world_good|]. exact ex_rounds_ok.
Qed.
Print Assumptions C17_sync_convergence_hypotheses_example.
