(** C12 - redeploying yields what a clean deploy of the current sources yields.
    Property theorems only; each closed by [exact] of a lemma of Dep/StaleProofs.v.
    Hypotheses are named Section hypotheses of that file: [crc_inj]/[cyid_inj]
    (H_crc: CRC32 injective on the occurring contents) and [coherent]/[nonzero]
    (H_mtime: edits change modification times; an absent file is time 0). *)
From Coq Require Import List NArith Bool.
From RimeV Require Import Dep.Stale Dep.StaleProofs.
Import ListNotations.
Local Open Scope N_scope.

(** after any history of source states (edits), each followed by a deployment,
    starting from any previously deployed (invariant) build directory, a
    deployment of the final sources contains every artefact of a clean
    deployment of those sources, identically (stored checksums, timestamps and
    what it was built from), and succeeds iff the clean one does *)
Theorem C12_deploy_reaches_clean :
  forall crc cyid list_of info_of dinfo_of deps_fn, crc_inj crc -> cyid_inj cyid ->
  forall Hist, coherent Hist -> nonzero Hist -> deps_closed deps_fn Hist ->
  forall hs a s,
  (forall s', In s' hs -> In s' Hist /\ wf_srcs list_of info_of deps_fn s') ->
  In s Hist -> wf_srcs list_of info_of deps_fn s -> Inv crc cyid deps_fn Hist a ->
  sub (fst (fst (deploy crc cyid list_of info_of dinfo_of deps_fn s [])))
      (fst (fst (deploy crc cyid list_of info_of dinfo_of deps_fn s (run_hist crc cyid list_of info_of dinfo_of deps_fn hs a)))) /\
  snd (deploy crc cyid list_of info_of dinfo_of deps_fn s (run_hist crc cyid list_of info_of dinfo_of deps_fn hs a))
  = snd (deploy crc cyid list_of info_of dinfo_of deps_fn s []).
Proof. exact deploy_reaches_clean. Qed.
Print Assumptions C12_deploy_reaches_clean.

(** the invariant behind it is preserved by every deployment and holds of the
    empty build directory *)
Theorem C12_invariant_preserved :
  forall crc cyid list_of info_of dinfo_of deps_fn, crc_inj crc -> cyid_inj cyid ->
  forall Hist, coherent Hist -> nonzero Hist -> deps_closed deps_fn Hist ->
  forall s a, In s Hist -> wf_srcs list_of info_of deps_fn s -> Inv crc cyid deps_fn Hist a ->
  Inv crc cyid deps_fn Hist (fst (fst (deploy crc cyid list_of info_of dinfo_of deps_fn s a))).
Proof. exact deploy_inv. Qed.
Print Assumptions C12_invariant_preserved.

Theorem C12_invariant_initial : forall crc cyid deps_fn Hist, Inv crc cyid deps_fn Hist [].
Proof. exact Inv_nil. Qed.
Print Assumptions C12_invariant_initial.

(** an edit to a schema or to its dictionary never leaves a stale artefact of
    that schema: right after the schema's update its compiled config, table,
    reverse db and prism are built from the current sources *)
Theorem C12_edited_schema_never_stale :
  forall crc cyid info_of dinfo_of deps_fn, crc_inj crc -> cyid_inj cyid ->
  forall Hist, coherent Hist -> nonzero Hist -> deps_closed deps_fn Hist ->
  forall s x dep a v d vd fl,
  In s Hist -> Inv crc cyid deps_fn Hist a -> lookup s (FRes (RSchema x)) = Some v ->
  let cy := build_config deps_fn s (Some x) in
  let info := info_of (cy_from cy) in
  si_dict info = Some d -> lookup s (FDict d) = Some vd ->
  cids_of s (tables_of d (dinfo_of (fv_cid vd))) = Some fl ->
  let files := fl ++ vocab_cids s (dinfo_of (fv_cid vd)) in
  let nt := {| t_ck := crc_files crc 0 files; t_files := files |} in
  let p := match si_prism info with Some p => p | None => d end in
  let a' := fst (fst (schema_update crc cyid info_of dinfo_of deps_fn s x dep a)) in
  get_cy a' (KCy (Some x)) = Some cy /\
  get_tab a' (KRev d) = Some nt /\
  get_prism a' (KPrism p) = Some {| p_dck := crc_files crc 0 files; p_sck := cyid cy; p_tab := nt; p_cy := cy |} /\
  (~ In d (si_packs info) -> get_tab a' (KTab d) = Some nt).
Proof. exact edited_schema_never_stale. Qed.
Print Assumptions C12_edited_schema_never_stale.

(** a deployment with no source change, per artefact: every freshly built artefact
    is judged up to date and nothing is written (the workspace-level statement
    follows below) *)
Theorem C12_noop_deploy_rewrites_nothing_partial :
  forall crc cyid deps_fn Hist s t d p cy files X,
  In s Hist -> files <> [] ->
  let dck := crc_files crc 0 files in
  let nt := {| t_ck := dck; t_files := files |} in
  needs_update s (Some (build_config deps_fn s t)) = false /\
  (get_tab X (KTab d) = Some nt -> get_tab X (KRev d) = Some nt ->
   get_prism X (KPrism p) = Some {| p_dck := dck; p_sck := cyid cy; p_tab := nt; p_cy := cy |} ->
   rb_t_of crc d files X = false /\ rb_p_of crc cyid p cy files X = false /\ core_nf crc cyid d p cy files X = X) /\
  (forall q i, get_tab X (KTab q) = Some {| t_ck := crc_files crc i files; t_files := files |} ->
               stale_ck (get_tab X (KTab q)) (crc_files crc i files) = false).
Proof. exact noop_deploy_rewrites_nothing_partial. Qed.
Print Assumptions C12_noop_deploy_rewrites_nothing_partial.

(** workspace level: under the explicit hypothesis [no_shared_outputs] (no two
    schema updates write different artefacts under one name: no two schemas share
    a prism name with different compiled configs, a pack table belongs to one
    dictionary), the second of two deployments of unchanged sources - from any
    previously deployed state - returns the very same build directory and logs
    no rebuild *)
Theorem C12_noop_deploy_rewrites_nothing :
  forall crc cyid list_of info_of dinfo_of deps_fn, crc_inj crc -> cyid_inj cyid ->
  forall Hist, coherent Hist -> nonzero Hist -> deps_closed deps_fn Hist ->
  forall s a, In s Hist -> wf_srcs list_of info_of deps_fn s ->
  no_shared_outputs crc cyid info_of dinfo_of deps_fn s -> Inv crc cyid deps_fn Hist a ->
  let a1 := fst (fst (deploy crc cyid list_of info_of dinfo_of deps_fn s a)) in
  exists l ok, deploy crc cyid list_of info_of dinfo_of deps_fn s a1 = (a1, l, ok) /\ norebuild l.
Proof. exact noop_second_deploy. Qed.
Print Assumptions C12_noop_deploy_rewrites_nothing.

(** the reason for the hypothesis: the shared-prism workspace violates it (and
    there every deployment rebuilds the prism, C12_noop_shared_prism_witness) *)
Theorem C12_shared_prism_violates_hypothesis :
  ~ no_shared_outputs demo_crc demo_cyid demo_info_of demo_dinfo_of demo_deps demo_srcs.
Proof. exact shared_prism_violates_hypothesis. Qed.
Print Assumptions C12_shared_prism_violates_hypothesis.

(** non-vacuity and the two observations the model yields (both judged
    hypotheses, not findings; replayed on the real code by the check) *)
Theorem C12_nonvacuous :
  wf_srcs demo_list_of demo_info_of demo_deps demo_srcs /\ snd (demo_deploy demo_srcs []) = true.
Proof. exact (conj wf_demo (proj1 deploy_demo_runs)). Qed.
Print Assumptions C12_nonvacuous.

Theorem C12_noop_shared_prism_witness :
  let a1 := fst (fst (demo_deploy demo_srcs [])) in
  existsb rebuilt_entry (snd (fst (demo_deploy demo_srcs a1))) = true.
Proof. exact noop_shared_prism_witness. Qed.
Print Assumptions C12_noop_shared_prism_witness.

Theorem C12_delete_dict_keeps_table_witness :
  let a1 := fst (fst (demo_deploy demo_srcs [])) in
  let s2 := firstn 3 demo_srcs in
  get_tab (fst (fst (demo_deploy s2 a1))) (KTab 10) = get_tab a1 (KTab 10) /\
  get_tab a1 (KTab 10) <> None /\
  get_tab (fst (fst (demo_deploy s2 []))) (KTab 10) = None.
Proof. exact delete_dict_keeps_table_witness. Qed.
Print Assumptions C12_delete_dict_keeps_table_witness.
