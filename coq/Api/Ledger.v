(** C01 – the handle ledger of the API's output structs.

    A client struct (RimeContext, RimeCommit, RimeStatus, RimeSchemaList) has
    pointer fields.  [get_*] fills some of them, [free_*] releases them.  The
    shape of each get/free pair – which fields free deletes, which fields get
    fills and whether from a `new` expression, whether the struct is cleared
    first / afterwards – is regenerated from the clang AST of the current
    source by gen/api_handles.py (Gen/ApiHandles.v).  The dynamic model below
    runs ANY sequence of get/free calls on one struct against an allocation
    ledger; freeing a token twice, or freeing a pointer that did not come from
    `new`, is an error (undefined behaviour in C++). *)
From Coq Require Import List String Bool Arith.
Import ListNotations.
Local Open Scope string_scope.

Inductive src := FromNew | FromOther.

Record pair_shape := {
  ps_get : string;
  ps_free : string;
  ps_get_fields : list (string * src);   (* pointer fields get_* may assign, and from what *)
  ps_free_fields : list string;          (* pointer fields free_* passes to delete[] *)
  ps_get_clears_first : bool;            (* get_* clears the struct before filling it *)
  ps_free_clears : bool                  (* free_* clears the struct after deleting *)
}.

Definition token := nat.
Inductive ptr := Heap (t : token) | Foreign.

Record st := {
  fields : list (string * ptr);   (* non-null pointer fields of the client struct *)
  live : list token;              (* allocations not yet freed *)
  freed : list token;             (* allocations freed so far *)
  next : token                    (* allocator: next fresh token *)
}.

Inductive err := DoubleFree (f : string) | InvalidFree (f : string).

Definition init : st := {| fields := []; live := []; freed := []; next := 0 |}.

Fixpoint lookup (f : string) (l : list (string * ptr)) : option ptr :=
  match l with
  | [] => None
  | (g, p) :: l' => if String.eqb g f then Some p else lookup f l'
  end.

Definition set_field (f : string) (p : ptr) (l : list (string * ptr)) : list (string * ptr) :=
  (f, p) :: filter (fun e => negb (String.eqb (fst e) f)) l.

(** [get] fills the fields in [which] (the conditional allocations taken this time) *)
Fixpoint fill (sh : list (string * src)) (which : list string) (s : st) : st :=
  match sh with
  | [] => s
  | (f, k) :: sh' =>
      if existsb (String.eqb f) which then
        match k with
        | FromNew =>
            fill sh' which {| fields := set_field f (Heap (next s)) (fields s); live := next s :: live s;
                              freed := freed s; next := S (next s) |}
        | FromOther =>
            fill sh' which {| fields := set_field f Foreign (fields s); live := live s; freed := freed s; next := next s |}
        end
      else fill sh' which s
  end.

Definition do_get (ps : pair_shape) (which : list string) (s : st) : st :=
  let s0 := if ps_get_clears_first ps
            then {| fields := []; live := live s; freed := freed s; next := next s |} else s in
  fill (ps_get_fields ps) which s0.

Fixpoint release (fs : list string) (s : st) : st + err :=
  match fs with
  | [] => inl s
  | f :: fs' =>
      match lookup f (fields s) with
      | None => release fs' s                       (* delete[] nullptr *)
      | Some Foreign => inr (InvalidFree f)
      | Some (Heap t) =>
          if existsb (Nat.eqb t) (live s)
          then release fs' {| fields := fields s; live := filter (fun u => negb (Nat.eqb u t)) (live s);
                              freed := t :: freed s; next := next s |}
          else inr (DoubleFree f)
      end
  end.

Definition do_free (ps : pair_shape) (s : st) : st + err :=
  match release (ps_free_fields ps) s with
  | inl s' => inl (if ps_free_clears ps then {| fields := []; live := live s'; freed := freed s'; next := next s' |} else s')
  | inr e => inr e
  end.

Inductive op := Get (which : list string) | Free.

Fixpoint run (ps : pair_shape) (ops : list op) (s : st) : st + err :=
  match ops with
  | [] => inl s
  | Get w :: ops' => run ps ops' (do_get ps w s)
  | Free :: ops' => match do_free ps s with inl s' => run ps ops' s' | inr e => inr e end
  end.

Fixpoint nodupb (l : list string) : bool :=
  match l with
  | [] => true
  | x :: l' => negb (existsb (String.eqb x) l') && nodupb l'
  end.

(** The statically checkable shape that makes every call sequence safe. *)
Definition shape_ok (ps : pair_shape) : bool :=
  (* every deleted field is one get_* fills (also the translator's refusal channel: it adds a
     pseudo field such as "<unrecognised>" or "<parent-before-child>" to the free list) *)
  forallb (fun f => existsb (fun e => String.eqb (fst e) f) (ps_get_fields ps)) (ps_free_fields ps) &&
  ps_get_clears_first ps && ps_free_clears ps && nodupb (ps_free_fields ps) &&
  forallb (fun e => match snd e with
                    | FromNew => existsb (String.eqb (fst e)) (ps_free_fields ps)      (* no leak on the matching free *)
                    | FromOther => negb (existsb (String.eqb (fst e)) (ps_free_fields ps))  (* never delete[] what was not new[]ed *)
                    end)
          (ps_get_fields ps).

(** tokens handed out by one [get] *)
Definition tokens_of (s : st) : list token :=
  flat_map (fun e => match snd e with Heap t => [t] | Foreign => [] end) (fields s).
