(** C01 – proofs about the handle ledger: with a shape accepted by [shape_ok],
    every sequence of get/free calls is free of double and invalid frees, and
    a free directly after a get releases every allocation that get made. *)
From Coq Require Import List String Bool Arith Lia.
From RimeV Require Import Api.Ledger.
Import ListNotations.
Local Open Scope string_scope.

Lemma lookup_set_same f p l : lookup f (set_field f p l) = Some p.
Proof. unfold set_field. cbn. now rewrite String.eqb_refl. Qed.

Lemma lookup_filter_other f g l :
  g <> f -> lookup g (filter (fun e => negb (String.eqb (fst e) f)) l) = lookup g l.
Proof.
  intros H. induction l as [|[h p] l IH]; cbn; [reflexivity|].
  destruct (String.eqb h f) eqn:E; cbn.
  - apply String.eqb_eq in E. subst h.
    destruct (String.eqb f g) eqn:E2; [apply String.eqb_eq in E2; congruence|]. exact IH.
  - destruct (String.eqb h g); [reflexivity|exact IH].
Qed.

Lemma lookup_set_other f g p l : g <> f -> lookup g (set_field f p l) = lookup g l.
Proof.
  intros H. unfold set_field. cbn.
  destruct (String.eqb f g) eqn:E; [apply String.eqb_eq in E; congruence|].
  now apply lookup_filter_other.
Qed.

Lemma existsb_eqb_in f l : existsb (String.eqb f) l = true <-> In f l.
Proof.
  rewrite existsb_exists. split.
  - intros (x & Hx & E). apply String.eqb_eq in E. now subst.
  - intros H. exists f. split; [exact H|apply String.eqb_refl].
Qed.

Lemma nodupb_NoDup l : nodupb l = true -> NoDup l.
Proof.
  induction l as [|x l IH]; cbn; intros H; [constructor|].
  apply andb_true_iff in H. destruct H as [H1 H2]. constructor; [|now apply IH].
  intros Hin. apply existsb_eqb_in in Hin. now rewrite Hin in H1.
Qed.

Section Safety.
  Variable ps : pair_shape.
  Hypothesis Hok : shape_ok ps = true.

  Lemma shape_ok_parts :
    ps_get_clears_first ps = true /\ ps_free_clears ps = true /\ NoDup (ps_free_fields ps) /\
    (forall f k, In (f, k) (ps_get_fields ps) ->
       match k with FromNew => In f (ps_free_fields ps) | FromOther => ~ In f (ps_free_fields ps) end).
  Proof.
    unfold shape_ok in Hok.
    apply andb_true_iff in Hok. destruct Hok as [H123 H4].
    apply andb_true_iff in H123. destruct H123 as [H12 H3].
    apply andb_true_iff in H12. destruct H12 as [H01 H2].
    apply andb_true_iff in H01. destruct H01 as [_ H1].
    split; [exact H1|]. split; [exact H2|]. split; [now apply nodupb_NoDup|].
    intros f k Hin. rewrite forallb_forall in H4. specialize (H4 _ Hin). cbn in H4.
    destruct k.
    - now apply existsb_eqb_in.
    - apply negb_true_iff in H4. intros Hc. apply existsb_eqb_in in Hc. congruence.
  Qed.

  Let Hclr1 := proj1 shape_ok_parts.
  Let Hclr2 := proj1 (proj2 shape_ok_parts).
  Let Hnd := proj1 (proj2 (proj2 shape_ok_parts)).
  Let Hsrc := proj2 (proj2 (proj2 shape_ok_parts)).

  (** invariant of the ledger *)
  Record Inv (s : st) : Prop := {
    inv_live : forall f t, lookup f (fields s) = Some (Heap t) -> In t (live s);
    inv_inj : forall f g t, lookup f (fields s) = Some (Heap t) -> lookup g (fields s) = Some (Heap t) -> f = g;
    inv_lt : forall f t, lookup f (fields s) = Some (Heap t) -> t < next s;
    inv_live_lt : forall t, In t (live s) -> t < next s;
    inv_foreign : forall f, lookup f (fields s) = Some Foreign -> ~ In f (ps_free_fields ps)
  }.

  Lemma inv_init : Inv init.
  Proof. constructor; cbn; intros; try discriminate; try contradiction. Qed.

  Lemma fill_inv sh which : forall s,
    (forall f k, In (f, k) sh -> In (f, k) (ps_get_fields ps)) ->
    Inv s -> Inv (fill sh which s).
  Proof.
    induction sh as [|[f k] sh IH]; intros s Hsub HI; [exact HI|].
    cbn [fill]. destruct (existsb (String.eqb f) which); [|apply IH; [intros; apply Hsub; now right|exact HI]].
    destruct HI as [I1 I2 I3 I4 I5].
    destruct k; apply IH; try (intros; apply Hsub; now right).
    - (* FromNew *)
      constructor; cbn [fields live freed next].
      + intros g t Hl. destruct (string_dec g f) as [->|Hne].
        * rewrite lookup_set_same in Hl. inversion Hl; subst. now left.
        * rewrite lookup_set_other in Hl by exact Hne. right. eapply I1; eauto.
      + intros g h t Hg Hh.
        destruct (string_dec g f) as [->|Hg'], (string_dec h f) as [->|Hh']; try reflexivity.
        * rewrite lookup_set_same in Hg. inversion Hg; subst.
          rewrite lookup_set_other in Hh by exact Hh'. apply I3 in Hh. lia.
        * rewrite lookup_set_same in Hh. inversion Hh; subst.
          rewrite lookup_set_other in Hg by exact Hg'. apply I3 in Hg. lia.
        * rewrite lookup_set_other in Hg, Hh by assumption. eapply I2; eauto.
      + intros g t Hl. destruct (string_dec g f) as [->|Hne].
        * rewrite lookup_set_same in Hl. inversion Hl; subst. lia.
        * rewrite lookup_set_other in Hl by exact Hne. apply I3 in Hl. lia.
      + intros t [<-|Hin]; [lia|]. apply I4 in Hin. lia.
      + intros g Hl. destruct (string_dec g f) as [->|Hne].
        * rewrite lookup_set_same in Hl. discriminate.
        * rewrite lookup_set_other in Hl by exact Hne. now apply I5.
    - (* FromOther *)
      constructor; cbn [fields live freed next].
      + intros g t Hl. destruct (string_dec g f) as [->|Hne].
        * rewrite lookup_set_same in Hl. discriminate.
        * rewrite lookup_set_other in Hl by exact Hne. eapply I1; eauto.
      + intros g h t Hg Hh.
        destruct (string_dec g f) as [->|Hg']; [rewrite lookup_set_same in Hg; discriminate|].
        destruct (string_dec h f) as [->|Hh']; [rewrite lookup_set_same in Hh; discriminate|].
        rewrite lookup_set_other in Hg, Hh by assumption. eapply I2; eauto.
      + intros g t Hl. destruct (string_dec g f) as [->|Hne].
        * rewrite lookup_set_same in Hl. discriminate.
        * rewrite lookup_set_other in Hl by exact Hne. eapply I3; eauto.
      + exact I4.
      + intros g Hl. destruct (string_dec g f) as [->|Hne].
        * apply (Hsrc f FromOther). apply Hsub. now left.
        * rewrite lookup_set_other in Hl by exact Hne. now apply I5.
  Qed.

  Lemma get_inv w s : Inv s -> Inv (do_get ps w s).
  Proof.
    intros HI. unfold do_get. rewrite Hclr1. apply fill_inv; [auto|].
    destruct HI as [I1 I2 I3 I4 I5]. constructor; cbn; intros; try discriminate; auto.
  Qed.

  (** the release loop over a duplicate-free list of fields never fails *)
  Lemma release_ok fs : forall s,
    NoDup fs -> (forall f, In f fs -> In f (ps_free_fields ps)) ->
    (forall f t, In f fs -> lookup f (fields s) = Some (Heap t) -> In t (live s)) ->
    (forall f g t, lookup f (fields s) = Some (Heap t) -> lookup g (fields s) = Some (Heap t) -> f = g) ->
    (forall f, lookup f (fields s) = Some Foreign -> ~ In f (ps_free_fields ps)) ->
    exists s', release fs s = inl s' /\ fields s' = fields s /\ next s' = next s /\
               (forall t, In t (live s') -> In t (live s)) /\
               (forall f t, In f fs -> lookup f (fields s) = Some (Heap t) -> ~ In t (live s') /\ In t (freed s')) /\
               (forall t, In t (freed s) -> In t (freed s')).
  Proof.
    induction fs as [|f fs IH]; intros s Hnd' Hsub Hlive Hinj Hfor.
    - exists s. cbn. repeat split; auto; contradiction.
    - inversion Hnd' as [|? ? Hnotin Hnd'']; subst. cbn [release].
      destruct (lookup f (fields s)) as [[t|]|] eqn:El.
      + assert (Ht : In t (live s)) by exact (Hlive f t (or_introl eq_refl) El).
        assert (He : existsb (Nat.eqb t) (live s) = true).
        { apply existsb_exists. exists t. split; [exact Ht|apply Nat.eqb_refl]. }
        rewrite He.
        set (s1 := {| fields := fields s; live := filter (fun u => negb (Nat.eqb u t)) (live s);
                      freed := t :: freed s; next := next s |}).
        destruct (IH s1) as (s' & Hr & Hf & Hn & Hl & Hrel & Hfr); auto.
        * intros g Hg. apply Hsub. now right.
        * intros g u Hg Hlg. cbn in Hlg. cbn. apply filter_In. split; [exact (Hlive g u (or_intror Hg) Hlg)|].
          apply negb_true_iff, Nat.eqb_neq. intros ->.
          assert (g = f) by (eapply Hinj; eauto). subst g. contradiction.
        * exists s'. split; [exact Hr|]. split; [exact Hf|]. split; [exact Hn|]. split.
          { intros u Hu. apply Hl in Hu. cbn in Hu. apply filter_In in Hu. tauto. }
          split.
          { intros g u [<-|Hg] Hlg.
            - rewrite El in Hlg. inversion Hlg; subst u. split.
              + intros Hc. apply Hl in Hc. cbn in Hc. apply filter_In in Hc. destruct Hc as [_ Hc].
                now rewrite Nat.eqb_refl in Hc.
              + apply Hfr. now left.
            - apply (Hrel g u Hg Hlg). }
          { intros u Hu. apply Hfr. now right. }
      + exfalso. apply (Hfor f El). apply Hsub. now left.
      + destruct (IH s) as (s' & Hr & Hf & Hn & Hl & Hrel & Hfr); auto.
        * intros g Hg. apply Hsub. now right.
        * intros g u Hg Hlg. exact (Hlive g u (or_intror Hg) Hlg).
        * exists s'. repeat split; auto.
          -- destruct H as [<-|Hg]; [congruence|]. now apply (Hrel f0 t Hg H0).
          -- destruct H as [<-|Hg]; [congruence|]. now apply (Hrel f0 t Hg H0).
  Qed.

  Lemma free_inv s : Inv s ->
    exists s', do_free ps s = inl s' /\ Inv s' /\ fields s' = [] /\
               (forall f t, In f (ps_free_fields ps) -> lookup f (fields s) = Some (Heap t) ->
                            ~ In t (live s') /\ In t (freed s')).
  Proof.
    intros [I1 I2 I3 I4 I5].
    destruct (release_ok (ps_free_fields ps) s Hnd (fun f H => H)) as (s1 & Hr & Hf & Hn & Hl & Hrel & Hfr); auto.
    { intros f t _ Hlk. eapply I1; eauto. }
    unfold do_free. rewrite Hr, Hclr2.
    eexists. split; [reflexivity|]. split; [|split; [reflexivity|]].
    - constructor; cbn; intros; try discriminate; auto.
      match goal with H : In _ _ |- _ => rewrite Hn; apply I4; now apply Hl end.
    - intros f t Hin Hlk. cbn. exact (Hrel f t Hin Hlk).
  Qed.

  (** ** no double free, no invalid free – for every sequence of get/free calls *)
  Theorem ledger_safe ops : forall s, Inv s -> exists s', run ps ops s = inl s' /\ Inv s'.
  Proof.
    induction ops as [|[w|] ops IH]; intros s HI; cbn [run].
    - now exists s.
    - apply IH. now apply get_inv.
    - destruct (free_inv s HI) as (s1 & -> & HI1 & _). now apply IH.
  Qed.

  (** ** a free directly after a get releases every allocation that get made *)
  Lemma fill_fields_in sh which : forall s f t,
    lookup f (fields (fill sh which s)) = Some (Heap t) ->
    lookup f (fields s) = Some (Heap t) \/ In (f, FromNew) sh.
  Proof.
    induction sh as [|[g k] sh IH]; intros s f t Hl; [now left|].
    cbn [fill] in Hl. destruct (existsb (String.eqb g) which).
    - destruct k; apply IH in Hl; destruct Hl as [Hl|Hl]; try (right; now right); cbn [fields] in Hl;
        (destruct (string_dec f g) as [->|Hne];
         [rewrite lookup_set_same in Hl; first [discriminate | right; now left]
         |rewrite lookup_set_other in Hl by exact Hne; now left]).
    - apply IH in Hl. destruct Hl; [now left|right; now right].
  Qed.

  Theorem get_then_free_releases_all w s : Inv s ->
    exists s', do_free ps (do_get ps w s) = inl s' /\
               forall t, In t (tokens_of (do_get ps w s)) -> ~ In t (live s') /\ In t (freed s').
  Proof.
    intros HI. pose proof (get_inv w s HI) as HI1.
    destruct (free_inv _ HI1) as (s' & Hfree & _ & _ & Hrel).
    exists s'. split; [exact Hfree|].
    intros t Hin. unfold tokens_of in Hin. apply in_flat_map in Hin.
    destruct Hin as ([f p] & Hinf & Ht). cbn in Ht. destruct p as [u|]; [|contradiction].
    destruct Ht as [<-|[]].
    (* the field f holding u: it was filled from `new`, hence is deleted by free *)
    assert (Hlk : exists g, lookup g (fields (do_get ps w s)) = Some (Heap u) /\ In g (ps_free_fields ps)).
    { (* every heap entry of the association list is reachable by lookup of its (first) key owner *)
      assert (Hall : forall l, In (f, Heap u) l -> exists g q, lookup g l = Some q /\ (q = Heap u -> True)) by (intros; exists f; induction l as [|[h q] l IHl]; [contradiction|]; cbn; destruct (String.eqb h f) eqn:E; [eexists; split; [reflexivity|auto]|destruct H as [H|H]; [inversion H; subst; rewrite String.eqb_refl in E; discriminate|now apply IHl]]).
      clear Hall.
      unfold do_get in *. rewrite Hclr1 in *.
      set (s0 := {| fields := []; live := live s; freed := freed s; next := next s |}) in *.
      (* fields built by set_field have unique keys, so membership implies lookup *)
      assert (Huniq : forall sh s1, (forall a b q r, In (a, q) (fields s1) -> In (b, r) (fields s1) -> a = b -> q = r) ->
                      forall a b q r, In (a, q) (fields (fill sh w s1)) -> In (b, r) (fields (fill sh w s1)) -> a = b -> q = r).
      { induction sh as [|[g k] sh IHsh]; intros s1 Hs1; [exact Hs1|].
        cbn [fill]. destruct (existsb (String.eqb g) w); [|now apply IHsh].
        assert (Hset : forall p0 a b q r, In (a, q) (set_field g p0 (fields s1)) -> In (b, r) (set_field g p0 (fields s1)) -> a = b -> q = r).
        { intros p0 a b q r Ha Hb ->. unfold set_field in *. cbn in Ha, Hb.
          destruct Ha as [Ha|Ha], Hb as [Hb|Hb].
          - congruence.
          - inversion Ha; subst. apply filter_In in Hb. cbn in Hb. rewrite String.eqb_refl in Hb. destruct Hb; discriminate.
          - inversion Hb; subst. apply filter_In in Ha. cbn in Ha. rewrite String.eqb_refl in Ha. destruct Ha; discriminate.
          - apply filter_In in Ha, Hb. eapply Hs1; [apply Ha|apply Hb|reflexivity]. }
        destruct k; apply IHsh; cbn [fields]; apply Hset. }
      assert (Hlk0 : lookup f (fields (fill (ps_get_fields ps) w s0)) = Some (Heap u)).
      { specialize (Huniq (ps_get_fields ps) s0 (fun a b q r H => match H with end)).
        revert Hinf Huniq. generalize (fields (fill (ps_get_fields ps) w s0)). intros l.
        induction l as [|[h q] l IHl]; intros Hin Hu; [contradiction|]. cbn.
        destruct (String.eqb h f) eqn:E.
        - apply String.eqb_eq in E. subst h. f_equal. eapply Hu; [now left|exact Hin|reflexivity].
        - destruct Hin as [Hin|Hin]; [inversion Hin; subst; rewrite String.eqb_refl in E; discriminate|].
          apply IHl; [exact Hin|]. intros a b q0 r Ha Hb. apply Hu; now right. }
      exists f. split; [exact Hlk0|].
      apply fill_fields_in in Hlk0. destruct Hlk0 as [Hc|Hnew]; [discriminate|].
      exact (Hsrc f FromNew Hnew). }
    destruct Hlk as (g & Hg & Hgin). exact (Hrel g u Hgin Hg).
  Qed.
End Safety.
