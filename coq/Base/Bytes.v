(** Byte helpers shared by the models and the extraction glue. *)
From Coq Require Import List NArith.
From Coq.Strings Require Import Byte.
Import ListNotations.

Definition bytes := list byte.

Definition byte_of_N (n : N) : byte :=
  match Byte.of_N n with Some b => b | None => x00 end.
Definition N_of_byte (b : byte) : N := Byte.to_N b.

Lemma byte_of_N_of_byte b : byte_of_N (N_of_byte b) = b.
Proof. unfold byte_of_N, N_of_byte. now rewrite Byte.of_to_N. Qed.
