(** List lemmas missing from the Coq 8.16 standard library. *)
From Coq Require Import List Arith Lia.
Import ListNotations.

Lemma skipn_skipn {A} (x y : nat) (l : list A) : skipn x (skipn y l) = skipn (y + x) l.
Proof.
  revert l. induction y as [|y IH]; intros l; cbn [skipn plus]; [reflexivity|].
  destruct l as [|a l]; [now rewrite skipn_nil|]. apply IH.
Qed.

Lemma firstn_firstn_same {A} (k : nat) (l : list A) : firstn k (firstn k l) = firstn k l.
Proof. rewrite firstn_firstn. now rewrite Nat.min_id. Qed.

Lemma nth_firstn_lt {A} (i k : nat) (l : list A) d : i < k -> nth i (firstn k l) d = nth i l d.
Proof.
  revert i l. induction k as [|k IH]; intros i l H; [lia|].
  destruct l as [|a l]; [destruct i; reflexivity|].
  destruct i as [|i]; cbn; [reflexivity|]. apply IH. lia.
Qed.

Lemma nth_skipn {A} (i k : nat) (l : list A) d : nth i (skipn k l) d = nth (k + i) l d.
Proof.
  revert l. induction k as [|k IH]; intros l; [reflexivity|].
  destruct l as [|a l]; [destruct i; reflexivity|]. apply IH.
Qed.
