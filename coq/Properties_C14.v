(** C14 – config compiler.  Property theorems only. *)
From Coq Require Import List.
From RimeV Require Import CfgC.Str CfgC.Tree CfgC.Spec.
Import ListNotations.

Theorem C14_spec_missing_document : forall fuel name, compile_spec [] fuel name = Null.
Proof. reflexivity. Qed.
Print Assumptions C14_spec_missing_document.
