(** C14 – config compiler: includes copy, patches apply in order, sources stay
    untouched.  Property theorems only; each closed by [exact] of a lemma
    proved under coq/CfgC.

    Models: [compile_spec] (CfgC/Spec.v) is the property's right-hand side, a
    pure sharing-free interpreter; [compile_impl] (CfgC/Impl.v) is a port of
    the implemented algorithm over an explicit heap of shared nodes. *)
From Coq Require Import List Arith Bool.
From RimeV Require Import CfgC.Str CfgC.Tree CfgC.Spec CfgC.Impl CfgC.ImplFacts CfgC.DepsProofs
  CfgC.TermProofs CfgC.EditProofs CfgC.SpecProofs CfgC.ShareProofs CfgC.ConvProofs CfgC.PlainProofs
  CfgC.WholeProofs CfgC.Examples.
Import ListNotations.
From Coq.Strings Require String.
Import String.StringSyntax.
Open Scope string_scope.

(** * dependency ordering *)

(** Whatever the order in which dependencies are added at a path
    (InsertByPriority), the list ResolveDependencies walks is: pending
    children, then includes, then patches, each class in insertion order. *)
Theorem C14_deps_order :
  forall ds : list dep, fold_left insert_by_priority ds [] = by_classes ds.
Proof. exact inserts_by_classes. Qed.
Print Assumptions C14_deps_order.

Theorem C14_deps_order_in_graph :
  forall st path ds, deps_at st path = None -> ds <> [] ->
  deps_at (fold_left (fun s d => add_dep_at s path d) ds st) path = Some (by_classes ds).
Proof. exact deps_after_adds. Qed.
Print Assumptions C14_deps_order_in_graph.

Theorem C14_deps_sorted :
  forall ds i j, i <= j -> j < length (by_classes ds) ->
  priority (nth i (by_classes ds) (DPending [])) <= priority (nth j (by_classes ds) (DPending [])).
Proof. exact by_classes_sorted. Qed.
Print Assumptions C14_deps_sorted.

(** * algebra of the node editor *)

Theorem C14_set_then_get :
  forall ks top v, Forall stable_key ks -> read_keys (write_keys top ks v) ks = v.
Proof. exact set_then_get. Qed.
Print Assumptions C14_set_then_get.

Theorem C14_set_then_set :
  forall ks top v w, Forall stable_key ks ->
  write_keys (write_keys top ks v) ks w = write_keys top ks w.
Proof. exact set_then_set. Qed.
Print Assumptions C14_set_then_set.

(** [@before i] / [@after i-1]: the value lands in front of the old element i *)
Theorem C14_insert_before :
  forall l k i v, is_list_ref k = true -> resolve_index (length l) k = (i, true) -> i <= length l ->
  write_child (Lst l) k v = Lst (firstn i l ++ v :: skipn i l).
Proof. exact write_child_insert. Qed.
Print Assumptions C14_insert_before.

Theorem C14_append_assoc :
  forall path top tl l1 l2 mt, Forall stable_key path -> read_keys top path = Lst tl ->
  edit_node (Lst l2) (fst (edit_node (Lst l1) top path s_append mt)) path s_append mt =
  edit_node (Lst (l1 ++ l2)) top path s_append mt.
Proof. exact append_assoc. Qed.
Print Assumptions C14_append_assoc.

Theorem C14_append_assoc_string :
  forall path top t s1 s2 mt, Forall stable_key path -> read_keys top path = Scalar t ->
  edit_node (Scalar s2) (fst (edit_node (Scalar s1) top path s_append mt)) path s_append mt =
  edit_node (Scalar (s1 ++ s2)) top path s_append mt.
Proof. exact append_assoc_string. Qed.
Print Assumptions C14_append_assoc_string.

Theorem C14_merge_idem :
  forall vm m, plain_entries vm ->
  exists m1 m2,
    merge_tree vm (Map m) [] = (Map m1, true) /\
    merge_tree vm (Map m1) [] = (Map m2, true) /\
    forall k, alookup k m2 = alookup k m1.
Proof. exact merge_idem. Qed.
Print Assumptions C14_merge_idem.

(** non-vacuity of the key classes used above *)
Theorem C14_keys_nonvacuous :
  stable_key (bs "ground_units") /\ plain_key (bs "player") /\
  resolve_index 5 (bs "@before 2") = (2, true) /\ resolve_index 5 (bs "@after last") = (5, true) /\
  resolve_index 5 (bs "@next") = (5, false) /\ resolve_index 5 (bs "@last") = (4, false) /\
  resolve_index 5 (bs "@3") = (3, false).
Proof.
  split; [left; reflexivity|]. split.
  - repeat split; try discriminate. intros H. vm_compute in H. intuition discriminate.
  - vm_compute. repeat split.
Qed.
Print Assumptions C14_keys_nonvacuous.

(** * a directive-free document compiles to itself *)

Theorem C14_plain_fixed_spec :
  forall ds f name y,
  alookup (to_resource_id name) ds = Some y ->
  directive_free y = true ->
  alookup (custom_id (to_resource_id name)) ds = None ->
  ends_with (to_resource_id name) s_schema = false ->
  spec_link ds (S f) name = (true, y2item y, fl0, true).
Proof. exact spec_plain_fixed. Qed.
Print Assumptions C14_plain_fixed_spec.

(** the implemented conversion: no dependency is registered and the new heap
    region reads back as the document, whatever happens to the heap outside
    that region afterwards *)
Theorem C14_plain_fixed_convert :
  forall y, directive_free y = true ->
  forall ns ks st,
    let r := convert y ns ks st in
    st_deps (snd r) = st_deps st /\
    forall wf h'', ydepth y <= wf ->
      agree_on (length (st_heap st)) (length (st_heap (snd r))) (st_heap (snd r)) h'' ->
      readback wf h'' (fst r) = (y2item y, true).
Proof.
  intros y Hd ns ks st. destruct (convert_plain y Hd ns ks st) as (O & _ & _ & R).
  split; [apply O|exact R].
Qed.
Print Assumptions C14_plain_fixed_convert.

(** the whole of ConfigBuilder::LoadConfig (Compile, the vacuous automatic
    patch, Link, BuildInfoPlugin) on a directive-free map document *)
Theorem C14_plain_fixed_impl :
  forall ds wf f name m,
  alookup (to_resource_id name) ds = Some (YMap m) ->
  directive_free (YMap m) = true ->
  alookup (custom_id (to_resource_id name)) ds = None ->
  ends_with (to_resource_id name) s_schema = false ->
  ends_with (to_resource_id name) s_custom = false ->
  (forall e, In e m -> str_eqb (fst e) s_build_info = false) ->
  S (ydepth (YMap m)) <= wf ->
  let o := compile_impl ds wf (S f) name in
  o_tree o = y2item (YMap m) /\ o_loaded o = true /\ o_linked o = true /\
  o_oof o = false /\ o_woof o = false /\ o_ub o = false.
Proof. exact impl_plain_fixed. Qed.
Print Assumptions C14_plain_fixed_impl.

Theorem C14_plain_fixed_nonvacuous :
  directive_free y_starcraft = true /\ directive_free y_config_test = true /\
  o_tree (compile_impl fixture_docs 60 400 (bs "starcraft")) = y2item y_starcraft.
Proof. vm_compute. repeat split. Qed.
Print Assumptions C14_plain_fixed_nonvacuous.

(** * sources stay untouched: no write through sharing *)

(** A write through a fresh copy-on-write reference changes no node that
    existed before except the container of the slot the reference is anchored
    at: every well-formed tree of the old heap that does not contain that
    container reads back unchanged, and no other resource's root moves. *)
Theorem C14_sources_untouched_by_cow_write :
  forall r st v wf q, fresh r ->
  avoids wf (st_heap st) (anchor st r) q = true ->
  readback wf (st_heap (fst (set_item st r v))) q = readback wf (st_heap st) q.
Proof. exact cow_write_leaves_sources_untouched. Qed.
Print Assumptions C14_sources_untouched_by_cow_write.

Theorem C14_other_roots_untouched_by_cow_write :
  forall r st v id, fresh r -> Some id <> base_res r ->
  res_root (fst (set_item st r v)) id = res_root st id.
Proof. exact cow_write_leaves_other_roots. Qed.
Print Assumptions C14_other_roots_untouched_by_cow_write.

(** the same for every edit the compiler performs (any patch map, any include
    with any sibling keys): a copy-on-write reference keeps the container it
    copied (153d253), so ownership is structural.  [frame L b br st st']:
    the heap only grows, nodes below L other than b are as before, roots
    other than br do not move. *)
Theorem C14_patch_writes_only_its_slot :
  forall wf m st tgt, owned (length (st_heap st)) tgt ->
  frame (length (st_heap st)) (base_addr tgt) (base_res tgt) st (snd (fst (patch_literal_h wf m st tgt))).
Proof. exact patch_leaves_sources_untouched. Qed.
Print Assumptions C14_patch_writes_only_its_slot.

Theorem C14_include_writes_only_its_slot :
  forall wf st tgt inc, owned (length (st_heap st)) tgt ->
  frame (length (st_heap st)) (base_addr tgt) (base_res tgt) st (snd (fst (include_h wf st tgt inc))).
Proof. exact include_leaves_sources_untouched. Qed.
Print Assumptions C14_include_writes_only_its_slot.

(** the whole of ResolveDependencies, for every document set, path and fuel,
    nested compilations of referenced documents included: a node that existed
    before changes only if it is the container of the target slot of a
    dependency that was pending *)
Theorem C14_no_write_through_sharing :
  forall ds wf fuel path st, targets_are_slots st ->
  forall a, a < length (st_heap st) -> ~ pending_base st a ->
  hget (st_heap (snd (resolve_deps ds wf fuel path st))) a = hget (st_heap st) a.
Proof. exact resolve_writes_only_pending_targets. Qed.
Print Assumptions C14_no_write_through_sharing.

(** sources stay untouched: a tree holding no container of a pending target
    slot (a compiled document, an included source) reads back unchanged after
    any further resolution in the same compiler *)
Theorem C14_sources_untouched :
  forall ds wf fuel path st wf' q, targets_are_slots st ->
  avoids_all wf' (st_heap st) (is_pending_base st) q = true ->
  readback wf' (st_heap (snd (resolve_deps ds wf fuel path st))) q = readback wf' (st_heap st) q.
Proof. exact sources_untouched. Qed.
Print Assumptions C14_sources_untouched.

(** the hypothesis holds of every state the compiler reaches *)
Theorem C14_targets_are_slots_reachable :
  targets_are_slots st0 /\
  (forall ds st file, targets_are_slots st -> targets_are_slots (snd (compile_h ds st file))) /\
  (forall ds wf fuel path st, targets_are_slots st -> targets_are_slots (snd (resolve_deps ds wf fuel path st))).
Proof.
  split; [exact st0_targets_are_slots|]. split; [exact compile_targets_are_slots|exact resolve_targets_are_slots].
Qed.
Print Assumptions C14_targets_are_slots_reachable.

(** non-vacuity on the repository's merge fixture: once `starcraft:/` has been
    included (and compiled) the starcraft resource holds no pending slot, the
    rest of the document (appends, patches and merges over copies of it) is
    then resolved, and it reads back unchanged *)
Theorem C14_sources_untouched_nonvacuous :
  let st1 := snd (compile_h fixture_docs st0 (bs "config_merge_test")) in
  let st2 := snd (resolve_deps fixture_docs 60 400 (bs "config_merge_test:/starcraft") st1) in
  let q := res_root st2 (bs "starcraft") in
  q <> None /\ pending_bases st2 <> [] /\
  avoids_all 60 (st_heap st2) (is_pending_base st2) q = true /\
  fst (readback 60 (st_heap st2) q) = y2item y_starcraft.
Proof. vm_compute. repeat split; discriminate. Qed.
Print Assumptions C14_sources_untouched_nonvacuous.

(** memory operations (references, EditNode, MergeTree, patches, includes)
    never touch the dependency graph or the resolve chain *)
Theorem C14_edit_keeps_graph :
  forall wf st head key value mt, sg st (snd (fst (edit_node_h wf st head key value mt))).
Proof. exact sg_edit_node_h. Qed.
Print Assumptions C14_edit_keeps_graph.

(** * termination on every document set, cyclic ones included *)

(** ResolveDependencies: from any state satisfying the graph invariant, with
    fuel above (number of dependency-bearing paths) - (chain length), the
    recursion does not run out of fuel, keeps the invariant, and never
    shortens the chain. *)
Theorem C14_resolve_terminates :
  forall ds wf U,
  (forall u, In u U -> ends_with (to_resource_id u) s_custom = false -> In (custom_id (to_resource_id u)) U) ->
  (forall u y, In u U -> alookup (to_resource_id u) ds = Some y ->
     forall s, In s (scalars y) -> In (r_res (create_reference (cur_of (to_resource_id u)) s)) U) ->
  forall fuel path st, ginv ds U st -> NP ds U - length (st_chain st) < fuel ->
  good ds U st (snd (resolve_deps ds wf fuel path st)).
Proof. exact resolve_deps_good. Qed.
Print Assumptions C14_resolve_terminates.

(** ConfigBuilder::LoadConfig (Compile, Link with the production plugins):
    for every document set and every target, fuel above the explicit bound
    [2 * (5 + #scalars) * (1 + max #nodes of a document)] is never exhausted. *)
Theorem C14_compile_total_resolve :
  forall ds wf fuel, fuel_bound ds < fuel -> forall name, o_oof (compile_impl ds wf fuel name) = false.
Proof. exact compile_impl_resolve_total. Qed.
Print Assumptions C14_compile_total_resolve.

(** full statement (not proved): neither kind of fuel is exhausted.  Missing:
    acyclicity of the heap that the walks of MergeTree / readback go down
    (an in-place store into a parse-time container of a node that contains
    this container would make it cyclic; the cycle check of
    ResolveDependencies is what prevents it). *)
Definition C14_compile_total_full : Prop :=
  forall ds name, exists wf fuel, forall wf' fuel', wf <= wf' -> fuel <= fuel' ->
    o_oof (compile_impl ds wf' fuel' name) = false /\ o_woof (compile_impl ds wf' fuel' name) = false.

(** * the port of the implementation against the specification *)

(** full statement (not proved in general): on runs the specification
    classifies as clear (acyclic, no error) the implemented algorithm yields
    the specified tree. *)
Definition C14_impl_refines_spec_full : Prop :=
  forall ds name, exists n, forall wf fuel sfuel, n <= wf -> n <= fuel -> n <= sfuel ->
    let '(loaded, v, fl, linked) := spec_link ds sfuel name in
    fl_clear fl = true -> loaded = true ->
    o_tree (compile_impl ds wf fuel name) = (if linked then v else o_tree (compile_impl ds wf fuel name)) /\
    o_linked (compile_impl ds wf fuel name) = linked.

(** proved part: directive-free map documents (both sides are the document) *)
Theorem C14_impl_refines_spec_partial :
  forall ds wf f sf name m,
  alookup (to_resource_id name) ds = Some (YMap m) ->
  directive_free (YMap m) = true ->
  alookup (custom_id (to_resource_id name)) ds = None ->
  ends_with (to_resource_id name) s_schema = false ->
  ends_with (to_resource_id name) s_custom = false ->
  (forall e, In e m -> str_eqb (fst e) s_build_info = false) ->
  S (ydepth (YMap m)) <= wf ->
  o_tree (compile_impl ds wf (S f) name) = compile_spec ds (S sf) name.
Proof.
  intros ds wf f sf name m H1 H2 H3 H4 H5 H6 H7.
  destruct (impl_plain_fixed ds wf f name m H1 H2 H3 H4 H5 H6 H7) as [E _].
  unfold compile_spec. rewrite (spec_plain_fixed ds sf name (YMap m) H1 H2 H3 H4). exact E.
Qed.
Print Assumptions C14_impl_refines_spec_partial.

(** proved instances: the repository's own fixtures (computed), with includes,
    patch lists, appends, merges, optional references; and the cyclic fixture
    on which only termination and the best-effort result are claimed *)
Theorem C14_impl_refines_spec_fixtures :
  forallb agree ["config_compiler_test"; "config_merge_test"; "config_dependency_test";
                 "starcraft"; "config_test"] = true.
Proof. exact fixtures_agree. Qed.
Print Assumptions C14_impl_refines_spec_fixtures.

Theorem C14_cyclic_fixture_terminates :
  let '(_, _, fl, _) := fx_spec "config_circular_dependency_test" in
  let o := fx_impl "config_circular_dependency_test" in
  f_cyc fl = true /\ o_linked o = true /\ o_oof o = false /\
  at_path (o_tree o) "test/home" = Scalar (bs "naive") /\
  at_path (o_tree o) "test/work" = Scalar (bs "excited").
Proof. exact circular_fixture. Qed.
Print Assumptions C14_cyclic_fixture_terminates.

Theorem C14_patches_apply_in_order_example :
  let v := o_tree (fx_impl "config_compiler_test") in
  at_path v "patch_list/protoss/ground_units/@6" = Scalar (bs "dark templar") /\
  at_path v "patch_list/protoss/ground_units/@7" = Scalar (bs "dark archon") /\
  at_path v "starcraft/protoss/ground_units/@6" = Null.
Proof. exact patch_list_appends_in_order. Qed.
Print Assumptions C14_patches_apply_in_order_example.
