
(** val negb : bool -> bool **)

let negb = function
| true -> false
| false -> true

(** val fst : ('a1 * 'a2) -> 'a1 **)

let fst = function
| (x, _) -> x

(** val snd : ('a1 * 'a2) -> 'a2 **)

let snd = function
| (_, y) -> y

(** val app : 'a1 list -> 'a1 list -> 'a1 list **)

let rec app l m =
  match l with
  | [] -> m
  | a :: l1 -> a :: (app l1 m)

(** val map : ('a1 -> 'a2) -> 'a1 list -> 'a2 list **)

let rec map f = function
| [] -> []
| a :: t -> (f a) :: (map f t)

(** val fold_left : ('a1 -> 'a2 -> 'a1) -> 'a2 list -> 'a1 -> 'a1 **)

let rec fold_left f l a0 =
  match l with
  | [] -> a0
  | b :: t -> fold_left f t (f a0 b)

(** val existsb : ('a1 -> bool) -> 'a1 list -> bool **)

let rec existsb f = function
| [] -> false
| a :: l0 -> (||) (f a) (existsb f l0)

(** val filter : ('a1 -> bool) -> 'a1 list -> 'a1 list **)

let rec filter f = function
| [] -> []
| x :: l0 -> if f x then x :: (filter f l0) else filter f l0

type positive =
| XI of positive
| XO of positive
| XH

type n =
| N0
| Npos of positive

module Pos =
 struct
  (** val eqb : positive -> positive -> bool **)

  let rec eqb p q =
    match p with
    | XI p0 -> (match q with
                | XI q0 -> eqb p0 q0
                | _ -> false)
    | XO p0 -> (match q with
                | XO q0 -> eqb p0 q0
                | _ -> false)
    | XH -> (match q with
             | XH -> true
             | _ -> false)
 end

module N =
 struct
  (** val eqb : n -> n -> bool **)

  let eqb n0 m =
    match n0 with
    | N0 -> (match m with
             | N0 -> true
             | Npos _ -> false)
    | Npos p -> (match m with
                 | N0 -> false
                 | Npos q -> Pos.eqb p q)
 end

type rname =
| RDefault
| RDefaultCustom
| RSchema of n
| RCustom of n
| ROther of n

type fname =
| FRes of rname
| FDict of n
| FVocab of n

type fver = { fv_cid : n; fv_mtime : n }

type srcs = (fname * fver) list

(** val rname_eqb : rname -> rname -> bool **)

let rname_eqb a b =
  match a with
  | RDefault -> (match b with
                 | RDefault -> true
                 | _ -> false)
  | RDefaultCustom -> (match b with
                       | RDefaultCustom -> true
                       | _ -> false)
  | RSchema x -> (match b with
                  | RSchema y -> N.eqb x y
                  | _ -> false)
  | RCustom x -> (match b with
                  | RCustom y -> N.eqb x y
                  | _ -> false)
  | ROther x -> (match b with
                 | ROther y -> N.eqb x y
                 | _ -> false)

(** val fname_eqb : fname -> fname -> bool **)

let fname_eqb a b =
  match a with
  | FRes r -> (match b with
               | FRes q -> rname_eqb r q
               | _ -> false)
  | FDict x -> (match b with
                | FDict y -> N.eqb x y
                | _ -> false)
  | FVocab x -> (match b with
                 | FVocab y -> N.eqb x y
                 | _ -> false)

(** val lookup : srcs -> fname -> fver option **)

let rec lookup s f =
  match s with
  | [] -> None
  | p :: r -> let (g, v) = p in if fname_eqb g f then Some v else lookup r f

type schema_info = { si_dict : n option; si_prism : n option;
                     si_packs : n list; si_deps : n list }

type dict_info = { di_imports : n list; di_vocab : n option }

type cyfrom = (rname * fver option) list

type cyaml = { cy_ts : (rname * n) list; cy_from : cyfrom }

type tab = { t_ck : n; t_files : n list }

type prism = { p_dck : n; p_sck : n; p_tab : tab; p_cy : cyaml }

type art =
| ACy of cyaml
| ATab of tab
| APrism of prism

type akey =
| KCy of n option
| KTab of n
| KRev of n
| KPrism of n

(** val akey_eqb : akey -> akey -> bool **)

let akey_eqb a b =
  match a with
  | KCy t ->
    (match t with
     | Some x ->
       (match b with
        | KCy t0 -> (match t0 with
                     | Some y -> N.eqb x y
                     | None -> false)
        | _ -> false)
     | None ->
       (match b with
        | KCy t0 -> (match t0 with
                     | Some _ -> false
                     | None -> true)
        | _ -> false))
  | KTab x -> (match b with
               | KTab y -> N.eqb x y
               | _ -> false)
  | KRev x -> (match b with
               | KRev y -> N.eqb x y
               | _ -> false)
  | KPrism x -> (match b with
                 | KPrism y -> N.eqb x y
                 | _ -> false)

type arts = (akey * art) list

(** val aget : arts -> akey -> art option **)

let rec aget a k =
  match a with
  | [] -> None
  | p :: r -> let (j, v) = p in if akey_eqb j k then Some v else aget r k

(** val aset : akey -> art -> arts -> arts **)

let aset k v a =
  (k, v) :: a

(** val get_cy : arts -> akey -> cyaml option **)

let get_cy a k =
  match aget a k with
  | Some a0 -> (match a0 with
                | ACy c -> Some c
                | _ -> None)
  | None -> None

(** val get_tab : arts -> akey -> tab option **)

let get_tab a k =
  match aget a k with
  | Some a0 -> (match a0 with
                | ATab t -> Some t
                | _ -> None)
  | None -> None

(** val get_prism : arts -> akey -> prism option **)

let get_prism a k =
  match aget a k with
  | Some a0 -> (match a0 with
                | APrism p -> Some p
                | _ -> None)
  | None -> None

type logent =
| LCfg of n option * bool
| LSchemaMissing of n * bool
| LDict of n * bool * bool * bool
| LDictFail of n
| LNoSourceNoTable of n
| LPrismFail of n
| LPack of n * n

(** val res_of : n option -> rname **)

let res_of = function
| Some x -> RSchema x
| None -> RDefault

(** val ts_of : fver option -> n **)

let ts_of = function
| Some f -> f.fv_mtime
| None -> N0

(** val build_config :
    (srcs -> n option -> rname list) -> srcs -> n option -> cyaml **)

let build_config deps_fn s t =
  { cy_ts = (map (fun r -> (r, (ts_of (lookup s (FRes r))))) (deps_fn s t));
    cy_from = (map (fun r -> (r, (lookup s (FRes r)))) (deps_fn s t)) }

(** val entry_stale : srcs -> (rname * n) -> bool **)

let entry_stale s e =
  match lookup s (FRes (fst e)) with
  | Some v -> negb (N.eqb (snd e) v.fv_mtime)
  | None -> negb (N.eqb (snd e) N0)

(** val needs_update : srcs -> cyaml option -> bool **)

let needs_update s = function
| Some c0 -> existsb (entry_stale s) c0.cy_ts
| None -> true

(** val config_update :
    (srcs -> n option -> rname list) -> srcs -> n option -> arts ->
    arts * logent list **)

let config_update deps_fn s t a =
  if needs_update s (get_cy a (KCy t))
  then (match lookup s (FRes (res_of t)) with
        | Some _ ->
          ((aset (KCy t) (ACy (build_config deps_fn s t)) a), ((LCfg (t,
            true)) :: []))
        | None -> (a, ((LCfg (t, true)) :: [])))
  else (a, ((LCfg (t, false)) :: []))

(** val tables_of : n -> dict_info -> n list **)

let tables_of d di =
  d :: (filter (fun i -> negb (N.eqb i d)) di.di_imports)

(** val cids_of : srcs -> n list -> n list option **)

let rec cids_of s = function
| [] -> Some []
| d :: r ->
  (match lookup s (FDict d) with
   | Some v ->
     (match cids_of s r with
      | Some l -> Some (v.fv_cid :: l)
      | None -> None)
   | None -> None)

(** val vocab_cids : srcs -> dict_info -> n list **)

let vocab_cids s di =
  match di.di_vocab with
  | Some v ->
    (match lookup s (FVocab v) with
     | Some f -> f.fv_cid :: []
     | None -> [])
  | None -> []

(** val crc_files : (n -> n list -> n) -> n -> n list -> n **)

let crc_files crc init l = match l with
| [] -> init
| _ :: _ -> crc init l

(** val stale_ck : tab option -> n -> bool **)

let stale_ck t ck =
  match t with
  | Some t0 -> negb (N.eqb t0.t_ck ck)
  | None -> true

(** val compile_packs :
    (n -> n list -> n) -> (n -> dict_info) -> srcs -> n -> n list -> arts ->
    arts * logent list **)

let rec compile_packs crc dinfo_of s dck packs a =
  match packs with
  | [] -> (a, [])
  | q :: r ->
    (match lookup s (FDict q) with
     | Some v ->
       let di = dinfo_of v.fv_cid in
       (match cids_of s (tables_of q di) with
        | Some fl ->
          let files = app fl (vocab_cids s di) in
          let pck = crc_files crc dck files in
          let rb = stale_ck (get_tab a (KTab q)) pck in
          let a1 =
            if rb
            then aset (KTab q) (ATab { t_ck = pck; t_files = files }) a
            else a
          in
          let (a', l) = compile_packs crc dinfo_of s dck r a1 in
          (a', ((LPack (q, (if rb then Npos XH else Npos (XO XH)))) :: l))
        | None ->
          let (a', l) = compile_packs crc dinfo_of s dck r a in
          (a', ((LPack (q, (Npos (XI XH)))) :: l)))
     | None ->
       let (a', l) = compile_packs crc dinfo_of s dck r a in
       (a', ((LPack (q, N0)) :: l)))

(** val compile_core :
    (n -> n list -> n) -> (cyaml -> n) -> (n -> dict_info) -> srcs -> n -> n
    -> n list -> cyaml -> bool -> n -> n list -> bool -> arts ->
    (arts * logent list) * bool **)

let compile_core crc cyid dinfo_of s d p packs cy from_source dck files rb_t0 a =
  let sck = cyid cy in
  let rb_p =
    match get_prism a (KPrism p) with
    | Some q -> (||) (negb (N.eqb q.p_dck dck)) (negb (N.eqb q.p_sck sck))
    | None -> true
  in
  let rb_t = (||) rb_t0 (stale_ck (get_tab a (KRev d)) dck) in
  let newt = { t_ck = dck; t_files = files } in
  let a1 =
    if rb_t
    then aset (KRev d) (ATab newt) (aset (KTab d) (ATab newt) a)
    else a
  in
  let hd = LDict (d, from_source, rb_t, rb_p) in
  if rb_p
  then (match get_tab a1 (KTab d) with
        | Some t ->
          (match t.t_files with
           | [] -> ((a1, (hd :: ((LPrismFail d) :: []))), false)
           | _ :: _ ->
             let a2 =
               aset (KPrism p) (APrism { p_dck = dck; p_sck = sck; p_tab = t;
                 p_cy = cy }) a1
             in
             let (a3, l) = compile_packs crc dinfo_of s dck packs a2 in
             ((a3, (hd :: l)), true))
        | None -> ((a1, (hd :: ((LPrismFail d) :: []))), false))
  else let (a3, l) = compile_packs crc dinfo_of s dck packs a1 in
       ((a3, (hd :: l)), true)

(** val compile :
    (n -> n list -> n) -> (cyaml -> n) -> (n -> dict_info) -> srcs -> n -> n
    -> n list -> cyaml -> arts -> (arts * logent list) * bool **)

let compile crc cyid dinfo_of s d p packs cy a =
  match lookup s (FDict d) with
  | Some v ->
    let di = dinfo_of v.fv_cid in
    (match cids_of s (tables_of d di) with
     | Some fl ->
       let files = app fl (vocab_cids s di) in
       let dck = crc_files crc N0 files in
       compile_core crc cyid dinfo_of s d p packs cy true dck files
         (stale_ck (get_tab a (KTab d)) dck) a
     | None -> ((a, ((LDictFail d) :: [])), false))
  | None ->
    (match get_tab a (KTab d) with
     | Some t ->
       compile_core crc cyid dinfo_of s d p packs cy false t.t_ck [] false a
     | None -> ((a, ((LNoSourceNoTable d) :: [])), false))

(** val schema_update :
    (n -> n list -> n) -> (cyaml -> n) -> (cyfrom -> schema_info) -> (n ->
    dict_info) -> (srcs -> n option -> rname list) -> srcs -> n -> bool ->
    arts -> (arts * logent list) * bool **)

let schema_update crc cyid info_of dinfo_of deps_fn s x as_dep a =
  match lookup s (FRes (RSchema x)) with
  | Some _ ->
    let (a1, l1) = config_update deps_fn s (Some x) a in
    (match get_cy a1 (KCy (Some x)) with
     | Some cy ->
       let info = info_of cy.cy_from in
       (match info.si_dict with
        | Some d ->
          let p = match info.si_prism with
                  | Some p -> p
                  | None -> d in
          let (p0, ok) = compile crc cyid dinfo_of s d p info.si_packs cy a1
          in
          let (a2, l2) = p0 in ((a2, (app l1 l2)), ok)
        | None -> ((a1, l1), true))
     | None -> ((a1, l1), true))
  | None -> ((a, ((LSchemaMissing (x, as_dep)) :: [])), as_dep)

type wstate = ((arts * logent list) * n list) * bool

(** val build_schema :
    (n -> n list -> n) -> (cyaml -> n) -> (cyfrom -> schema_info) -> (n ->
    dict_info) -> (srcs -> n option -> rname list) -> srcs -> bool -> wstate
    -> n -> wstate **)

let build_schema crc cyid info_of dinfo_of deps_fn s as_dep st x =
  let (p, ok) = st in
  let (p0, built) = p in
  let (a, l) = p0 in
  if existsb (N.eqb x) built
  then st
  else let (p1, ok') =
         schema_update crc cyid info_of dinfo_of deps_fn s x as_dep a
       in
       let (a', l') = p1 in (((a', (app l l')), (x :: built)), ((&&) ok ok'))

(** val visit :
    (n -> n list -> n) -> (cyaml -> n) -> (cyfrom -> schema_info) -> (n ->
    dict_info) -> (srcs -> n option -> rname list) -> srcs -> wstate -> n ->
    wstate **)

let visit crc cyid info_of dinfo_of deps_fn s st x =
  let st1 = build_schema crc cyid info_of dinfo_of deps_fn s false st x in
  let (p, _) = st1 in
  let (p0, _) = p in
  let (a, _) = p0 in
  let deps =
    match get_cy a (KCy (Some x)) with
    | Some cy -> (info_of cy.cy_from).si_deps
    | None -> []
  in
  fold_left (build_schema crc cyid info_of dinfo_of deps_fn s true) deps st1

(** val deploy :
    (n -> n list -> n) -> (cyaml -> n) -> (cyfrom -> n list) -> (cyfrom ->
    schema_info) -> (n -> dict_info) -> (srcs -> n option -> rname list) ->
    srcs -> arts -> (arts * logent list) * bool **)

let deploy crc cyid list_of info_of dinfo_of deps_fn s a =
  let (a1, l1) = config_update deps_fn s None a in
  (match get_cy a1 (KCy None) with
   | Some cd ->
     let (p, ok) =
       fold_left (visit crc cyid info_of dinfo_of deps_fn s)
         (list_of cd.cy_from) (((a1, l1), []), true)
     in
     let (p0, _) = p in (p0, ok)
   | None -> ((a1, l1), false))

(** val rebuilt_entry : logent -> bool **)

let rebuilt_entry = function
| LCfg (_, b) -> b
| LDict (_, _, bt, bp) -> (||) bt bp
| LPack (_, st) -> N.eqb st (Npos XH)
| _ -> false
