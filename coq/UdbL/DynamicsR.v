(** C10 – src/rime/algo/dynamics.h over the reals: what can be proved about
    formula_d / formula_p towards H_weight_mono.  The branch d < 20 (where
    entries with few commits live) is linear in the decayed weight; the
    pow(4, d/kM) branch and the double rounding are not treated – H_weight_mono
    stays a named hypothesis of the ranking theorem and is validated numerically
    by the harness. *)
From Coq Require Import Reals Lra.
Local Open Scope R_scope.

(** formula_d(d, t, da, ta) = d + da * exp((ta - t) / 200) *)
Definition formula_d (d t da ta : R) : R := d + da * exp ((ta - t) / 200).

Definition kM : R := / (1 - exp (- (5 / 1000))).

(** formula_p(s, u, t, d) on the branch d < 20 *)
Definition m_of (s u t : R) : R := s - (s - u) * (1 - exp (- t / 10000)) ^ 10.
Definition formula_p_low (s u t d : R) : R :=
  let m := m_of s u t in m + (1 / 2 - m) * (d / kM).

(** a commit adds exactly its count to the decayed weight: the committed entry's
    [dee] exceeds what it would have been without the commit *)
Lemma formula_d_commit_gain c t da ta : 0 < c -> formula_d 0 t da ta < formula_d c t da ta.
Proof. unfold formula_d. lra. Qed.

Lemma formula_d_nonneg d t da ta : 0 <= d -> 0 <= da -> 0 <= formula_d d t da ta.
Proof.
  intros H1 H2. unfold formula_d.
  pose proof (exp_pos ((ta - t) / 200)) as E.
  assert (0 <= da * exp ((ta - t) / 200)) by (apply Rmult_le_pos; lra). lra.
Qed.

Lemma exp_neg_lt_1 x : 0 < x -> exp (- x) < 1.
Proof. intro H. rewrite <- exp_0. apply exp_increasing. lra. Qed.

Lemma kM_pos : 0 < kM.
Proof.
  unfold kM. apply Rinv_0_lt_compat.
  pose proof (exp_neg_lt_1 (5 / 1000)) as H. lra.
Qed.

(** with s = 0: m = u * g(t), 0 <= g(t) < 1 for t > 0 *)
Lemma g_range t : 0 < t -> 0 <= (1 - exp (- t / 10000)) ^ 10 <= 1.
Proof.
  intro H.
  assert (0 < 1 - exp (- t / 10000) < 1) as [G1 G2].
  { pose proof (exp_neg_lt_1 (t / 10000)) as E.
    pose proof (exp_pos (- t / 10000)) as P.
    replace (- (t / 10000)) with (- t / 10000) in E by lra.
    assert (0 < t / 10000) by lra. specialize (E H0). lra. }
  split.
  - apply pow_le. lra.
  - rewrite <- (pow1 10). apply pow_incr. lra.
Qed.

(** on the low branch the value is increasing in the decayed weight as long as
    the frequency part m stays below 1/2 ... *)
Lemma formula_p_low_mono_d s u t d1 d2 :
  m_of s u t <= 1 / 2 -> d1 <= d2 -> formula_p_low s u t d1 <= formula_p_low s u t d2.
Proof.
  intros Hm Hd. unfold formula_p_low. cbv zeta.
  pose proof kM_pos as K.
  assert (d1 / kM <= d2 / kM).
  { unfold Rdiv. apply Rmult_le_compat_r; [left; now apply Rinv_0_lt_compat|exact Hd]. }
  assert (0 <= 1 / 2 - m_of s u t) by lra.
  assert ((1 / 2 - m_of s u t) * (d1 / kM) <= (1 / 2 - m_of s u t) * (d2 / kM))
    by (apply Rmult_le_compat_l; assumption).
  lra.
Qed.

(** ... strictly so when m < 1/2 *)
Lemma formula_p_low_strict_d s u t d1 d2 :
  m_of s u t < 1 / 2 -> d1 < d2 -> formula_p_low s u t d1 < formula_p_low s u t d2.
Proof.
  intros Hm Hd. unfold formula_p_low. cbv zeta.
  pose proof kM_pos as K.
  assert (d1 / kM < d2 / kM).
  { unfold Rdiv. apply Rmult_lt_compat_r; [now apply Rinv_0_lt_compat|exact Hd]. }
  assert ((1 / 2 - m_of s u t) * (d1 / kM) < (1 / 2 - m_of s u t) * (d2 / kM))
    by (apply Rmult_lt_compat_l; lra).
  lra.
Qed.

(** and increasing in the commit frequency u = commits / tick while d <= kM *)
Lemma formula_p_low_mono_u u1 u2 t d :
  0 < t -> d <= kM -> u1 <= u2 -> formula_p_low 0 u1 t d <= formula_p_low 0 u2 t d.
Proof.
  intros Ht Hd Hu. unfold formula_p_low, m_of. cbv zeta.
  pose proof kM_pos as K. destruct (g_range t Ht) as [G0 G1].
  set (g := (1 - exp (- t / 10000)) ^ 10) in *.
  assert (d / kM <= 1) as X.
  { unfold Rdiv. apply (Rmult_le_reg_r kM); [exact K|]. rewrite Rmult_assoc, Rinv_l by lra. lra. }
  set (x := d / kM) in *.
  replace (0 - (0 - u1) * g + (1 / 2 - (0 - (0 - u1) * g)) * x)
    with (u1 * g * (1 - x) + x / 2) by lra.
  replace (0 - (0 - u2) * g + (1 / 2 - (0 - (0 - u2) * g)) * x)
    with (u2 * g * (1 - x) + x / 2) by lra.
  assert (u1 * g <= u2 * g) by (apply Rmult_le_compat_r; assumption).
  assert (u1 * g * (1 - x) <= u2 * g * (1 - x)) by (apply Rmult_le_compat_r; lra).
  lra.
Qed.

(** * The full statement H_weight_mono stands for (not proved) *)

(** formula_p with both branches *)
Definition formula_p (s u t d : R) : R :=
  let m := m_of s u t in
  if Rlt_dec d 20 then m + (1 / 2 - m) * (d / kM)
  else m + (1 - m) * (Rpower 4 (d / kM) - 1) / 3.

(** the quantity UserDictionary::CreateDictEntry takes the logarithm of, for a
    record (c, d, t) looked up at present tick p (user_dictionary.cc:537-546);
    [eps] is DBL_EPSILON *)
Definition entry_p (eps c d t p : R) : R :=
  let d' := if Rlt_dec t p then formula_d 0 p d t else d in
  Rmax eps (formula_p 0 (c / p) p d').

(** T = (cT, dT, tT) is committed when the in-memory tick is [tick] (lookups
    before the commit use present tick [tick + 1], afterwards [tick + 2]);
    X = (cX, dX, tX) is another record of the same code that is not committed.
    If X weighed no more than T before, it weighs strictly less afterwards. *)
Definition weight_mono_full : Prop :=
  forall eps cT dT tT cX dX tX tick,
    0 < eps -> 0 <= cT -> 0 <= dT -> 0 <= cX -> 0 <= dX ->
    0 <= tT <= tick -> 0 <= tX <= tick ->
    entry_p eps cX dX tX (tick + 1) <= entry_p eps cT dT tT (tick + 1) ->
    entry_p eps cX dX tX (tick + 2) <
    entry_p eps (cT + 1) (formula_d 1 (tick + 1) dT tT) (tick + 1) (tick + 2).
