(** C10 – the order in which user and system phrases of the full code are
    offered (model only).

    ScriptTranslation::PrepareCandidate (script_translator.cc:481-543) emits, for
    one code length, all user phrases before the system phrases (on the first
    candidate it prefers the user phrase when both have an exact match);
    TableTranslation::PreferUserPhrase (table_translator.cc:107-118) emits exact
    user phrases before system entries.  Within the user phrases the order is
    that of DictEntryList::Sort / SortRange: std::sort by weight, descending,
    ties unspecified (vocabulary.cc:68-74).  DistinctTranslation then drops
    texts already seen.  No weight of a user phrase is ever compared with a
    weight of a system phrase.  Weights live in an abstract totally ordered
    type; the floating-point values are not modelled. *)
From Coq Require Import List Bool Arith.
From RimeV Require Import Base.Bytes UdbL.Txn.
Import ListNotations.

(** DistinctTranslation: keep the first occurrence of every text *)
Fixpoint mem (x : bytes) (l : list bytes) : bool :=
  match l with
  | [] => false
  | y :: r => bytes_eqb x y || mem x r
  end.

Fixpoint dedup_acc (seen : list bytes) (l : list bytes) : list bytes :=
  match l with
  | [] => []
  | x :: r => if mem x seen then dedup_acc seen r else x :: dedup_acc (x :: seen) r
  end.

Definition dedup (l : list bytes) : list bytes := dedup_acc [] l.

(** index of the first occurrence *)
Fixpoint index_of (x : bytes) (l : list bytes) : option nat :=
  match l with
  | [] => None
  | y :: r => if bytes_eqb x y then Some 0
              else match index_of x r with Some i => Some (S i) | None => None end
  end.

Section Order.
  Variable W : Type.
  Variable wle : W -> W -> bool.        (* total preorder on weights *)

  (** what std::sort by "weight >" guarantees: no later element is strictly heavier *)
  Fixpoint sorted_desc (l : list (bytes * W)) : Prop :=
    match l with
    | [] => True
    | (x, w) :: r => (forall y v, In (y, v) r -> wle v w = true) /\ sorted_desc r
    end.

  (** the candidate texts offered for the full code: sorted user phrases, then
      the system phrases (and whatever else follows), de-duplicated *)
  Definition emission (user_sorted : list (bytes * W)) (sys : list bytes) : list bytes :=
    dedup (map fst user_sorted ++ sys).
End Order.
