(** C11/C10 – the LevelDb wrapper of librime as a state machine
    (src/rime/dict/level_db.cc, db.h: Transactional).

    Model only (no proofs here).  A user db is a key-sorted association list
    (LevelDB's bytewise comparator); the wrapper adds a write batch and the
    [in_transaction_] flag.  [Update]/[Erase] go to the batch iff a transaction
    is open (level_db.cc:179-191 -> LevelDbWrapper::Update/Erase with
    [write_batch = in_transaction()]); [Fetch] reads the durable store only
    (LevelDbWrapper::Fetch is [ptr->Get]), so it does not see the batch;
    [CommitTransaction] writes the batch with one [DB::Write]. *)
From Coq Require Import List NArith ZArith Bool.
From Coq.Strings Require Import Byte.
From RimeV Require Import Base.Bytes.
Import ListNotations.

Definition key := bytes.

(** bytewise lexicographic order (leveldb::BytewiseComparator) *)
Fixpoint bytes_cmp (a b : bytes) : comparison :=
  match a, b with
  | [], [] => Eq
  | [], _ :: _ => Lt
  | _ :: _, [] => Gt
  | x :: a', y :: b' =>
      match N.compare (N_of_byte x) (N_of_byte y) with
      | Eq => bytes_cmp a' b'
      | c => c
      end
  end.

Definition bytes_eqb (a b : bytes) : bool :=
  match bytes_cmp a b with Eq => true | _ => false end.

(** Stored values.  An entry value is "c=<commits> d=<dee> t=<tick>"
    (user_db.cc:21-25); the decayed weight [d] is a double and is not modelled
    (it is dropped when observations are canonicalised).  ["/tick"] holds a
    decimal number; the other metadata values are opaque strings. *)
Inductive dval :=
| VEnt (c : Z) (t : N)
| VNum (n : N)
| VStr.

Definition dict := list (key * dval).

Fixpoint get (d : dict) (k : key) : option dval :=
  match d with
  | [] => None
  | (k', v) :: r => if bytes_eqb k k' then Some v else get r k
  end.

(** insert or replace, keeping the list sorted *)
Fixpoint put (k : key) (v : dval) (d : dict) : dict :=
  match d with
  | [] => [(k, v)]
  | (k', v') :: r =>
      match bytes_cmp k k' with
      | Lt => (k, v) :: (k', v') :: r
      | Eq => (k, v) :: r
      | Gt => (k', v') :: put k v r
      end
  end.

Fixpoint del (k : key) (d : dict) : dict :=
  match d with
  | [] => []
  | (k', v') :: r => if bytes_eqb k k' then del k r else (k', v') :: del k r
  end.

(** one write of a leveldb::WriteBatch / one direct Put or Delete *)
Inductive wop :=
| WPut (k : key) (v : dval)
| WDel (k : key).

Definition apply_w (d : dict) (w : wop) : dict :=
  match w with
  | WPut k v => put k v d
  | WDel k => del k d
  end.

Definition apply_batch (ws : list wop) (d : dict) : dict := fold_left apply_w ws d.

(** LevelDb + LevelDbWrapper state *)
Record db := mkdb {
  durable : dict;        (* what leveldb::DB holds *)
  batch : list wop;      (* LevelDbWrapper::batch *)
  in_txn : bool;         (* Transactional::in_transaction_ *)
  loaded : bool          (* Db::loaded_ *)
}.

(** the calls of LevelDb that carry a hook (one log line each) *)
Inductive dbop :=
| OOpen
| OClose
| OUpdate (k : key) (v : dval)    (* Update and MetaUpdate (key prefixed with \x01) *)
| OErase (k : key)
| OBegin
| OCommit
| OAbort.

Definition db_write (s : db) (w : wop) : db :=
  if negb (loaded s) then s                          (* level_db.cc:180/187: return false *)
  else if in_txn s
       then mkdb (durable s) (batch s ++ [w]) true true          (* batch.Put / batch.Delete *)
       else mkdb (apply_w (durable s) w) (batch s) false true.   (* ptr->Put / ptr->Delete *)

Definition db_step (s : db) (o : dbop) : db :=
  match o with
  | OOpen =>                                         (* level_db.cc:242-262 *)
      if loaded s then s
      else mkdb (durable s) [] (in_txn s) true       (* Initialize(): fresh wrapper, empty batch *)
  | OClose =>                                        (* level_db.cc:278-289 *)
      if loaded s then mkdb (durable s) (batch s) false false else s
  | OUpdate k v => db_write s (WPut k v)
  | OErase k => db_write s (WDel k)
  | OBegin =>                                        (* level_db.cc:303-309 *)
      if loaded s then mkdb (durable s) [] true true else s
  | OAbort =>                                        (* level_db.cc:311-317 *)
      if loaded s && in_txn s then mkdb (durable s) [] false true else s
  | OCommit =>                                       (* level_db.cc:319-326 *)
      if loaded s && in_txn s
      then mkdb (apply_batch (batch s) (durable s)) [] false true
      else s
  end.

Definition db_run (s : db) (ops : list dbop) : db := fold_left db_step ops s.

Definition db0 (d : dict) : db := mkdb d [] false false.

(** what a fresh process finds after the process was killed *between* two
    operations: the durable store; batch and flags are gone *)
Definition recover (s : db) : dict := durable s.

(** An operation is *effective* when it changes what is durable: a direct
    Put/Delete outside a transaction, or the commit of a batch. *)
Definition effective (s : db) (o : dbop) : bool :=
  loaded s &&
  match o with
  | OUpdate _ _ | OErase _ => negb (in_txn s)
  | OCommit => in_txn s
  | _ => false
  end.

(** the unit of writes an effective operation makes durable atomically *)
Definition unit_of (s : db) (o : dbop) : list wop :=
  match o with
  | OUpdate k v => [WPut k v]
  | OErase k => [WDel k]
  | OCommit => batch s
  | _ => []
  end.

(** the units made durable, in order, by a run of operations *)
Fixpoint units_of (s : db) (ops : list dbop) : list (list wop) :=
  match ops with
  | [] => []
  | o :: r =>
      (if effective s o then [unit_of s o] else []) ++ units_of (db_step s o) r
  end.

Definition closed_count (s : db) (ops : list dbop) : nat := length (units_of s ops).

(** the dictionary a sequence of units produces on its own *)
Definition abs_units (d : dict) (us : list (list wop)) : dict :=
  fold_left (fun d u => apply_batch u d) us d.
