(** C11 – the implementation model of the learning protocol (one LevelDb call at a
    time) refines the atomic semantics: the units its calls make durable are
    exactly the units of the atomic semantics, event by event. *)
From Coq Require Import List NArith ZArith Bool Arith Lia.
From Coq.Strings Require Import Byte.
From RimeV Require Import Base.Bytes Base.ListX UdbL.Txn UdbL.TxnProofs UdbL.Learn.
Import ListNotations.

(** * Live-object table *)

Lemma find_set_same l u x : find_ud (set_ud l u x) u = Some x.
Proof.
  induction l as [|[u' x'] r IH]; cbn [set_ud find_ud].
  - now rewrite Nat.eqb_refl.
  - destruct (Nat.eqb u u') eqn:E; cbn [find_ud]; [now rewrite Nat.eqb_refl|]. now rewrite E.
Qed.

Lemma get_set_same l u x : get_ud (set_ud l u x) u = x.
Proof. unfold get_ud. now rewrite find_set_same. Qed.

Lemma set_set_same l u x y : set_ud (set_ud l u x) u y = set_ud l u y.
Proof.
  induction l as [|[u' x'] r IH]; cbn [set_ud].
  - now rewrite Nat.eqb_refl.
  - destruct (Nat.eqb u u') eqn:E; cbn [set_ud]; [now rewrite Nat.eqb_refl|]. now rewrite E, IH.
Qed.

Lemma set_tick_tick l u a b : set_tick (set_tick l u a) u b = set_tick l u b.
Proof. unfold set_tick. now rewrite get_set_same, set_set_same. Qed.

Lemma tick_set_tick l u a : ud_tick (get_ud (set_tick l u a) u) = a.
Proof. unfold set_tick. now rewrite get_set_same. Qed.

Lemma set_tick_time l u now :
  set_tick (set_time l u now) u (ud_tick (get_ud l u)) = set_time l u now.
Proof. unfold set_tick, set_time. now rewrite get_set_same, set_set_same. Qed.

Lemma tick_set_time l u now : ud_tick (get_ud (set_time l u now) u) = ud_tick (get_ud l u).
Proof. unfold set_time. now rewrite get_set_same. Qed.

Lemma set_tick_set_time l u now a :
  set_tick (set_tick (set_time l u now) u a) u a = set_tick (set_time l u now) u a.
Proof. apply set_tick_tick. Qed.

(** * Normal form of an implementation state reached by issuing calls *)

Definition ops (s : pst) : list dbop := rev (plog s).

Definition nf (s : pst) (L : list dbop) (uds : list (nat * ud)) : pst :=
  mkpst (db_run (pdb s) L) uds (rev L ++ plog s).

Lemma nf_nil s : s = nf s [] (puds s).
Proof. destruct s; reflexivity. Qed.

Lemma nf_issue s o : issue s o = nf s [o] (puds s).
Proof. reflexivity. Qed.

Lemma nf_nf s L1 u1 L2 u2 : nf (nf s L1 u1) L2 u2 = nf s (L1 ++ L2) u2.
Proof.
  unfold nf. cbn [pdb plog]. now rewrite db_run_app, rev_app_distr, app_assoc.
Qed.

Lemma nf_with_uds s L u u' : with_uds (nf s L u) u' = nf s L u'.
Proof. reflexivity. Qed.

Lemma nf_issue_ws ws : forall s,
  fold_left issue_w ws s = nf s (map op_of_wop ws) (puds s).
Proof.
  induction ws as [|w ws IH]; intro s; cbn [fold_left map]; [apply nf_nil|].
  rewrite IH. unfold issue_w. rewrite nf_issue. cbn [puds nf]. now rewrite nf_nf.
Qed.

Lemma ops_nf s L u : ops (nf s L u) = ops s ++ L.
Proof. unfold ops, nf. cbn [plog]. now rewrite rev_app_distr, rev_involutive. Qed.

(** * Calls on the three kinds of db states *)

Definition inv (b : db) : Prop := in_txn b = true -> loaded b = true.

Lemma run_writes_unloaded ws : forall b, loaded b = false ->
  db_run b (map op_of_wop ws) = b /\ units_of b (map op_of_wop ws) = [].
Proof.
  induction ws as [|w ws IH]; intros b H; [split; reflexivity|].
  cbn [map db_run fold_left units_of].
  assert (db_step b (op_of_wop w) = b) as E.
  { destruct w; cbn [op_of_wop db_step]; unfold db_write; now rewrite H. }
  rewrite E. unfold effective. rewrite H. cbn [andb app]. now apply IH.
Qed.

Lemma run_writes_txn ws : forall d bt,
  db_run (mkdb d bt true true) (map op_of_wop ws) = mkdb d (bt ++ ws) true true /\
  units_of (mkdb d bt true true) (map op_of_wop ws) = [].
Proof.
  induction ws as [|w ws IH]; intros d bt; [now rewrite app_nil_r|].
  cbn [map db_run fold_left units_of].
  assert (db_step (mkdb d bt true true) (op_of_wop w) = mkdb d (bt ++ [w]) true true) as E.
  { destruct w; reflexivity. }
  rewrite E. replace (effective _ _) with false by (destruct w; reflexivity).
  cbn [app]. destruct (IH d (bt ++ [w])) as [H1 H2]. fold (db_run (mkdb d (bt ++ [w]) true true) (map op_of_wop ws)).
  rewrite H1, H2, <- app_assoc. split; reflexivity.
Qed.

Lemma run_writes_direct ws : forall d bt,
  db_run (mkdb d bt false true) (map op_of_wop ws) = mkdb (apply_batch ws d) bt false true /\
  units_of (mkdb d bt false true) (map op_of_wop ws) = map (fun w => [w]) ws.
Proof.
  induction ws as [|w ws IH]; intros d bt; [split; reflexivity|].
  cbn [map db_run fold_left units_of].
  assert (db_step (mkdb d bt false true) (op_of_wop w) = mkdb (apply_w d w) bt false true) as E.
  { destruct w; reflexivity. }
  rewrite E. replace (effective _ _) with true by (destruct w; reflexivity).
  replace (unit_of _ (op_of_wop w)) with [w] by (destruct w; reflexivity).
  destruct (IH (apply_w d w) bt) as [H1 H2]. fold (db_run (mkdb (apply_w d w) bt false true) (map op_of_wop ws)).
  rewrite H1, H2. split; reflexivity.
Qed.

(** the view is what the atomic semantics sees *)
Definition projdb (b : db) (uds : list (nat * ud)) : sst :=
  mksst (durable b) (if in_txn b then Some (batch b) else None) (loaded b) uds.

Definition proj (s : pst) : sst := projdb (pdb s) (puds s).

Lemma view_proj b uds : s_view (projdb b uds) = view b.
Proof. reflexivity. Qed.

(** [sim b L uds st us]: issuing the calls [L] from db state [b] makes exactly
    the units [us] durable and leaves the state the atomic semantics calls [st] *)
Definition sim (b : db) (L : list dbop) (uds : list (nat * ud)) (st : sst) (us : list (list wop)) : Prop :=
  units_of b L = us /\ projdb (db_run b L) uds = st /\ inv (db_run b L).

Lemma sim_writes b uds ws : inv b ->
  sim b (map op_of_wop ws) uds (fst (spec_writes (projdb b uds) ws)) (snd (spec_writes (projdb b uds) ws)).
Proof.
  intro I. unfold sim, spec_writes. destruct b as [d bt t l]. cbn [projdb s_loaded s_pend s_dict s_uds durable batch in_txn loaded].
  destruct l.
  - destruct t; cbn [negb fst snd].
    + destruct (run_writes_txn ws d bt) as [H1 H2]. rewrite H1, H2. repeat split.
    + destruct (run_writes_direct ws d bt) as [H1 H2]. rewrite H1, H2. repeat split; try (intro; discriminate).
  - assert (t = false) as -> by (destruct t; [specialize (I eq_refl); discriminate|reflexivity]).
    destruct (run_writes_unloaded ws (mkdb d bt false false) eq_refl) as [H1 H2].
    rewrite H1, H2. cbn [negb fst snd]. repeat split; try (intro; discriminate).
Qed.

(** CommitPendingTransaction / FinishSession *)
Definition flush_ops (b : db) : list dbop := if in_txn b then [OCommit] else [].

Lemma commit_pending_nf s : commit_pending s = nf s (flush_ops (pdb s)) (puds s).
Proof.
  unfold commit_pending, flush_ops. destruct (in_txn (pdb s)); [apply nf_issue|apply nf_nil].
Qed.

Lemma sim_flush b uds : inv b ->
  sim b (flush_ops b) uds (fst (spec_flush (projdb b uds))) (snd (spec_flush (projdb b uds))).
Proof.
  intro I. unfold sim, spec_flush, flush_ops. destruct b as [d bt t l].
  destruct t.
  - assert (l = true) as -> by (apply I; reflexivity). cbn. repeat split.
  - cbn. repeat split. exact I.
Qed.

Lemma inv_flush b : inv b -> in_txn (db_run b (flush_ops b)) = false.
Proof.
  intro I. unfold flush_ops. destruct b as [d bt t l]. destruct t; [|reflexivity].
  assert (l = true) as -> by (apply I; reflexivity). reflexivity.
Qed.

Lemma loaded_flush b : loaded (db_run b (flush_ops b)) = loaded b.
Proof.
  unfold flush_ops. destruct b as [d bt t l]. destruct t; [|reflexivity]. destruct l; reflexivity.
Qed.

Lemma sim_app b L1 L2 uds1 uds st1 us1 st us :
  sim b L1 uds1 st1 us1 ->
  sim (db_run b L1) L2 uds st us ->
  sim b (L1 ++ L2) uds st (us1 ++ us).
Proof.
  intros (U1 & _ & _) (U2 & P2 & I2). unfold sim. rewrite units_of_app, db_run_app, U1, U2.
  repeat split; assumption.
Qed.

(** * UpdateEntry *)

Lemma update_entry_nf s u ec :
  update_entry s u ec =
  nf s (map op_of_wop (fst (upd_writes (view (pdb s)) (ud_tick (get_ud (puds s) u)) (fst ec) (snd ec))))
       (set_tick (puds s) u (snd (upd_writes (view (pdb s)) (ud_tick (get_ud (puds s) u)) (fst ec) (snd ec)))).
Proof.
  unfold update_entry. destruct (upd_writes _ _ _ _) as [ws t'].
  rewrite nf_issue_ws. reflexivity.
Qed.

(** writes leave the view unchanged when they go to the batch or nowhere *)
Lemma view_writes b ws : (in_txn b = true \/ loaded b = false) -> inv b ->
  view (db_run b (map op_of_wop ws)) = view b /\
  (in_txn (db_run b (map op_of_wop ws)) = true \/ loaded (db_run b (map op_of_wop ws)) = false) /\
  inv (db_run b (map op_of_wop ws)).
Proof.
  intros H I. destruct b as [d bt t l]. destruct l.
  - destruct H as [H|H]; [|discriminate]. cbn in H. subst t.
    destruct (run_writes_txn ws d bt) as [H1 _]. rewrite H1. repeat split. now left.
  - destruct (run_writes_unloaded ws (mkdb d bt t false) eq_refl) as [H1 _]. rewrite H1.
    repeat split; [now right|exact I].
Qed.

(** the UpdateEntry calls of one commit, all seeing the same view *)
Lemma calls_nf u calls : forall s,
  (in_txn (pdb s) = true \/ loaded (pdb s) = false) -> inv (pdb s) ->
  (forall t, set_tick (set_tick (puds s) u t) u t = set_tick (puds s) u t) ->
  set_tick (puds s) u (ud_tick (get_ud (puds s) u)) = puds s ->
  fold_left (fun s ec => update_entry s u ec) calls s =
  nf s (map op_of_wop (fst (calls_writes (view (pdb s)) (ud_tick (get_ud (puds s) u)) calls)))
       (set_tick (puds s) u (snd (calls_writes (view (pdb s)) (ud_tick (get_ud (puds s) u)) calls))).
Proof.
  induction calls as [|[e c] r IH]; intros s H I N1 N2; cbn [fold_left calls_writes].
  - cbn [fst snd map]. rewrite N2. apply nf_nil.
  - rewrite update_entry_nf. cbn [fst snd].
    destruct (upd_writes (view (pdb s)) (ud_tick (get_ud (puds s) u)) e c) as [w1 t1] eqn:E1.
    cbn [fst snd].
    destruct (view_writes (pdb s) w1 H I) as (V & H' & I').
    rewrite IH; cbn [pdb puds nf]; try assumption.
    + rewrite V, tick_set_tick.
      destruct (calls_writes (view (pdb s)) t1 r) as [w2 t2]. cbn [fst snd].
      rewrite nf_nf, map_app, set_tick_tick. reflexivity.
    + intro t. now rewrite !set_tick_tick.
    + now rewrite tick_set_tick, set_tick_tick.
Qed.

(** * Events *)

Lemma sim_nil b uds : inv b -> sim b [] uds (projdb b uds) [].
Proof. intro I. repeat split. exact I. Qed.

(** FetchTickCount *)
Definition ft_uds (b : db) (uds : list (nat * ud)) (u : nat) : list (nat * ud) :=
  match fetch_tick_val (view b) with Some n => set_tick uds u n | None => uds end.
Definition ft_ok (b : db) : bool :=
  match fetch_tick_val (view b) with Some _ => true | None => false end.

Lemma fetch_tick_nf s u :
  fetch_tick s u = (nf s [] (ft_uds (pdb s) (puds s) u), ft_ok (pdb s)).
Proof.
  unfold fetch_tick, ft_uds, ft_ok. destruct (fetch_tick_val (view (pdb s))); [reflexivity|].
  now rewrite <- nf_nil.
Qed.

Lemma spec_fetch_tick_proj b uds u :
  spec_fetch_tick (projdb b uds) u = (projdb b (ft_uds b uds u), ft_ok b).
Proof.
  unfold spec_fetch_tick, ft_uds, ft_ok. rewrite view_proj.
  destruct (fetch_tick_val (view b)); reflexivity.
Qed.

(** the new transaction of a commit *)
Lemma new_transaction_nf s u now :
  new_transaction s u now = nf s (flush_ops (pdb s) ++ [OBegin]) (set_time (puds s) u now).
Proof.
  unfold new_transaction. rewrite commit_pending_nf. cbn [puds nf].
  rewrite nf_with_uds, nf_issue. cbn [puds nf]. now rewrite nf_nf.
Qed.

Lemma on_commit_nf s u kind now segs : inv (pdb s) ->
  let b1 := db_run (pdb s) (flush_ops (pdb s) ++ [OBegin]) in
  let cw := commit_writes (view b1) (ud_tick (get_ud (puds s) u)) kind segs in
  on_commit s u kind now segs =
  nf s ((flush_ops (pdb s) ++ [OBegin]) ++ map op_of_wop (fst cw))
       (set_tick (set_time (puds s) u now) u (snd cw)).
Proof.
  intros I b1 cw. unfold on_commit. rewrite new_transaction_nf.
  assert ((in_txn b1 = true \/ loaded b1 = false) /\ inv b1) as [H1 I1].
  { subst b1. destruct (pdb s) as [d bt t l]. unfold flush_ops. cbn [in_txn].
    destruct t.
    - assert (l = true) as -> by (apply I; reflexivity). cbn. split; [now left|intro; reflexivity].
    - destruct l; cbn; (split; [auto|intro; try reflexivity; try discriminate]). }
  rewrite calls_nf; cbn [pdb puds nf]; try assumption.
  - rewrite nf_nf, tick_set_time. reflexivity.
  - intro t. now rewrite !set_tick_tick.
  - now rewrite tick_set_time, set_tick_time.
Qed.

(** UserDictionary::Load *)
Definition spec_open (st0 : sst) : sst * list (list wop) :=
  if s_loaded st0 then (st0, [])
  else let o := mksst (s_dict st0) (s_pend st0) true (s_uds st0) in
       match get (s_dict st0) db_name_key with
       | Some _ => (o, [])
       | None => spec_writes o metadata_writes
       end.

Lemma open_sim s0 : inv (pdb s0) ->
  exists L1,
    (if loaded (pdb s0) then s0 else db_open s0) = nf s0 L1 (puds s0) /\
    sim (pdb s0) L1 (puds s0) (fst (spec_open (proj s0))) (snd (spec_open (proj s0))).
Proof.
  intro I. unfold spec_open, proj. cbn [projdb s_loaded s_dict s_pend s_uds].
  destruct (loaded (pdb s0)) eqn:El.
  - exists []. split; [apply nf_nil|]. cbn [fst snd].
    replace (mksst _ _ true _) with (projdb (pdb s0) (puds s0)) by (unfold projdb; now rewrite El).
    now apply sim_nil.
  - unfold db_open. rewrite nf_issue. cbn [pdb nf puds].
    destruct (pdb s0) as [d bt t l] eqn:Eb. cbn in El. subst l.
    assert (t = false) as -> by (destruct t; [specialize (I eq_refl); discriminate|reflexivity]).
    cbn [db_run fold_left db_step loaded view durable in_txn batch].
    destruct (get d db_name_key) eqn:Eg.
    + exists [OOpen]. split; [reflexivity|].
      cbn [fst snd]. repeat split; try (intro; discriminate).
    + exists (OOpen :: map op_of_wop metadata_writes). split.
      * rewrite nf_issue_ws. cbn [puds nf]. rewrite nf_nf. reflexivity.
      * unfold sim.
        change (OOpen :: map op_of_wop metadata_writes) with ([OOpen] ++ map op_of_wop metadata_writes).
        rewrite units_of_app, db_run_app.
        cbn [units_of effective loaded andb app db_run fold_left db_step in_txn durable].
        destruct (run_writes_direct metadata_writes d []) as [H1 H2].
        fold (db_run (mkdb d [] false true) (map op_of_wop metadata_writes)).
        rewrite H1, H2. unfold spec_writes. cbn [s_loaded negb s_pend s_dict s_uds fst snd].
        repeat split; try (intro; discriminate).
Qed.

Lemma load_sim s u : inv (pdb s) ->
  exists L uds,
    load s u = nf s L uds /\
    sim (pdb s) L uds (fst (spec_step (proj s) (ELoad u))) (snd (spec_step (proj s) (ELoad u))).
Proof.
  intro I. unfold load.
  set (uds0 := set_ud (puds s) u (mkud 0 0)).
  change (spec_step (proj s) (ELoad u)) with
    (let '(st1, us1) := spec_open (proj (with_uds s uds0)) in
     let '(st2, ok) := spec_fetch_tick st1 u in
     if ok then (st2, us1)
     else let '(st3, us3) := spec_writes st2 [WPut tick_key (VNum 0)] in (st3, us1 ++ us3)).
  destruct (open_sim (with_uds s uds0) I) as (L1 & E1 & S1).
  rewrite E1. cbn [puds with_uds] in *.
  destruct (spec_open (proj (with_uds s uds0))) as [st1 us1]. cbn [fst snd pdb with_uds] in S1.
  destruct S1 as (U1 & P1 & I1).
  rewrite fetch_tick_nf. cbn [pdb puds nf with_uds]. rewrite <- P1, spec_fetch_tick_proj.
  destruct (ft_ok (db_run (pdb s) L1)) eqn:Eok.
  - exists L1, (ft_uds (db_run (pdb s) L1) uds0 u). split.
    + rewrite nf_nf, app_nil_r. reflexivity.
    + cbn [fst snd]. repeat split; assumption.
  - unfold issue_w. rewrite nf_issue. cbn [puds nf]. rewrite !nf_nf, app_nil_l.
    exists (L1 ++ [op_of_wop (WPut tick_key (VNum 0))]), (ft_uds (db_run (pdb s) L1) uds0 u).
    split; [reflexivity|].
    pose proof (sim_writes (db_run (pdb s) L1) (ft_uds (db_run (pdb s) L1) uds0 u) [WPut tick_key (VNum 0)] I1) as S2.
    destruct (spec_writes (projdb (db_run (pdb s) L1) (ft_uds (db_run (pdb s) L1) uds0 u)) [WPut tick_key (VNum 0)]) as [st3 us3].
    cbn [fst snd] in *.
    apply (sim_app (pdb s) L1 _ uds0 _ (projdb (db_run (pdb s) L1) uds0) us1 st3 us3);
      [repeat split; assumption|exact S2].
Qed.

Lemma step_sim s e : inv (pdb s) ->
  exists L uds,
    ev_step s e = nf s L uds /\
    sim (pdb s) L uds (fst (spec_step (proj s) e)) (snd (spec_step (proj s) e)).
Proof.
  intro I.
  destruct e as [u|u|u kind now segs|u e|u plain bs now|u|u];
    [exact (load_sim s u I)|..]; unfold proj; cbn [ev_step spec_step].
  - (* EFetchTick *)
    rewrite fetch_tick_nf, spec_fetch_tick_proj. cbn [fst snd].
    exists [], (ft_uds (pdb s) (puds s) u). split; [reflexivity|]. now apply sim_nil.
  - (* ECommit *)
    rewrite (on_commit_nf s u kind now segs I). cbv zeta.
    eexists _, _. split; [reflexivity|].
    destruct (pdb s) as [d bt t l]. unfold flush_ops, spec_flush.
    cbn [in_txn projdb s_pend s_dict s_loaded s_uds durable batch loaded].
    destruct t.
    + assert (l = true) as -> by (apply I; reflexivity).
      cbn [app db_run fold_left db_step loaded in_txn andb durable batch view s_view s_loaded s_dict s_uds s_pend projdb].
      destruct (commit_writes (apply_batch bt d) (ud_tick (get_ud (puds s) u)) kind segs) as [ws t'].
      cbn [fst snd]. unfold sim.
      change (OCommit :: OBegin :: map op_of_wop ws) with ([OCommit; OBegin] ++ map op_of_wop ws).
      rewrite units_of_app, db_run_app.
      cbn [units_of effective loaded in_txn andb unit_of batch app db_step db_run fold_left durable].
      destruct (run_writes_txn ws (apply_batch bt d) []) as [H1 H2].
      fold (db_run (mkdb (apply_batch bt d) [] true true) (map op_of_wop ws)).
      rewrite H1, H2. repeat split.
    + destruct l.
      * cbn [app db_run fold_left db_step loaded in_txn andb durable batch view s_view s_loaded s_dict s_uds s_pend projdb].
        destruct (commit_writes d (ud_tick (get_ud (puds s) u)) kind segs) as [ws t'].
        cbn [fst snd]. unfold sim.
        change (OBegin :: map op_of_wop ws) with ([OBegin] ++ map op_of_wop ws).
        rewrite units_of_app, db_run_app.
        cbn [units_of effective loaded in_txn andb unit_of batch app db_step db_run fold_left durable].
        destruct (run_writes_txn ws d []) as [H1 H2].
        fold (db_run (mkdb d [] true true) (map op_of_wop ws)).
        rewrite H1, H2. repeat split.
      * cbn [app db_run fold_left db_step loaded in_txn andb durable batch view s_view s_loaded s_dict s_uds s_pend projdb].
        destruct (commit_writes [] (ud_tick (get_ud (puds s) u)) kind segs) as [ws t'].
        cbn [fst snd]. unfold sim.
        change (OBegin :: map op_of_wop ws) with ([OBegin] ++ map op_of_wop ws).
        rewrite units_of_app, db_run_app.
        cbn [units_of effective loaded in_txn andb unit_of batch app db_step db_run fold_left durable].
        destruct (run_writes_unloaded ws (mkdb d bt false false) eq_refl) as [H1 H2].
        fold (db_run (mkdb d bt false false) (map op_of_wop ws)).
        rewrite H1, H2. repeat split; try (intro; discriminate).
  - (* EDelete *)
    rewrite update_entry_nf. cbn [fst snd]. rewrite view_proj.
    cbn [projdb s_uds].
    destruct (upd_writes (view (pdb s)) (ud_tick (get_ud (puds s) u)) e (-1)) as [ws t'].
    cbn [fst snd]. eexists _, _. split; [reflexivity|].
    apply (sim_writes (pdb s) (set_tick (puds s) u t') ws I).
  - (* EKey *)
    unfold on_key. destruct plain.
    + destruct bs.
      * unfold revert_recent. destruct (pdb s) as [d bt t l] eqn:Eb.
        cbn [in_txn projdb s_pend s_uds andb].
        destruct t; cbn [negb].
        -- assert (l = true) as -> by (apply I; reflexivity).
           destruct (3 <? now - ud_time (get_ud (puds s) u))%Z; cbn [negb andb].
           ++ rewrite commit_pending_nf, Eb. eexists _, _. split; [reflexivity|].
              apply (sim_flush (mkdb d bt true true) (puds s)). exact I.
           ++ cbn [loaded in_txn andb]. rewrite nf_issue. eexists _, _. split; [reflexivity|].
              repeat split.
        -- rewrite commit_pending_nf, Eb. eexists _, _. split; [reflexivity|].
           apply (sim_flush (mkdb d bt false l) (puds s)). exact I.
      * rewrite commit_pending_nf. eexists _, _. split; [reflexivity|]. now apply sim_flush.
    + exists [], (puds s). split; [apply nf_nil|]. now apply sim_nil.
  - (* EFinish *)
    rewrite commit_pending_nf. eexists _, _. split; [reflexivity|]. now apply sim_flush.
  - (* EDestroy *)
    unfold destroy.
    assert ((if loaded (pdb s) then commit_pending s else s) = commit_pending s) as ->.
    { destruct (loaded (pdb s)) eqn:El; [reflexivity|]. unfold commit_pending.
      destruct (in_txn (pdb s)) eqn:Et; [|reflexivity]. rewrite (I Et) in El. discriminate. }
    rewrite commit_pending_nf. cbn [puds nf]. rewrite nf_with_uds. cbn [puds nf pdb].
    destruct (pdb s) as [d bt t l]. unfold flush_ops, spec_flush.
    cbn [in_txn projdb s_pend s_dict s_loaded s_uds durable batch loaded].
    destruct t.
    + assert (l = true) as -> by (apply I; reflexivity).
      cbn [db_run fold_left db_step loaded in_txn andb s_uds s_dict s_pend s_loaded fst snd projdb durable batch].
      destruct (remove_ud (puds s) u) as [|x r] eqn:Er.
      * rewrite nf_issue. cbn [puds nf]. rewrite nf_nf.
        eexists _, _. split; [reflexivity|]. repeat split; try (intro; discriminate).
      * eexists _, _. split; [reflexivity|]. repeat split.
    + cbn [db_run fold_left db_step loaded in_txn andb s_uds s_dict s_pend s_loaded fst snd projdb durable batch].
      destruct (remove_ud (puds s) u) as [|x r] eqn:Er.
      * destruct l.
        -- rewrite nf_issue. cbn [puds nf]. rewrite nf_nf.
           eexists _, _. split; [reflexivity|]. repeat split; try (intro; discriminate).
        -- eexists _, _. split; [reflexivity|]. repeat split; try (intro; discriminate).
      * eexists _, _. split; [reflexivity|]. repeat split. exact I.
Qed.

(** * Histories *)

Lemma run_sim h : forall s, inv (pdb s) ->
  exists L uds,
    fold_left ev_step h s = nf s L uds /\
    sim (pdb s) L uds (fst (spec_run (proj s) h)) (snd (spec_run (proj s) h)).
Proof.
  induction h as [|e r IH]; intros s I; cbn [fold_left spec_run].
  - exists [], (puds s). split; [apply nf_nil|]. now apply sim_nil.
  - destruct (step_sim s e I) as (L1 & uds1 & E1 & S1).
    destruct (spec_step (proj s) e) as [st1 us1]. cbn [fst snd] in S1.
    pose proof S1 as (U1 & P1 & I1).
    rewrite E1.
    destruct (IH (nf s L1 uds1) I1) as (L2 & uds2 & E2 & S2).
    unfold proj in S2. cbn [pdb puds nf] in S2. rewrite P1 in S2.
    destruct (spec_run st1 r) as [st2 us2]. cbn [fst snd] in *.
    exists (L1 ++ L2), uds2. split.
    + rewrite E2. apply nf_nf.
    + eapply sim_app; eassumption.
Qed.

(** the units the implementation model's calls make durable are the units of
    the atomic semantics, for every history *)
Theorem impl_units_are_spec_units d h :
  units_of (db0 d) (ops_of d h) = spec_units d h.
Proof.
  unfold ops_of, run_events, spec_units.
  destruct (run_sim h (pst0 d)) as (L & uds & E & U & _ & _).
  { intro H; discriminate. }
  rewrite E. unfold nf. cbn [plog pst0]. rewrite app_nil_r, rev_involutive. exact U.
Qed.

Theorem impl_state_is_spec_state d h :
  proj (run_events d h) = fst (spec_run (sst0 d) h) /\ inv (pdb (run_events d h)).
Proof.
  unfold run_events.
  destruct (run_sim h (pst0 d)) as (L & uds & E & _ & P & I).
  { intro H; discriminate. }
  rewrite E. unfold proj. cbn [pdb puds nf]. split; assumption.
Qed.

(** * Crash theorems for histories *)

Section HistoryCrash.
  Variable kill_inside : db -> dbop -> dict.
  Hypothesis kill_inside_atomic :
    forall s o, kill_inside s o = durable s \/ kill_inside s o = durable (db_step s o).

  (** whatever the history and wherever the kill: the store found afterwards is
      the initial store with a prefix of the history's units applied *)
  Lemma txn_atomic d h c :
    exists j,
      closed_before (db0 d) (ops_of d h) c <= j <= opened_before (db0 d) (ops_of d h) c /\
      recovered kill_inside (db0 d) (ops_of d h) c = abs_units d (firstn j (spec_units d h)).
  Proof.
    destruct (crash_any kill_inside kill_inside_atomic (db0 d) (ops_of d h) c) as (j & Hj & E).
    exists j. split; [exact Hj|]. now rewrite <- impl_units_are_spec_units.
  Qed.
End HistoryCrash.

(** the prefix only grows with the crash position: what was durable stays *)
Lemma durable_monotone d h p q : p <= q ->
  exists us,
    recover (db_run (db0 d) (firstn q (ops_of d h))) =
    abs_units (recover (db_run (db0 d) (firstn p (ops_of d h)))) us /\
    firstn (closed_count (db0 d) (firstn q (ops_of d h))) (spec_units d h) =
    firstn (closed_count (db0 d) (firstn p (ops_of d h))) (spec_units d h) ++ us.
Proof.
  intro H. rewrite !crash_between, impl_units_are_spec_units.
  pose proof (closed_count_mono (db0 d) (ops_of d h) p q H) as M.
  set (a := closed_count (db0 d) (firstn p (ops_of d h))) in *.
  set (b := closed_count (db0 d) (firstn q (ops_of d h))) in *.
  exists (firstn (b - a) (skipn a (spec_units d h))).
  assert (firstn b (spec_units d h) =
          firstn a (spec_units d h) ++ firstn (b - a) (skipn a (spec_units d h))) as E.
  { rewrite <- (firstn_skipn a (spec_units d h)) at 1.
    rewrite firstn_app, firstn_length.
    destruct (Nat.le_gt_cases a (length (spec_units d h))) as [Hl|Hl].
    - rewrite Nat.min_l by exact Hl. rewrite firstn_firstn, Nat.min_r by lia. reflexivity.
    - rewrite Nat.min_r by lia. rewrite !skipn_all2 by lia. rewrite !firstn_nil, !app_nil_r.
      rewrite firstn_firstn. f_equal. lia. }
  split; [|exact E]. cbn [durable db0]. now rewrite E, abs_units_app.
Qed.

(** the durable dictionary of the atomic semantics is the initial one with the
    closed units applied *)
Lemma spec_run_app h1 : forall st h2,
  spec_run st (h1 ++ h2) =
  (fst (spec_run (fst (spec_run st h1)) h2), snd (spec_run st h1) ++ snd (spec_run (fst (spec_run st h1)) h2)).
Proof.
  induction h1 as [|e r IH]; intros st h2; cbn [app spec_run].
  - cbn [fst snd app]. now destruct (spec_run st h2).
  - destruct (spec_step st e) as [st1 us1]. rewrite IH.
    destruct (spec_run st1 r) as [st2 us2]. cbn [fst snd].
    destruct (spec_run st2 h2) as [st3 us3]. cbn [fst snd]. now rewrite app_assoc.
Qed.

Lemma spec_dict_is_abs d h :
  s_dict (fst (spec_run (sst0 d) h)) = abs_units d (spec_units d h).
Proof.
  destruct (impl_state_is_spec_state d h) as [P _].
  rewrite <- P. unfold proj, projdb. cbn [s_dict].
  unfold run_events. fold (run_events d h).
  rewrite <- impl_units_are_spec_units.
  pose proof (durable_run (ops_of d h) (db0 d)) as D. cbn [durable db0] in D. rewrite <- D.
  f_equal. unfold ops_of, run_events.
  destruct (run_sim h (pst0 d)) as (L & uds & E & _).
  { intro X; discriminate. }
  rewrite E. unfold nf. cbn [pdb plog pst0]. now rewrite app_nil_r, rev_involutive.
Qed.

(** a commit makes the previous commit durable first and is itself pending as a
    whole: at any moment the writes that are not yet durable belong to the one
    latest commit (plus deletions issued after it) *)
Lemma commit_flushes_previous d h u kind now segs :
  let st := fst (spec_run (sst0 d) h) in
  let st' := fst (spec_step st (ECommit u kind now segs)) in
  s_loaded st = true ->
  spec_units d (h ++ [ECommit u kind now segs]) =
    spec_units d h ++ (match s_pend st with Some w => [w] | None => [] end) /\
  s_dict st' = abs_units d (spec_units d (h ++ [ECommit u kind now segs])) /\
  s_pend st' = Some (fst (commit_writes (s_dict st') (ud_tick (get_ud (s_uds st) u)) kind segs)).
Proof.
  intros st st' Hl.
  assert (spec_units d (h ++ [ECommit u kind now segs]) =
          spec_units d h ++ match s_pend st with Some w => [w] | None => [] end) as E1.
  { unfold spec_units. rewrite spec_run_app. cbn [snd spec_run]. fold st.
    cbn [spec_step]. unfold spec_flush. destruct (s_pend st) eqn:Ep.
    - cbn [s_dict s_loaded s_uds s_view]. destruct (commit_writes _ _ kind segs). cbn [snd app]. reflexivity.
    - destruct (commit_writes _ _ kind segs). cbn [snd app]. reflexivity. }
  split; [exact E1|]. split.
  - replace st' with (fst (spec_run (sst0 d) (h ++ [ECommit u kind now segs]))).
    + apply spec_dict_is_abs.
    + rewrite spec_run_app. cbn [fst spec_run]. fold st. subst st'.
      destruct (spec_step st (ECommit u kind now segs)). reflexivity.
  - subst st'. cbn [spec_step]. unfold spec_flush, s_view.
    destruct (s_pend st) eqn:Ep; cbn [s_dict s_loaded s_uds]; rewrite Hl;
      match goal with |- context [commit_writes ?a ?b kind segs] =>
        destruct (commit_writes a b kind segs) eqn:Ec end;
      cbn [fst s_pend s_dict]; now rewrite Ec.
Qed.

(** implementation level: every write call of a commit goes to the batch – after
    the event the store holds none of them and the batch holds all of them *)
Lemma commit_all_in_batch s u kind now segs :
  inv (pdb s) -> loaded (pdb s) = true ->
  let s' := ev_step s (ECommit u kind now segs) in
  in_txn (pdb s') = true /\
  durable (pdb s') = (if in_txn (pdb s) then apply_batch (batch (pdb s)) (durable (pdb s)) else durable (pdb s)) /\
  batch (pdb s') = fst (commit_writes (durable (pdb s')) (ud_tick (get_ud (puds s) u)) kind segs).
Proof.
  intros I Hl s'.
  destruct (step_sim s (ECommit u kind now segs) I) as (L & uds & E & _ & P & _).
  subst s'. rewrite E. cbn [pdb nf].
  unfold proj in P. cbn [spec_step] in P. unfold spec_flush in P.
  destruct (pdb s) as [d bt t l]. cbn in Hl. subst l.
  cbn [projdb s_pend s_dict s_loaded s_uds durable batch in_txn loaded] in *.
  destruct t; cbn [projdb s_pend s_view s_loaded s_dict s_uds durable batch in_txn loaded] in P.
  - destruct (commit_writes (apply_batch bt d) (ud_tick (get_ud (puds s) u)) kind segs) as [ws t'] eqn:Ec.
    cbn [fst snd] in P. unfold projdb in P. injection P as P1 P2 P3 P4.
    destruct (in_txn (db_run _ L)); [|discriminate]. injection P2 as P2.
    repeat split; try assumption. now rewrite P1, Ec.
  - destruct (commit_writes d (ud_tick (get_ud (puds s) u)) kind segs) as [ws t'] eqn:Ec.
    cbn [fst snd] in P. unfold projdb in P. injection P as P1 P2 P3 P4.
    destruct (in_txn (db_run _ L)); [|discriminate]. injection P2 as P2.
    repeat split; try assumption. now rewrite P1, Ec.
Qed.
