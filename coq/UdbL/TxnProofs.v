(** C11 – facts about the LevelDb wrapper model that hold for *every* sequence of
    calls: what is durable after any prefix of the calls is the result of
    applying a prefix of the *units* (whole batches and single direct writes),
    never part of a unit. *)
From Coq Require Import List NArith ZArith Bool Arith Lia.
From Coq.Strings Require Import Byte.
From RimeV Require Import Base.Bytes Base.ListX UdbL.Txn.
Import ListNotations.

(** * Keys *)

Lemma N_of_byte_inj a b : N_of_byte a = N_of_byte b -> a = b.
Proof.
  intro H. rewrite <- (byte_of_N_of_byte a), <- (byte_of_N_of_byte b). now rewrite H.
Qed.

Lemma bytes_cmp_eq a : forall b, bytes_cmp a b = Eq <-> a = b.
Proof.
  induction a as [|x a IH]; intros [|y b]; cbn [bytes_cmp]; split; intro H;
    try reflexivity; try discriminate.
  - destruct (N.compare (N_of_byte x) (N_of_byte y)) eqn:E; try discriminate.
    apply N.compare_eq in E. apply N_of_byte_inj in E. subst y.
    f_equal. now apply IH.
  - injection H as -> ->. rewrite N.compare_refl. now apply IH.
Qed.

Lemma bytes_eqb_eq a b : bytes_eqb a b = true <-> a = b.
Proof.
  unfold bytes_eqb. rewrite <- bytes_cmp_eq. destruct (bytes_cmp a b); split; intro H;
    try reflexivity; discriminate.
Qed.

Lemma bytes_eqb_refl a : bytes_eqb a a = true.
Proof. now apply bytes_eqb_eq. Qed.

Lemma bytes_eqb_neq a b : a <> b -> bytes_eqb a b = false.
Proof.
  intro H. destruct (bytes_eqb a b) eqn:E; [|reflexivity]. apply bytes_eqb_eq in E. contradiction.
Qed.

Lemma bytes_eqb_sym a b : bytes_eqb a b = bytes_eqb b a.
Proof.
  destruct (bytes_eqb a b) eqn:E.
  - apply bytes_eqb_eq in E. subst. symmetry. apply bytes_eqb_refl.
  - destruct (bytes_eqb b a) eqn:E2; [|reflexivity]. apply bytes_eqb_eq in E2. subst.
    now rewrite bytes_eqb_refl in E.
Qed.

(** * The store *)

Lemma get_put_same k v d : get (put k v d) k = Some v.
Proof.
  induction d as [|[k' v'] r IH]; cbn [put get].
  - now rewrite bytes_eqb_refl.
  - destruct (bytes_cmp k k') eqn:E; cbn [get].
    + now rewrite bytes_eqb_refl.
    + now rewrite bytes_eqb_refl.
    + assert (bytes_eqb k k' = false) as ->; [|exact IH].
      unfold bytes_eqb. now rewrite E.
Qed.

Lemma get_put_other k v d k2 : k2 <> k -> get (put k v d) k2 = get d k2.
Proof.
  intro Hne. induction d as [|[k' v'] r IH]; cbn [put get].
  - now rewrite (bytes_eqb_neq _ _ Hne).
  - destruct (bytes_cmp k k') eqn:E; cbn [get].
    + apply bytes_cmp_eq in E. subst k'. now rewrite (bytes_eqb_neq _ _ Hne).
    + now rewrite (bytes_eqb_neq _ _ Hne).
    + now rewrite IH.
Qed.

Lemma get_del_same k d : get (del k d) k = None.
Proof.
  induction d as [|[k' v'] r IH]; cbn [del get]; [reflexivity|].
  destruct (bytes_eqb k k') eqn:E; [exact IH|]. cbn [get]. now rewrite E.
Qed.

Lemma get_del_other k d k2 : k2 <> k -> get (del k d) k2 = get d k2.
Proof.
  intro Hne. induction d as [|[k' v'] r IH]; cbn [del get]; [reflexivity|].
  destruct (bytes_eqb k k') eqn:E; cbn [get].
  - apply bytes_eqb_eq in E. subst k'. now rewrite (bytes_eqb_neq _ _ Hne).
  - now rewrite IH.
Qed.

Lemma apply_batch_app a b d : apply_batch (a ++ b) d = apply_batch b (apply_batch a d).
Proof. unfold apply_batch. apply fold_left_app. Qed.

(** * Runs of calls *)

Lemma db_run_app s a b : db_run s (a ++ b) = db_run (db_run s a) b.
Proof. unfold db_run. apply fold_left_app. Qed.

Lemma units_of_app a : forall s b,
  units_of s (a ++ b) = units_of s a ++ units_of (db_run s a) b.
Proof.
  induction a as [|o a IH]; intros s b; [reflexivity|].
  cbn [app units_of db_run fold_left]. rewrite IH. now rewrite app_assoc.
Qed.

Lemma abs_units_app d a b : abs_units d (a ++ b) = abs_units (abs_units d a) b.
Proof. unfold abs_units. apply fold_left_app. Qed.

(** one call: the durable store changes only by a whole unit *)
Lemma durable_step s o :
  durable (db_step s o) =
  if effective s o then apply_batch (unit_of s o) (durable s) else durable s.
Proof.
  unfold effective. destruct s as [d b t l]. destruct o; cbn [db_step db_write unit_of loaded in_txn durable batch];
    destruct l, t; reflexivity.
Qed.

(** after any run, the durable store is the initial store with the run's units applied *)
Lemma durable_run ops : forall s,
  durable (db_run s ops) = abs_units (durable s) (units_of s ops).
Proof.
  induction ops as [|o r IH]; intro s; [reflexivity|].
  cbn [db_run fold_left units_of]. fold (db_run (db_step s o) r). rewrite IH, durable_step.
  destruct (effective s o); reflexivity.
Qed.

Lemma units_of_firstn s ops p :
  units_of s (firstn p ops) = firstn (closed_count s (firstn p ops)) (units_of s ops).
Proof.
  unfold closed_count.
  rewrite <- (firstn_skipn p ops) at 3. rewrite units_of_app.
  rewrite firstn_app, Nat.sub_diag, firstn_O, app_nil_r. now rewrite firstn_all.
Qed.

(** the process is killed between two calls, after [p] of them *)
Lemma crash_between s ops p :
  recover (db_run s (firstn p ops)) =
  abs_units (durable s) (firstn (closed_count s (firstn p ops)) (units_of s ops)).
Proof. unfold recover. now rewrite durable_run, units_of_firstn. Qed.

Lemma closed_count_le s ops p : closed_count s (firstn p ops) <= closed_count s ops.
Proof.
  unfold closed_count. rewrite <- (firstn_skipn p ops) at 2.
  rewrite units_of_app, app_length. lia.
Qed.

Lemma closed_count_mono s ops p q :
  p <= q -> closed_count s (firstn p ops) <= closed_count s (firstn q ops).
Proof.
  intro H. replace (firstn p ops) with (firstn p (firstn q ops)).
  - apply closed_count_le.
  - rewrite firstn_firstn. now rewrite Nat.min_l.
Qed.

Lemma firstn_S_snoc {A} (l : list A) p o :
  nth_error l p = Some o -> firstn (S p) l = firstn p l ++ [o].
Proof.
  revert p. induction l as [|a l IH]; intros [|p] H; cbn in H; try discriminate.
  - now injection H as ->.
  - cbn [firstn app]. f_equal. now apply IH.
Qed.

Lemma closed_count_S s ops p o :
  nth_error ops p = Some o ->
  closed_count s (firstn (S p) ops) =
  closed_count s (firstn p ops) + (if effective (db_run s (firstn p ops)) o then 1 else 0).
Proof.
  intro H. unfold closed_count. rewrite (firstn_S_snoc _ _ _ H), units_of_app, app_length.
  cbn [units_of]. destruct (effective _ o); cbn [length app]; lia.
Qed.

(** * LevelDB's own contract, as a hypothesis (validated by the kill-point
      harness on the installed LevelDB, never an axiom of the development) *)
Section LevelDBContract.
  (** the store a fresh process finds when the process was killed *inside* the
      LevelDB call that implements [o] in state [s] (Put, Delete, Write(batch)
      of leveldb::DB; the other calls do not touch the store) *)
  Variable kill_inside : db -> dbop -> dict.
  (** Put/Delete/Write(batch) are atomic: a kill inside one leaves the store as
      before or as after the call, and the directory opens (or is repaired) *)
  Hypothesis kill_inside_atomic :
    forall s o, kill_inside s o = durable s \/ kill_inside s o = durable (db_step s o).

  Inductive crash_point :=
  | Between (p : nat)      (* after p calls, before the next *)
  | Inside (p : nat).      (* inside call number p (counting from 0) *)

  Definition recovered (s : db) (ops : list dbop) (c : crash_point) : dict :=
    match c with
    | Between p => recover (db_run s (firstn p ops))
    | Inside p =>
        match nth_error ops p with
        | Some o => kill_inside (db_run s (firstn p ops)) o
        | None => recover (db_run s ops)
        end
    end.

  (** units certainly durable / possibly durable at the crash point *)
  Definition closed_before (s : db) (ops : list dbop) (c : crash_point) : nat :=
    match c with
    | Between p | Inside p => closed_count s (firstn p ops)
    end.
  Definition opened_before (s : db) (ops : list dbop) (c : crash_point) : nat :=
    match c with
    | Between p => closed_count s (firstn p ops)
    | Inside p => closed_count s (firstn (S p) ops)
    end.

  Lemma crash_any s ops c :
    exists j, closed_before s ops c <= j <= opened_before s ops c /\
              recovered s ops c = abs_units (durable s) (firstn j (units_of s ops)).
  Proof.
    destruct c as [p|p]; cbn [recovered closed_before opened_before].
    - exists (closed_count s (firstn p ops)). split; [lia|]. apply crash_between.
    - destruct (nth_error ops p) as [o|] eqn:E.
      + destruct (kill_inside_atomic (db_run s (firstn p ops)) o) as [H|H]; rewrite H.
        * exists (closed_count s (firstn p ops)). split.
          -- split; [lia|]. apply closed_count_mono. lia.
          -- apply crash_between.
        * exists (closed_count s (firstn (S p) ops)). split.
          -- split; [|lia]. apply closed_count_mono. lia.
          -- rewrite <- crash_between. unfold recover.
             rewrite (firstn_S_snoc _ _ _ E), db_run_app. reflexivity.
      + apply nth_error_None in E.
        exists (closed_count s (firstn p ops)). split.
        * split; [lia|]. apply closed_count_mono. lia.
        * rewrite <- crash_between. now rewrite firstn_all2.
  Qed.

  Lemma opened_closed_gap s ops c : opened_before s ops c <= closed_before s ops c + 1.
  Proof.
    destruct c as [p|p]; cbn [closed_before opened_before]; [lia|].
    destruct (nth_error ops p) as [o|] eqn:E.
    - rewrite (closed_count_S _ _ _ _ E). destruct (effective _ o); lia.
    - apply nth_error_None in E. rewrite !firstn_all2; lia.
  Qed.
End LevelDBContract.
