(** C11/C10 – the learning protocol above the user db:
    UserDictionary::{Load, UpdateEntry, UpdateTickCount, FetchTickCount,
    NewTransaction, RevertRecentTransaction, CommitPendingTransaction,
    ~UserDictionary} (src/rime/dict/user_dictionary.cc), Memory::{OnCommit,
    OnDeleteEntry, OnUnhandledKey, StartSession, FinishSession, DiscardSession}
    (src/rime/gear/memory.cc) and the Memorize functions of the script and table
    translators.  Model only (no proofs here).

    Two descriptions of the same events:
    - the *implementation model* [ev_step] issues LevelDb calls one at a time
      through [db_step] and records them ([ops_of]) – this is what the hook log
      of the real code is compared with, and what a crash interrupts;
    - the *atomic semantics* [spec_step] treats an event as one step on
      (dictionary, pending commit) and names the units of writes that become
      durable together. *)
From Coq Require Import List NArith ZArith Bool.
From Coq.Strings Require Import Byte.
From RimeV Require Import Base.Bytes UdbL.Txn.
Import ListNotations.
Local Open Scope Z_scope.

(** * Entries and keys *)

(** a DictEntry as far as UpdateEntry reads it: text, custom_code and the code
    as the list of syllable spellings Table::GetSyllableById yields *)
Record dentry := mkde {
  de_text : bytes;
  de_custom : bytes;
  de_code : list bytes
}.

Definition tab : byte := x09.
Definition space : byte := x20.
Definition meta_char : byte := x01.

Definition str (l : list N) : bytes := map byte_of_N l.
(* "/tick", "/db_name", "/rime_version", "/db_type", "/user_id" behind kMetaCharacter *)
Definition tick_key : key := meta_char :: str [47; 116; 105; 99; 107]%N.
Definition db_name_key : key := meta_char :: str [47; 100; 98; 95; 110; 97; 109; 101]%N.
Definition rime_version_key : key :=
  meta_char :: str [47; 114; 105; 109; 101; 95; 118; 101; 114; 115; 105; 111; 110]%N.
Definition db_type_key : key := meta_char :: str [47; 100; 98; 95; 116; 121; 112; 101]%N.
Definition user_id_key : key := meta_char :: str [47; 117; 115; 101; 114; 95; 105; 100]%N.

(** UserDictionary::TranslateCodeToString (user_dictionary.cc:503-521): every
    syllable followed by a blank; fails on an empty spelling *)
Fixpoint translate_code (code : list bytes) : option bytes :=
  match code with
  | [] => Some []
  | s :: r =>
      match s with
      | [] => None
      | _ => match translate_code r with
             | Some t => Some (s ++ space :: t)
             | None => None
             end
      end
  end.

(** user_dictionary.cc:419-422 *)
Definition entry_key (e : dentry) : option key :=
  match (match de_custom e with [] => translate_code (de_code e) | c => Some c end) with
  | Some code_str => Some (code_str ++ tab :: de_text e)
  | None => None
  end.

(** UserDbValue::Unpack of what Fetch found, commits field only (the stored tick
    only influences [dee]); a value without "c=" leaves the default 0 *)
Definition old_commits (o : option dval) : Z :=
  match o with
  | Some (VEnt c _) => c
  | _ => 0
  end.

(** UserDictionary::UpdateEntry (user_dictionary.cc:416-448) as the writes it
    issues, given what Fetch sees ([d]) and the in-memory tick; returns the new
    in-memory tick.  commits > 0: revive, add, UpdateTickCount(1) *before* the
    entry is written; = 0: touch; < 0: mark deleted. *)
Definition upd_writes (d : dict) (tick : N) (e : dentry) (commits : Z) : list wop * N :=
  match entry_key e with
  | None => ([], tick)
  | Some k =>
      let c := old_commits (get d k) in
      if 0 <? commits then
        let c1 := (if c <? 0 then - c else c) + commits in
        let tick' := (tick + 1)%N in
        ([WPut tick_key (VNum tick'); WPut k (VEnt c1 tick')], tick')
      else if commits =? 0 then ([WPut k (VEnt c tick)], tick)
      else ([WPut k (VEnt (Z.min (-1) (- c)) tick)], tick)
  end.

(** UserDictionary::CreateDictEntry (user_dictionary.cc:523-555): a record is
    offered as a candidate iff its key has a tab and commits >= 0 *)
Definition visible (v : dval) : bool :=
  match v with
  | VEnt c _ => 0 <=? c
  | _ => false
  end.

(** * Commit entries (memory.cc:22-46, 101-118) *)

(** one segment of the composition as Memory::OnCommit reads it *)
Record seg := mkseg {
  sg_rec : bool;             (* Language::intelligible(phrase, this) *)
  sg_conf : bool;            (* seg.status >= kConfirmed *)
  sg_entry : dentry;         (* phrase->entry() *)
  sg_elems : list dentry     (* what AppendPhrase pushes: sentence components or the entry *)
}.

Record centry := mkce {
  ce_text : bytes;
  ce_code : list bytes;
  ce_elems : list dentry
}.

Definition ce_empty : centry := mkce [] [] [].

Definition ce_append (ce : centry) (sg : seg) : centry :=
  mkce (ce_text ce ++ de_text (sg_entry sg))
       (ce_code ce ++ de_code (sg_entry sg))
       (ce_elems ce ++ sg_elems sg).

Definition ce_entry (ce : centry) : dentry := mkde (ce_text ce) [] (ce_code ce).

Inductive tkind := KScript | KTable.

(* kEncodedPrefix = "\x7f" "enc" "\x1f" (unity_table_encoder.cc:15) *)
Definition enc_prefix : bytes := str [127; 101; 110; 99; 31]%N.

Fixpoint has_prefix (p s : bytes) : bool :=
  match p, s with
  | [], _ => true
  | x :: p', y :: s' => bytes_eqb [x] [y] && has_prefix p' s'
  | _ :: _, [] => false
  end.

Definition bless (e : dentry) : dentry :=
  if has_prefix enc_prefix (de_custom e)
  then mkde (de_text e) (skipn (length enc_prefix) (de_custom e)) (de_code e)
  else e.

(** the UpdateEntry calls of one Memorize, as (entry, commits) pairs:
    ScriptTranslator::Memorize (script_translator.cc:244-263) touches the
    elements with 0 when there are several and one has more than one syllable,
    then counts the whole phrase; TableTranslator::Memorize
    (table_translator.cc:309-320) counts every element *)
Definition memorize_calls (kind : tkind) (ce : centry) : list (dentry * Z) :=
  match kind with
  | KScript =>
      (if (1 <? length (ce_elems ce))%nat &&
          existsb (fun e => (1 <? length (de_code e))%nat) (ce_elems ce)
       then map (fun e => (e, 0)) (ce_elems ce) else [])
      ++ [(ce_entry ce, 1)]
  | KTable => map (fun e => (bless e, 1)) (ce_elems ce)
  end.

(** the Memorize calls of one OnCommit: a commit entry is saved at every
    unrecognised or confirmed segment, if its text is not empty; what is left at
    the end is dropped (memory.cc:105-117) *)
Fixpoint commit_calls (kind : tkind) (segs : list seg) (ce : centry) : list (dentry * Z) :=
  match segs with
  | [] => []
  | sg :: r =>
      let ce1 := if sg_rec sg then ce_append ce sg else ce in
      if negb (sg_rec sg) || sg_conf sg
      then (match ce_text ce1 with [] => [] | _ => memorize_calls kind ce1 end)
           ++ commit_calls kind r ce_empty
      else commit_calls kind r ce1
  end.

(** the writes of a list of UpdateEntry calls when every Fetch sees [d] (as is
    the case inside a transaction) *)
Fixpoint calls_writes (d : dict) (tick : N) (calls : list (dentry * Z)) : list wop * N :=
  match calls with
  | [] => ([], tick)
  | (e, c) :: r =>
      let '(w1, t1) := upd_writes d tick e c in
      let '(w2, t2) := calls_writes d t1 r in
      (w1 ++ w2, t2)
  end.

(** the delta of one commit over the dictionary [d] *)
Definition commit_writes (d : dict) (tick : N) (kind : tkind) (segs : list seg) : list wop * N :=
  calls_writes d tick (commit_calls kind segs ce_empty).

(** * Implementation model: one LevelDb call at a time *)

Record ud := mkud {
  ud_tick : N;     (* UserDictionary::tick_ *)
  ud_time : Z      (* UserDictionary::transaction_time_ *)
}.

Record pst := mkpst {
  pdb : db;                    (* the LevelDb shared through UserDictionaryComponent::db_pool_ *)
  puds : list (nat * ud);      (* the live UserDictionary objects on it *)
  plog : list dbop             (* calls issued so far, latest first *)
}.

Fixpoint find_ud (l : list (nat * ud)) (u : nat) : option ud :=
  match l with
  | [] => None
  | (u', x) :: r => if Nat.eqb u u' then Some x else find_ud r u
  end.

Definition get_ud (l : list (nat * ud)) (u : nat) : ud :=
  match find_ud l u with Some x => x | None => mkud 0 0 end.

Fixpoint set_ud (l : list (nat * ud)) (u : nat) (x : ud) : list (nat * ud) :=
  match l with
  | [] => [(u, x)]
  | (u', x') :: r => if Nat.eqb u u' then (u, x) :: r else (u', x') :: set_ud r u x
  end.

Fixpoint remove_ud (l : list (nat * ud)) (u : nat) : list (nat * ud) :=
  match l with
  | [] => []
  | (u', x') :: r => if Nat.eqb u u' then remove_ud r u else (u', x') :: remove_ud r u
  end.

Definition set_tick (l : list (nat * ud)) (u : nat) (t : N) : list (nat * ud) :=
  set_ud l u (mkud t (ud_time (get_ud l u))).
Definition set_time (l : list (nat * ud)) (u : nat) (now : Z) : list (nat * ud) :=
  set_ud l u (mkud (ud_tick (get_ud l u)) now).

Definition op_of_wop (w : wop) : dbop :=
  match w with
  | WPut k v => OUpdate k v
  | WDel k => OErase k
  end.

Definition issue (s : pst) (o : dbop) : pst :=
  mkpst (db_step (pdb s) o) (puds s) (o :: plog s).

Definition issue_w (s : pst) (w : wop) : pst := issue s (op_of_wop w).

Definition with_uds (s : pst) (l : list (nat * ud)) : pst := mkpst (pdb s) l (plog s).

(** LevelDb::Fetch: false unless loaded; reads the durable store *)
Definition view (b : db) : dict := if loaded b then durable b else [].

Definition update_entry (s : pst) (u : nat) (ec : dentry * Z) : pst :=
  let '(ws, tick') := upd_writes (view (pdb s)) (ud_tick (get_ud (puds s) u)) (fst ec) (snd ec) in
  fold_left issue_w ws (with_uds s (set_tick (puds s) u tick')).

(** UserDictionary::CommitPendingTransaction (user_dictionary.cc:495-501) *)
Definition commit_pending (s : pst) : pst :=
  if in_txn (pdb s) then issue s OCommit else s.

(** UserDictionary::NewTransaction (user_dictionary.cc:477-484) *)
Definition new_transaction (s : pst) (u : nat) (now : Z) : pst :=
  let s1 := commit_pending s in
  issue (with_uds s1 (set_time (puds s1) u now)) OBegin.

(** UserDictionary::RevertRecentTransaction (user_dictionary.cc:486-493) *)
Definition revert_recent (s : pst) (u : nat) (now : Z) : pst * bool :=
  if negb (in_txn (pdb s)) then (s, false)
  else if 3 <? now - ud_time (get_ud (puds s) u) then (s, false)
  else (issue s OAbort, loaded (pdb s) && in_txn (pdb s)).

(** UserDictionary::FetchTickCount (user_dictionary.cc:463-475): "/tick", or the
    empty key an earlier version wrote; stoul of anything else throws *)
Definition fetch_tick_val (d : dict) : option N :=
  match (match get d tick_key with Some v => Some v | None => get d [] end) with
  | Some (VNum n) => Some n
  | _ => None
  end.

Definition fetch_tick (s : pst) (u : nat) : pst * bool :=
  match fetch_tick_val (view (pdb s)) with
  | Some n => (with_uds s (set_tick (puds s) u n), true)
  | None => (s, false)
  end.

(** LevelDb::Open + CreateMetadata of Db, LevelDb and UserDbWrapper *)
Definition metadata_writes : list wop :=
  [WPut db_name_key VStr; WPut rime_version_key VStr; WPut db_type_key VStr; WPut user_id_key VStr].

Definition db_open (s : pst) : pst :=
  let s1 := issue s OOpen in
  match get (view (pdb s1)) db_name_key with
  | Some _ => s1
  | None => fold_left issue_w metadata_writes s1
  end.

(** UserDictionary::Load (user_dictionary.cc:168-182) of a new object [u];
    LevelDB is assumed to open (see the contract hypothesis in the proofs) *)
Definition load (s : pst) (u : nat) : pst :=
  let s0 := with_uds s (set_ud (puds s) u (mkud 0 0)) in
  let s1 := if loaded (pdb s0) then s0 else db_open s0 in
  let '(s2, ok) := fetch_tick s1 u in
  if ok then s2 else issue_w s2 (WPut tick_key (VNum 0)).

(** Memory::OnCommit (memory.cc:101-118) *)
Definition on_commit (s : pst) (u : nat) (kind : tkind) (now : Z) (segs : list seg) : pst :=
  let s1 := new_transaction s u now in
  fold_left (fun s ec => update_entry s u ec) (commit_calls kind segs ce_empty) s1.

(** Memory::OnUnhandledKey (memory.cc:133-142) *)
Definition on_key (s : pst) (u : nat) (plain bs : bool) (now : Z) : pst :=
  if plain then
    if bs then
      let '(s1, ok) := revert_recent s u now in
      if ok then s1 else commit_pending s1
    else commit_pending s
  else s.

(** ~UserDictionary (user_dictionary.cc:157-161); the db is closed by ~LevelDb
    when the last UserDictionary holding it goes away *)
Definition destroy (s : pst) (u : nat) : pst :=
  let s1 := if loaded (pdb s) then commit_pending s else s in
  let s2 := with_uds s1 (remove_ud (puds s1) u) in
  match puds s2 with
  | [] => if loaded (pdb s2) then issue s2 OClose else s2
  | _ => s2
  end.

Inductive event :=
| ELoad (u : nat)
| EFetchTick (u : nat)                                   (* UserDictionary::Lookup *)
| ECommit (u : nat) (kind : tkind) (now : Z) (segs : list seg)
| EDelete (u : nat) (e : dentry)                         (* Memory::OnDeleteEntry *)
| EKey (u : nat) (plain bs : bool) (now : Z)
| EFinish (u : nat)                                      (* Memory::FinishSession from Query *)
| EDestroy (u : nat).

Definition ev_step (s : pst) (e : event) : pst :=
  match e with
  | ELoad u => load s u
  | EFetchTick u => fst (fetch_tick s u)
  | ECommit u kind now segs => on_commit s u kind now segs
  | EDelete u e => update_entry s u (e, -1)
  | EKey u plain bs now => on_key s u plain bs now
  | EFinish u => commit_pending s
  | EDestroy u => destroy s u
  end.

Definition pst0 (d : dict) : pst := mkpst (db0 d) [] [].

Definition run_events (d : dict) (h : list event) : pst := fold_left ev_step h (pst0 d).

Definition ops_of (d : dict) (h : list event) : list dbop := rev (plog (run_events d h)).

(** * Atomic semantics: an event is one step on (dictionary, pending commit) *)

Record sst := mksst {
  s_dict : dict;                     (* what is durable *)
  s_pend : option (list wop);        (* the open commit's writes, not yet durable *)
  s_loaded : bool;
  s_uds : list (nat * ud)
}.

Definition s_view (st : sst) : dict := if s_loaded st then s_dict st else [].

(** a list of writes: joins the pending commit if there is one, else each write
    is durable on its own *)
Definition spec_writes (st : sst) (ws : list wop) : sst * list (list wop) :=
  if negb (s_loaded st) then (st, [])
  else match s_pend st with
       | Some b => (mksst (s_dict st) (Some (b ++ ws)) true (s_uds st), [])
       | None => (mksst (apply_batch ws (s_dict st)) None true (s_uds st), map (fun w => [w]) ws)
       end.

(** the pending commit becomes durable as one unit *)
Definition spec_flush (st : sst) : sst * list (list wop) :=
  match s_pend st with
  | Some b => (mksst (apply_batch b (s_dict st)) None (s_loaded st) (s_uds st), [b])
  | None => (st, [])
  end.

Definition spec_with_uds (st : sst) (l : list (nat * ud)) : sst :=
  mksst (s_dict st) (s_pend st) (s_loaded st) l.

Definition spec_fetch_tick (st : sst) (u : nat) : sst * bool :=
  match fetch_tick_val (s_view st) with
  | Some n => (spec_with_uds st (set_tick (s_uds st) u n), true)
  | None => (st, false)
  end.

Definition spec_step (st : sst) (e : event) : sst * list (list wop) :=
  match e with
  | ELoad u =>
      let st0 := spec_with_uds st (set_ud (s_uds st) u (mkud 0 0)) in
      let '(st1, us1) :=
        if s_loaded st0 then (st0, [])
        else let o := mksst (s_dict st0) (s_pend st0) true (s_uds st0) in
             match get (s_dict st0) db_name_key with
             | Some _ => (o, [])
             | None => spec_writes o metadata_writes
             end in
      let '(st2, ok) := spec_fetch_tick st1 u in
      if ok then (st2, us1)
      else let '(st3, us3) := spec_writes st2 [WPut tick_key (VNum 0)] in (st3, us1 ++ us3)
  | EFetchTick u => (fst (spec_fetch_tick st u), [])
  | ECommit u kind now segs =>
      (* the previous commit (if still pending) becomes durable, then this
         commit's whole delta, computed over the resulting dictionary, is pending *)
      let '(st1, us) := spec_flush st in
      let '(ws, tick') := commit_writes (s_view st1) (ud_tick (get_ud (s_uds st1) u)) kind segs in
      let uds' := set_tick (set_time (s_uds st1) u now) u tick' in
      (mksst (s_dict st1) (if s_loaded st1 then Some ws else None) (s_loaded st1) uds', us)
  | EDelete u e =>
      let '(ws, tick') := upd_writes (s_view st) (ud_tick (get_ud (s_uds st) u)) e (-1) in
      spec_writes (spec_with_uds st (set_tick (s_uds st) u tick')) ws
  | EKey u plain bs now =>
      if plain then
        if bs && (match s_pend st with Some _ => true | None => false end)
              && negb (3 <? now - ud_time (get_ud (s_uds st) u))
        then (mksst (s_dict st) None (s_loaded st) (s_uds st), [])    (* the commit is forgotten *)
        else spec_flush st
      else (st, [])
  | EFinish u => spec_flush st
  | EDestroy u =>
      let '(st1, us) := spec_flush st in
      let uds' := remove_ud (s_uds st1) u in
      (mksst (s_dict st1) (s_pend st1)
             (match uds' with [] => false | _ => s_loaded st1 end) uds', us)
  end.

Fixpoint spec_run (st : sst) (h : list event) : sst * list (list wop) :=
  match h with
  | [] => (st, [])
  | e :: r =>
      let '(st1, us1) := spec_step st e in
      let '(st2, us2) := spec_run st1 r in
      (st2, us1 ++ us2)
  end.

Definition sst0 (d : dict) : sst := mksst d None false [].

(** the units a history makes durable, in order: whole commits and single writes *)
Definition spec_units (d : dict) (h : list event) : list (list wop) := snd (spec_run (sst0 d) h).

(** what a fresh process's UserDictionary::Load leaves in the store [d] *)
Definition reopen (d : dict) : dict := durable (pdb (load (pst0 d) 0%nat)).
