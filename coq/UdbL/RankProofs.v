(** C10 – a committed text is offered no later than before, in the model of the
    merged user/system emission, under the named hypothesis H_weight_mono. *)
From Coq Require Import List Bool Arith Lia.
From RimeV Require Import Base.Bytes UdbL.Txn UdbL.TxnProofs UdbL.Rank.
Import ListNotations.

Lemma mem_In x l : mem x l = true <-> In x l.
Proof.
  induction l as [|y r IH]; cbn [mem In]; [split; [discriminate|contradiction]|].
  rewrite orb_true_iff, IH, bytes_eqb_eq. split; intros [H|H]; auto.
Qed.

Lemma mem_false x l : mem x l = false <-> ~ In x l.
Proof.
  rewrite <- mem_In. destruct (mem x l); split; intro H; try reflexivity; try discriminate.
  - exfalso. now apply H.
Qed.

(** the first occurrence of [t] in a duplicate-free prefix keeps its index *)
Lemma index_dedup_prefix t a : forall seen rest,
  NoDup (a ++ [t]) -> (forall x, In x (a ++ [t]) -> ~ In x seen) ->
  index_of t (dedup_acc seen (a ++ t :: rest)) = Some (length a).
Proof.
  induction a as [|x a IH]; intros seen rest ND Hs; cbn [app dedup_acc length].
  - assert (mem t seen = false) as -> by (apply mem_false, Hs; now left).
    cbn [index_of]. now rewrite bytes_eqb_refl.
  - assert (mem x seen = false) as -> by (apply mem_false, Hs; now left).
    cbn [index_of]. inversion ND as [|? ? Hx ND']; subst.
    assert (bytes_eqb t x = false) as ->.
    { apply bytes_eqb_neq. intro E. subst x. apply Hx. apply in_or_app. right. now left. }
    rewrite IH; [reflexivity|exact ND'|].
    intros y Hy [E|Hin].
    + subst y. contradiction.
    + apply (Hs y); [now right|exact Hin].
Qed.

(** if [t] is not in a duplicate-free prefix, it comes after the whole prefix *)
Lemma index_dedup_after t l1 : forall seen l2 i,
  NoDup l1 -> ~ In t l1 -> (forall x, In x l1 -> ~ In x seen) ->
  index_of t (dedup_acc seen (l1 ++ l2)) = Some i -> length l1 <= i.
Proof.
  induction l1 as [|x r IH]; intros seen l2 i ND Ht Hs H; cbn [app length] in *; [lia|].
  cbn [dedup_acc] in H.
  assert (mem x seen = false) as E by (apply mem_false, Hs; now left). rewrite E in H.
  cbn [index_of] in H.
  assert (bytes_eqb t x = false) as E2 by (apply bytes_eqb_neq; intro; subst; apply Ht; now left).
  rewrite E2 in H.
  destruct (index_of t (dedup_acc (x :: seen) (r ++ l2))) as [j|] eqn:Ej; [|discriminate].
  injection H as <-. inversion ND as [|? ? Hx ND']; subst.
  apply IH in Ej; [lia|exact ND'|intro; apply Ht; now right|].
  intros y Hy [Ey|Hin]; [subst; contradiction|apply (Hs y); [now right|exact Hin]].
Qed.

Lemma nodup_app_l {A} (l l' : list A) : NoDup (l ++ l') -> NoDup l.
Proof.
  induction l as [|x l IH]; cbn [app]; intro H; [constructor|].
  inversion H as [|? ? Hx H']; subst. constructor.
  - intro X. apply Hx. apply in_or_app. now left.
  - now apply IH.
Qed.

Lemma nodup_prefix_snoc {A} (a b : list A) t : NoDup (a ++ t :: b) -> NoDup (a ++ [t]).
Proof.
  intro H. replace (a ++ t :: b) with ((a ++ [t]) ++ b) in H by (now rewrite <- app_assoc).
  now apply nodup_app_l in H.
Qed.

Section RankNoLater.
  Variable W : Type.
  Variable wle : W -> W -> bool.

  Lemma sorted_split A : forall t w B,
    sorted_desc W wle (A ++ (t, w) :: B) ->
    (forall y v, In (y, v) B -> wle v w = true) /\
    (forall y v, In (y, v) A -> wle w v = true).
  Proof.
    induction A as [|[x u] A IH]; intros t w B S; cbn [app sorted_desc] in S.
    - destruct S as [S _]. split; [exact S|contradiction].
    - destruct S as [S1 S2]. destruct (IH t w B S2) as [H1 H2]. split; [exact H1|].
      intros y v [E|Hin].
      + injection E as -> ->. apply (S1 t w). apply in_or_app. right. now left.
      + now apply (H2 y).
  Qed.

  Lemma in_fst_split (L : list (bytes * W)) t :
    In t (map fst L) -> exists A w B, L = A ++ (t, w) :: B.
  Proof.
    intro H. apply in_map_iff in H. destruct H as ([x w] & E & Hin). cbn in E. subst x.
    apply in_split in Hin. destruct Hin as (A & B & ->). now exists A, w, B.
  Qed.

  (** the committed text [T]; the user phrases of the full code as the code sorts
      them before ([L0]) and after ([L1]) the commit; what follows them ([sys]) *)
  Variable T : bytes.
  Variables L0 L1 : list (bytes * W).
  Variable sys : list bytes.
  Hypothesis S0 : sorted_desc W wle L0.
  Hypothesis S1 : sorted_desc W wle L1.
  Hypothesis ND0 : NoDup (map fst L0).      (* one record per (code, text) *)
  Hypothesis ND1 : NoDup (map fst L1).
  (** after the commit the text is a visible user phrase (count >= 1) *)
  Hypothesis T_learned : In T (map fst L1).
  (** no other user phrase appears by itself *)
  Hypothesis others_kept : forall x, x <> T -> In x (map fst L1) -> In x (map fst L0).
  (** H_weight_mono – the statement about dynamics.h: a user phrase that was
      not committed and weighed no more than the committed one before weighs
      strictly less than it afterwards *)
  Hypothesis H_weight_mono :
    forall x w0x w1x wT0 wT1, x <> T ->
      In (x, w0x) L0 -> In (x, w1x) L1 -> In (T, wT0) L0 -> In (T, wT1) L1 ->
      wle w0x wT0 = true -> wle wT1 w1x = false.

  Theorem rank_no_later i0 :
    index_of T (emission W L0 sys) = Some i0 ->
    exists i1, index_of T (emission W L1 sys) = Some i1 /\ i1 <= i0.
  Proof.
    intro H0. unfold emission, dedup in *.
    destruct (in_fst_split L1 T T_learned) as (A1 & wT1 & B1 & E1).
    assert (NoDup (map fst A1 ++ [T])) as NDA1.
    { apply (nodup_prefix_snoc _ (map fst B1)). rewrite E1, map_app in ND1. exact ND1. }
    exists (length A1). split.
    - rewrite E1, map_app. cbn [map fst]. rewrite <- app_assoc. cbn [app].
      rewrite <- (map_length fst A1). apply index_dedup_prefix; [exact NDA1|intros x _ []].
    - (* every text before T afterwards was before T (or simply there) before *)
      assert (forall x, In x (map fst A1) -> x <> T) as HneT.
      { intros x Hx E. subst x. apply NoDup_remove_2 in NDA1. apply NDA1. now rewrite app_nil_r. }
      assert (NoDup (map fst A1)) as NDa.
      { apply NoDup_remove_1 in NDA1. now rewrite app_nil_r in NDA1. }
      rewrite <- (map_length fst A1).
      destruct (in_dec (list_eq_dec Coq.Strings.Byte.byte_eq_dec) T (map fst L0)) as [HT0|HT0].
      + destruct (in_fst_split L0 T HT0) as (A0 & wT0 & B0 & E0).
        assert (NoDup (map fst A0 ++ [T])) as NDA0.
        { apply (nodup_prefix_snoc _ (map fst B0)). rewrite E0, map_app in ND0. exact ND0. }
        rewrite E0, map_app in H0. cbn [map fst] in H0. rewrite <- app_assoc in H0. cbn [app] in H0.
        rewrite index_dedup_prefix in H0; [|exact NDA0|intros x _ []].
        injection H0 as <-.
        apply NoDup_incl_length; [exact NDa|].
        intros x Hx. pose proof (HneT x Hx) as Hne.
        assert (In x (map fst L1)) as HxL1.
        { rewrite E1, map_app. apply in_or_app. now left. }
        pose proof (others_kept x Hne HxL1) as HxL0.
        apply in_map_iff in Hx. destruct Hx as ([x' w1x] & Ex & HinA1). cbn in Ex. subst x'.
        rewrite E0, map_app in HxL0. cbn [map fst] in HxL0.
        apply in_app_or in HxL0. destruct HxL0 as [HA|[HTx|HB]]; [exact HA|congruence|].
        exfalso. apply in_map_iff in HB. destruct HB as ([x' w0x] & Ex & HinB0). cbn in Ex. subst x'.
        rewrite E0 in S0. rewrite E1 in S1.
        destruct (sorted_split A0 T wT0 B0 S0) as [Hafter0 _].
        destruct (sorted_split A1 T wT1 B1 S1) as [_ Hbefore1].
        pose proof (Hafter0 x w0x HinB0) as Hle.
        pose proof (Hbefore1 x w1x HinA1) as Hge.
        assert (wle wT1 w1x = false) as Hlt.
        { apply (H_weight_mono x w0x w1x wT0 wT1 Hne).
          - rewrite E0. apply in_or_app. right. now right.
          - rewrite E1. apply in_or_app. now left.
          - rewrite E0. apply in_or_app. right. now left.
          - rewrite E1. apply in_or_app. right. now left.
          - exact Hle. }
        congruence.
      + (* T was not a user phrase before: it came after all of them *)
        apply index_dedup_after in H0; [|exact ND0|exact HT0|intros x _ []].
        etransitivity; [|exact H0].
        apply NoDup_incl_length; [exact NDa|].
        intros x Hx. apply others_kept; [now apply HneT|].
        rewrite E1, map_app. apply in_or_app. now left.
  Qed.
End RankNoLater.
