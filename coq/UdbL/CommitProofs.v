(** C10/C11 – what one commit writes: counts, ticks, grouping, deletion. *)
From Coq Require Import List NArith ZArith Bool Arith Lia.
From Coq.Strings Require Import Byte.
From RimeV Require Import Base.Bytes Base.ListX UdbL.Txn UdbL.TxnProofs UdbL.Learn.
Import ListNotations.
Local Open Scope Z_scope.

Definition wkey (w : wop) : key := match w with WPut k _ | WDel k => k end.

Lemma get_apply_w_other d w k : wkey w <> k -> get (apply_w d w) k = get d k.
Proof.
  intro H. destruct w as [k' v|k']; cbn [apply_w wkey] in *.
  - apply get_put_other. congruence.
  - apply get_del_other. congruence.
Qed.

Lemma get_apply_batch_other ws : forall d k,
  (forall w, In w ws -> wkey w <> k) -> get (apply_batch ws d) k = get d k.
Proof.
  induction ws as [|w ws IH]; intros d k H; [reflexivity|].
  cbn [apply_batch fold_left]. fold (apply_batch ws (apply_w d w)).
  rewrite IH by (intros w' Hw; apply H; now right).
  apply get_apply_w_other. apply H. now left.
Qed.

(** * Keys of entries contain a tab; metadata keys do not *)

Lemma entry_key_has_tab e k : entry_key e = Some k -> In tab k.
Proof.
  unfold entry_key. destruct (match de_custom e with [] => _ | _ => _ end) as [c|]; [|discriminate].
  intro H. injection H as <-. apply in_or_app. right. now left.
Qed.

Lemma tick_key_no_tab : ~ In tab tick_key.
Proof.
  unfold tick_key, str, meta_char, tab. cbn [map In].
  intro H. repeat (destruct H as [H|H]; [vm_compute in H; discriminate|]). exact H.
Qed.

Lemma entry_key_not_tick e : entry_key e <> Some tick_key.
Proof. intro H. apply tick_key_no_tab. now apply (entry_key_has_tab e). Qed.

(** * One UpdateEntry *)

(** the stored count after UpdateEntry(entry, commits) as a function of the old one *)
Definition new_commits (old c : Z) : Z :=
  if 0 <? c then Z.abs old + c else if c =? 0 then old else Z.min (-1) (- old).

Lemma abs_if c : (if c <? 0 then - c else c) = Z.abs c.
Proof. destruct (Z.ltb_spec c 0); lia. Qed.

Lemma upd_writes_some d tick e c k : entry_key e = Some k ->
  upd_writes d tick e c =
  (if 0 <? c
   then ([WPut tick_key (VNum (tick + 1)%N); WPut k (VEnt (new_commits (old_commits (get d k)) c) (tick + 1)%N)],
         (tick + 1)%N)
   else ([WPut k (VEnt (new_commits (old_commits (get d k)) c) tick)], tick)).
Proof.
  intro H. unfold upd_writes, new_commits. rewrite H, abs_if.
  destruct (0 <? c); [reflexivity|]. destruct (c =? 0); reflexivity.
Qed.

Lemma upd_writes_none d tick e c : entry_key e = None -> upd_writes d tick e c = ([], tick).
Proof. intro H. unfold upd_writes. now rewrite H. Qed.

Definition counted (ec : dentry * Z) : bool :=
  (0 <? snd ec) && match entry_key (fst ec) with Some _ => true | None => false end.

Definition n_counted (calls : list (dentry * Z)) : nat := length (filter counted calls).

Lemma n_counted_cons ec r :
  n_counted (ec :: r) = ((if counted ec then 1 else 0) + n_counted r)%nat.
Proof. unfold n_counted. cbn [filter]. destruct (counted ec); reflexivity. Qed.

(** * The calls of one commit *)

Lemma calls_writes_app d a : forall tick b,
  calls_writes d tick (a ++ b) =
  (fst (calls_writes d tick a) ++ fst (calls_writes d (snd (calls_writes d tick a)) b),
   snd (calls_writes d (snd (calls_writes d tick a)) b)).
Proof.
  induction a as [|[e c] r IH]; intros tick b; cbn [app calls_writes].
  - cbn [fst snd app]. now destruct (calls_writes d tick b).
  - destruct (upd_writes d tick e c) as [w1 t1]. rewrite IH.
    destruct (calls_writes d t1 r) as [w2 t2]. cbn [fst snd].
    destruct (calls_writes d t2 b) as [w3 t3]. cbn [fst snd]. now rewrite app_assoc.
Qed.

(** the in-memory tick grows by the number of counted updates *)
Lemma calls_tick d calls : forall tick,
  snd (calls_writes d tick calls) = (tick + N.of_nat (n_counted calls))%N.
Proof.
  induction calls as [|[e c] r IH]; intro tick; cbn [calls_writes].
  - cbn [snd n_counted filter length]. lia.
  - destruct (upd_writes d tick e c) as [w1 t1] eqn:E1.
    specialize (IH t1). destruct (calls_writes d t1 r) as [w2 t2]. cbn [snd] in *.
    rewrite IH, n_counted_cons. unfold counted. cbn [fst snd].
    destruct (entry_key e) as [k|] eqn:Ek.
    + rewrite (upd_writes_some _ _ _ _ _ Ek) in E1. destruct (0 <? c); injection E1 as _ <-;
        cbn [andb]; lia.
    + rewrite (upd_writes_none _ _ _ _ Ek) in E1. injection E1 as _ <-.
      rewrite andb_false_r. lia.
Qed.

Lemma calls_tick_mono d calls tick : (tick <= snd (calls_writes d tick calls))%N.
Proof. rewrite calls_tick. lia. Qed.

(** every write of the calls is an entry put stamped within [tick, tick'], or a
    "/tick" put of a value within (tick, tick'] *)
Lemma calls_writes_shape d calls : forall tick w,
  In w (fst (calls_writes d tick calls)) ->
  (exists e c k cc t, In (e, c) calls /\ entry_key e = Some k /\ w = WPut k (VEnt cc t) /\
                      (tick <= t <= snd (calls_writes d tick calls))%N) \/
  (exists n, w = WPut tick_key (VNum n) /\ (tick < n <= snd (calls_writes d tick calls))%N).
Proof.
  induction calls as [|[e c] r IH]; intros tick w H; cbn [calls_writes] in *; [contradiction|].
  destruct (upd_writes d tick e c) as [w1 t1] eqn:E1.
  pose proof (calls_tick_mono d r t1) as M.
  specialize (IH t1 w). destruct (calls_writes d t1 r) as [w2 t2]. cbn [fst snd] in *.
  apply in_app_or in H. destruct H as [H|H].
  - destruct (entry_key e) as [k|] eqn:Ek.
    + rewrite (upd_writes_some _ _ _ _ _ Ek) in E1. destruct (0 <? c); injection E1 as <- <-.
      * destruct H as [<-|[<-|[]]].
        -- right. eexists. split; [reflexivity|]. lia.
        -- left. exists e, c, k. eexists _, _. repeat split; try reflexivity; try (now left); try assumption; lia.
      * destruct H as [<-|[]].
        left. exists e, c, k. eexists _, _. repeat split; try reflexivity; try (now left); try assumption; lia.
    + rewrite (upd_writes_none _ _ _ _ Ek) in E1. injection E1 as <- <-. contradiction.
  - assert (tick <= t1)%N as M1.
    { destruct (entry_key e) as [k|] eqn:Ek.
      - rewrite (upd_writes_some _ _ _ _ _ Ek) in E1. destruct (0 <? c); injection E1 as _ <-; lia.
      - rewrite (upd_writes_none _ _ _ _ Ek) in E1. injection E1 as _ <-. lia. }
    destruct (IH H) as [(e' & c' & k & cc & t & Hin & Hk & -> & Ht)|(n & -> & Hn)].
    + left. exists e', c', k, cc, t. repeat split; try assumption; try (now right); lia.
    + right. exists n. split; [reflexivity|]. lia.
Qed.

(** the last "/tick" written by a commit is its final tick *)
Lemma calls_tick_stored d calls : forall tick d0,
  (0 < n_counted calls)%nat ->
  get (apply_batch (fst (calls_writes d tick calls)) d0) tick_key =
  Some (VNum (snd (calls_writes d tick calls))).
Proof.
  induction calls as [|[e c] r IH]; intros tick d0 Hn; [cbn in Hn; lia|].
  cbn [calls_writes]. destruct (upd_writes d tick e c) as [w1 t1] eqn:E1.
  specialize (IH t1 (apply_batch w1 d0)).
  pose proof (calls_tick d r t1) as T.
  destruct (calls_writes d t1 r) as [w2 t2] eqn:E2. cbn [fst snd] in *.
  rewrite apply_batch_app.
  destruct (n_counted r) as [|m] eqn:Er.
  - (* no counted call follows: nothing later writes "/tick" *)
    assert (forall w, In w w2 -> wkey w <> tick_key) as Hw2.
    { intros w Hw. pose proof (calls_writes_shape d r t1 w) as S. rewrite E2 in S. cbn [fst snd] in S.
      destruct (S Hw) as [(e' & c' & k & cc & t & _ & Hk & -> & _)|(n & -> & Hn')].
      - cbn [wkey]. intro X. subst k. now apply (entry_key_not_tick e').
      - rewrite T in Hn'. lia. }
    rewrite get_apply_batch_other by exact Hw2.
    rewrite n_counted_cons, Er in Hn. unfold counted in Hn. cbn [fst snd] in Hn.
    destruct (entry_key e) as [k|] eqn:Ek.
    + rewrite (upd_writes_some _ _ _ _ _ Ek) in E1. destruct (0 <? c) eqn:Ec.
      * injection E1 as <- <-. cbn [apply_batch fold_left apply_w].
        rewrite get_put_other.
        -- rewrite get_put_same. f_equal. f_equal. lia.
        -- intro X. apply (entry_key_not_tick e). now rewrite Ek, X.
      * cbn [andb] in Hn. lia.
    + rewrite andb_false_r in Hn. lia.
  - apply IH. lia.
Qed.

(** the last call that targets a key decides its stored count, computed from
    the count the dictionary held *before the commit* *)
Lemma last_call_wins d tick calls1 e c calls2 k d0 :
  entry_key e = Some k ->
  (forall ec, In ec calls2 -> entry_key (fst ec) <> Some k) ->
  let calls := calls1 ++ (e, c) :: calls2 in
  exists t,
    get (apply_batch (fst (calls_writes d tick calls)) d0) k =
      Some (VEnt (new_commits (old_commits (get d k)) c) t) /\
    (tick <= t <= snd (calls_writes d tick calls))%N.
Proof.
  intros Hk Hno calls. subst calls.
  rewrite calls_writes_app. cbn [fst snd].
  set (t1 := snd (calls_writes d tick calls1)).
  pose proof (calls_tick_mono d calls1 tick) as M1. fold t1 in M1.
  cbn [calls_writes]. rewrite (upd_writes_some _ _ _ _ _ Hk).
  assert (k <> tick_key) as Hkt by (intro X; apply (entry_key_not_tick e); now rewrite Hk, X).
  match goal with |- context [let '(w1, t1) := ?X in _] => remember X as W eqn:EW end.
  destruct W as [wm tm].
  pose proof (calls_tick_mono d calls2 tm) as M2.
  pose proof (calls_writes_shape d calls2 tm) as S2.
  destruct (calls_writes d tm calls2) as [w3 t3] eqn:E3. cbn [fst snd] in *.
  assert (forall w, In w w3 -> wkey w <> k) as Hw3.
  { intros w Hw. destruct (S2 w Hw) as [(e' & c' & k' & cc & t & Hin & Hk' & -> & _)|(n & -> & _)].
    - cbn [wkey]. intro X. subst k'. now apply (Hno (e', c') Hin).
    - cbn [wkey]. congruence. }
  rewrite !apply_batch_app, get_apply_batch_other by exact Hw3.
  destruct (0 <? c); injection EW as -> ->.
  - exists (t1 + 1)%N. split.
    + cbn [apply_batch fold_left apply_w]. now rewrite get_put_same.
    + lia.
  - exists t1. split.
    + cbn [apply_batch fold_left apply_w]. now rewrite get_put_same.
    + lia.
Qed.

(** keys no call targets are left alone (the tick is metadata, not an entry) *)
Lemma untouched_keys_kept d tick calls k d0 :
  (forall ec, In ec calls -> entry_key (fst ec) <> Some k) -> k <> tick_key ->
  get (apply_batch (fst (calls_writes d tick calls)) d0) k = get d0 k.
Proof.
  intros Hno Hkt. apply get_apply_batch_other. intros w Hw.
  destruct (calls_writes_shape d calls tick w Hw) as [(e' & c' & k' & cc & t & Hin & Hk' & -> & _)|(n & -> & _)].
  - cbn [wkey]. intro X. subst k'. now apply (Hno (e', c') Hin).
  - cbn [wkey]. congruence.
Qed.

(** * Grouping of selected phrases into commit entries *)

Definition fold_ce (ce : centry) (segs : list seg) : centry := fold_left ce_append segs ce.

Lemma commit_calls_partials kind partials : forall ce final,
  Forall (fun sg => sg_rec sg = true /\ sg_conf sg = false) partials ->
  sg_rec final = true -> sg_conf final = true ->
  commit_calls kind (partials ++ [final]) ce =
  match ce_text (fold_ce ce (partials ++ [final])) with
  | [] => []
  | _ => memorize_calls kind (fold_ce ce (partials ++ [final]))
  end.
Proof.
  induction partials as [|sg r IH]; intros ce final HF Hr Hc; cbn [app commit_calls].
  - rewrite Hr, Hc. cbn [negb orb fold_ce fold_left]. now rewrite app_nil_r.
  - inversion HF as [|? ? [H1 H2] HF']; subst. rewrite H1, H2. cbn [negb orb].
    rewrite IH by assumption. reflexivity.
Qed.

Lemma fold_ce_text segs : forall ce,
  ce_text (fold_ce ce segs) = ce_text ce ++ concat (map (fun sg => de_text (sg_entry sg)) segs).
Proof.
  induction segs as [|sg r IH]; intro ce; cbn [fold_ce fold_left map concat].
  - now rewrite app_nil_r.
  - fold (fold_ce (ce_append ce sg) r). rewrite IH. cbn [ce_append ce_text]. now rewrite app_assoc.
Qed.

Lemma fold_ce_code segs : forall ce,
  ce_code (fold_ce ce segs) = ce_code ce ++ concat (map (fun sg => de_code (sg_entry sg)) segs).
Proof.
  induction segs as [|sg r IH]; intro ce; cbn [fold_ce fold_left map concat].
  - now rewrite app_nil_r.
  - fold (fold_ce (ce_append ce sg) r). rewrite IH. cbn [ce_append ce_code]. now rewrite app_assoc.
Qed.

Lemma memorize_script_last ce :
  exists pre, memorize_calls KScript ce = pre ++ [(ce_entry ce, 1)] /\
              forall ec, In ec pre -> snd ec = 0.
Proof.
  unfold memorize_calls. eexists. split; [reflexivity|].
  intros ec H. destruct (_ && _); [|contradiction].
  apply in_map_iff in H. destruct H as (x & <- & _). reflexivity.
Qed.

(** * Deletion and revival *)

Lemma delete_writes d tick e k :
  entry_key e = Some k ->
  upd_writes d tick e (-1) = ([WPut k (VEnt (Z.min (-1) (- old_commits (get d k))) tick)], tick).
Proof. intro H. now rewrite (upd_writes_some _ _ _ _ _ H). Qed.

Lemma deleted_hidden c t : visible (VEnt (Z.min (-1) (- c)) t) = false.
Proof. cbn [visible]. apply Z.leb_gt. lia. Qed.

Lemma counted_visible old c t : 0 < c -> visible (VEnt (new_commits old c) t) = true.
Proof.
  intro H. cbn [visible]. unfold new_commits. apply Z.ltb_lt in H. rewrite H. apply Z.leb_le. lia.
Qed.

(** * The tick of a commit is written with it *)
Lemma commit_tick_consistent d tick kind segs d0 :
  let calls := commit_calls kind segs ce_empty in
  let ws := fst (commit_writes d tick kind segs) in
  let tick' := snd (commit_writes d tick kind segs) in
  tick' = (tick + N.of_nat (n_counted calls))%N /\
  ((0 < n_counted calls)%nat -> get (apply_batch ws d0) tick_key = Some (VNum tick')) /\
  (forall k c t, In (WPut k (VEnt c t)) ws -> (tick <= t <= tick')%N) /\
  (forall n, In (WPut tick_key (VNum n)) ws -> (tick < n <= tick')%N).
Proof.
  intros calls ws tick'. subst ws tick'. unfold commit_writes. fold calls.
  split; [apply calls_tick|]. split; [apply calls_tick_stored|]. split.
  - intros k c t H.
    destruct (calls_writes_shape d calls tick _ H) as [(e' & c' & k' & cc & t' & _ & _ & E & Ht)|(n & E & _)].
    + injection E as -> -> ->. exact Ht.
    + discriminate.
  - intros n H.
    destruct (calls_writes_shape d calls tick _ H) as [(e' & c' & k' & cc & t' & _ & Hk & E & _)|(n' & E & Hn)].
    + injection E as <-. discriminate.
    + injection E as ->. exact Hn.
Qed.

(** * Statements of C10 about counts *)

Lemma counted_once_is_abs_plus_one old : new_commits old 1 = Z.abs old + 1.
Proof. reflexivity. Qed.

Lemma touched_keeps_count old : new_commits old 0 = old.
Proof. reflexivity. Qed.

Lemma commit_counts_exactly d tick calls :
  let ws := fst (calls_writes d tick calls) in
  let tick' := snd (calls_writes d tick calls) in
  (forall calls1 e c calls2 k,
     calls = calls1 ++ (e, c) :: calls2 -> entry_key e = Some k ->
     (forall ec, In ec calls2 -> entry_key (fst ec) <> Some k) ->
     exists t, get (apply_batch ws d) k = Some (VEnt (new_commits (old_commits (get d k)) c) t) /\
               (tick <= t <= tick')%N) /\
  (forall k, (forall ec, In ec calls -> entry_key (fst ec) <> Some k) -> k <> tick_key ->
     get (apply_batch ws d) k = get d k) /\
  tick' = (tick + N.of_nat (n_counted calls))%N.
Proof.
  intros ws tick'. subst ws tick'. split; [|split].
  - intros calls1 e c calls2 k -> Hk Hno. now apply last_call_wins.
  - intros k Hno Hkt. now apply untouched_keys_kept.
  - apply calls_tick.
Qed.

Lemma table_calls_all_counted ce ec : In ec (memorize_calls KTable ce) -> snd ec = 1.
Proof.
  unfold memorize_calls. intro H. apply in_map_iff in H. destruct H as (x & <- & _). reflexivity.
Qed.

(** k partial selections closed by a confirming one are saved as one entry under
    the concatenated code, counted once; its elements are only touched *)
Lemma partials_one_entry partials final :
  Forall (fun sg => sg_rec sg = true /\ sg_conf sg = false) partials ->
  sg_rec final = true -> sg_conf final = true ->
  let T := concat (map (fun sg => de_text (sg_entry sg)) (partials ++ [final])) in
  let C := concat (map (fun sg => de_code (sg_entry sg)) (partials ++ [final])) in
  T <> [] ->
  exists pre, commit_calls KScript (partials ++ [final]) ce_empty = pre ++ [(mkde T [] C, 1)] /\
              forall ec, In ec pre -> snd ec = 0.
Proof.
  intros HF Hr Hc T C HT.
  rewrite (commit_calls_partials KScript partials ce_empty final HF Hr Hc).
  pose proof (fold_ce_text (partials ++ [final]) ce_empty) as ET.
  pose proof (fold_ce_code (partials ++ [final]) ce_empty) as EC.
  cbn [ce_empty ce_text ce_code app] in ET, EC. fold T in ET. fold C in EC.
  destruct (memorize_script_last (fold_ce ce_empty (partials ++ [final]))) as (pre & E & Hpre).
  destruct (ce_text (fold_ce ce_empty (partials ++ [final]))) eqn:Et.
  - exfalso. apply HT. now rewrite <- ET.
  - exists pre. split; [|exact Hpre]. rewrite E. unfold ce_entry. now rewrite Et, ET, EC.
Qed.

Lemma delete_marks_and_hides d tick e k :
  entry_key e = Some k ->
  let c' := Z.min (-1) (- old_commits (get d k)) in
  upd_writes d tick e (-1) = ([WPut k (VEnt c' tick)], tick) /\
  c' < 0 /\ (0 <= old_commits (get d k) -> c' = - Z.max 1 (old_commits (get d k))) /\
  visible (VEnt c' tick) = false.
Proof.
  intros Hk c'. split; [now apply delete_writes|]. split; [subst c'; lia|]. split; [subst c'; lia|].
  apply deleted_hidden.
Qed.

Lemma recommit_revives old t :
  let del := Z.min (-1) (- old) in
  new_commits del 1 = Z.abs del + 1 /\ 0 < new_commits del 1 /\ visible (VEnt (new_commits del 1) t) = true.
Proof.
  intro del. split; [reflexivity|]. split; [unfold new_commits; cbn; lia|]. now apply counted_visible.
Qed.
