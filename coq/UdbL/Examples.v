(** C10/C11 – concrete histories showing that the theorems' hypotheses are met
    by non-trivial states (all by computation). *)
From Coq Require Import List NArith ZArith Bool.
From Coq.Strings Require Import Byte.
From RimeV Require Import Base.Bytes UdbL.Txn UdbL.Learn.
Import ListNotations.

Definition ex_a : dentry := mkde [x41] [] [[x61]].          (* "A" spelled a *)
Definition ex_b : dentry := mkde [x42] [] [[x62]].          (* "B" spelled b *)
Definition ex_ab : dentry := mkde [x41; x42] [] [[x61]; [x62]].
Definition ex_key_a : key := [x61; x20; x09; x41].
Definition ex_key_b : key := [x62; x20; x09; x42].
Definition ex_key_ab : key := [x61; x20; x62; x20; x09; x41; x42].

(** open the dictionary, commit "A", type on (the commit is flushed), commit "B" *)
Definition ex_h : list event :=
  [ELoad 0; ECommit 0 KScript 0 [mkseg true true ex_a [ex_a]]; EFinish 0;
   ECommit 0 KScript 5 [mkseg true true ex_b [ex_b]]].

(** the calls the model issues for it *)
Lemma ex_ops :
  ops_of [] ex_h =
  [OOpen; OUpdate db_name_key VStr; OUpdate rime_version_key VStr; OUpdate db_type_key VStr;
   OUpdate user_id_key VStr; OUpdate tick_key (VNum 0);
   OBegin; OUpdate tick_key (VNum 1); OUpdate ex_key_a (VEnt 1 1); OCommit;
   OBegin; OUpdate tick_key (VNum 2); OUpdate ex_key_b (VEnt 1 2)].
Proof. vm_compute. reflexivity. Qed.

(** six units: five single metadata writes and the whole first commit; the
    second commit is still pending at the end of the history *)
Lemma ex_units :
  spec_units [] ex_h =
  [[WPut db_name_key VStr]; [WPut rime_version_key VStr]; [WPut db_type_key VStr];
   [WPut user_id_key VStr]; [WPut tick_key (VNum 0)];
   [WPut tick_key (VNum 1); WPut ex_key_a (VEnt 1 1)]].
Proof. vm_compute. reflexivity. Qed.

(** killed inside the first commit's batch (after 8 calls): nothing of it is there *)
Lemma ex_kill_inside_first_commit :
  let d := recover (db_run (db0 []) (firstn 8 (ops_of [] ex_h))) in
  closed_count (db0 []) (firstn 8 (ops_of [] ex_h)) = 5 /\
  get d ex_key_a = None /\ get d tick_key = Some (VNum 0).
Proof. vm_compute. repeat split. Qed.

(** killed at the very end: the first commit is whole, the last one is missing *)
Lemma ex_kill_at_end :
  let d := recover (db_run (db0 []) (ops_of [] ex_h)) in
  closed_count (db0 []) (ops_of [] ex_h) = 6 /\
  get d ex_key_a = Some (VEnt 1 1) /\ get d tick_key = Some (VNum 1) /\ get d ex_key_b = None.
Proof. vm_compute. repeat split. Qed.

(** a phrase assembled from two partial selections is one commit entry *)
Lemma ex_partials :
  commit_calls KScript [mkseg true false ex_a [ex_a]; mkseg true true ex_b [ex_b]] ce_empty =
  [(ex_ab, 1%Z)] /\ entry_key ex_ab = Some ex_key_ab.
Proof. vm_compute. split; reflexivity. Qed.

(** delete, then commit again: hidden, then visible with count |c|+1 *)
Lemma ex_delete_revive :
  let d1 := apply_batch (fst (upd_writes [(ex_key_a, VEnt 3 7)] 9 ex_a (-1))) [(ex_key_a, VEnt 3 7)] in
  let d2 := apply_batch (fst (upd_writes d1 9 ex_a 1)) d1 in
  get d1 ex_key_a = Some (VEnt (-3) 9) /\ get d2 ex_key_a = Some (VEnt 4 10) /\
  get d2 tick_key = Some (VNum 10).
Proof. vm_compute. repeat split. Qed.
