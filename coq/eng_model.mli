
val negb : bool -> bool

type nat =
| O
| S of nat

val option_map : ('a1 -> 'a2) -> 'a1 option -> 'a2 option

val fst : ('a1 * 'a2) -> 'a1

val snd : ('a1 * 'a2) -> 'a2

val length : 'a1 list -> nat

val app : 'a1 list -> 'a1 list -> 'a1 list

type comparison =
| Eq
| Lt
| Gt

val compOpp : comparison -> comparison

val add : nat -> nat -> nat

val sub : nat -> nat -> nat

type byte =
| X00
| X01
| X02
| X03
| X04
| X05
| X06
| X07
| X08
| X09
| X0a
| X0b
| X0c
| X0d
| X0e
| X0f
| X10
| X11
| X12
| X13
| X14
| X15
| X16
| X17
| X18
| X19
| X1a
| X1b
| X1c
| X1d
| X1e
| X1f
| X20
| X21
| X22
| X23
| X24
| X25
| X26
| X27
| X28
| X29
| X2a
| X2b
| X2c
| X2d
| X2e
| X2f
| X30
| X31
| X32
| X33
| X34
| X35
| X36
| X37
| X38
| X39
| X3a
| X3b
| X3c
| X3d
| X3e
| X3f
| X40
| X41
| X42
| X43
| X44
| X45
| X46
| X47
| X48
| X49
| X4a
| X4b
| X4c
| X4d
| X4e
| X4f
| X50
| X51
| X52
| X53
| X54
| X55
| X56
| X57
| X58
| X59
| X5a
| X5b
| X5c
| X5d
| X5e
| X5f
| X60
| X61
| X62
| X63
| X64
| X65
| X66
| X67
| X68
| X69
| X6a
| X6b
| X6c
| X6d
| X6e
| X6f
| X70
| X71
| X72
| X73
| X74
| X75
| X76
| X77
| X78
| X79
| X7a
| X7b
| X7c
| X7d
| X7e
| X7f
| X80
| X81
| X82
| X83
| X84
| X85
| X86
| X87
| X88
| X89
| X8a
| X8b
| X8c
| X8d
| X8e
| X8f
| X90
| X91
| X92
| X93
| X94
| X95
| X96
| X97
| X98
| X99
| X9a
| X9b
| X9c
| X9d
| X9e
| X9f
| Xa0
| Xa1
| Xa2
| Xa3
| Xa4
| Xa5
| Xa6
| Xa7
| Xa8
| Xa9
| Xaa
| Xab
| Xac
| Xad
| Xae
| Xaf
| Xb0
| Xb1
| Xb2
| Xb3
| Xb4
| Xb5
| Xb6
| Xb7
| Xb8
| Xb9
| Xba
| Xbb
| Xbc
| Xbd
| Xbe
| Xbf
| Xc0
| Xc1
| Xc2
| Xc3
| Xc4
| Xc5
| Xc6
| Xc7
| Xc8
| Xc9
| Xca
| Xcb
| Xcc
| Xcd
| Xce
| Xcf
| Xd0
| Xd1
| Xd2
| Xd3
| Xd4
| Xd5
| Xd6
| Xd7
| Xd8
| Xd9
| Xda
| Xdb
| Xdc
| Xdd
| Xde
| Xdf
| Xe0
| Xe1
| Xe2
| Xe3
| Xe4
| Xe5
| Xe6
| Xe7
| Xe8
| Xe9
| Xea
| Xeb
| Xec
| Xed
| Xee
| Xef
| Xf0
| Xf1
| Xf2
| Xf3
| Xf4
| Xf5
| Xf6
| Xf7
| Xf8
| Xf9
| Xfa
| Xfb
| Xfc
| Xfd
| Xfe
| Xff

val to_bits :
  byte -> bool * (bool * (bool * (bool * (bool * (bool * (bool * bool))))))

val eqb : bool -> bool -> bool

module Nat :
 sig
  val eqb : nat -> nat -> bool

  val leb : nat -> nat -> bool

  val ltb : nat -> nat -> bool

  val divmod : nat -> nat -> nat -> nat -> nat * nat

  val div : nat -> nat -> nat
 end

val hd_error : 'a1 list -> 'a1 option

val tl : 'a1 list -> 'a1 list

val nth : nat -> 'a1 list -> 'a1 -> 'a1

val nth_error : 'a1 list -> nat -> 'a1 option

val last : 'a1 list -> 'a1 -> 'a1

val rev : 'a1 list -> 'a1 list

val map : ('a1 -> 'a2) -> 'a1 list -> 'a2 list

val flat_map : ('a1 -> 'a2 list) -> 'a1 list -> 'a2 list

val fold_left : ('a1 -> 'a2 -> 'a1) -> 'a2 list -> 'a1 -> 'a1

val fold_right : ('a2 -> 'a1 -> 'a1) -> 'a1 -> 'a2 list -> 'a1

val existsb : ('a1 -> bool) -> 'a1 list -> bool

val forallb : ('a1 -> bool) -> 'a1 list -> bool

val filter : ('a1 -> bool) -> 'a1 list -> 'a1 list

val find : ('a1 -> bool) -> 'a1 list -> 'a1 option

val firstn : nat -> 'a1 list -> 'a1 list

val skipn : nat -> 'a1 list -> 'a1 list

type positive =
| XI of positive
| XO of positive
| XH

type n =
| N0
| Npos of positive

type z =
| Z0
| Zpos of positive
| Zneg of positive

module Pos :
 sig
  type mask =
  | IsNul
  | IsPos of positive
  | IsNeg
 end

module Coq_Pos :
 sig
  val succ : positive -> positive

  val add : positive -> positive -> positive

  val add_carry : positive -> positive -> positive

  val pred_double : positive -> positive

  val pred_N : positive -> n

  type mask = Pos.mask =
  | IsNul
  | IsPos of positive
  | IsNeg

  val succ_double_mask : mask -> mask

  val double_mask : mask -> mask

  val double_pred_mask : positive -> mask

  val sub_mask : positive -> positive -> mask

  val sub_mask_carry : positive -> positive -> mask

  val mul : positive -> positive -> positive

  val iter : ('a1 -> 'a1) -> 'a1 -> positive -> 'a1

  val compare_cont : comparison -> positive -> positive -> comparison

  val compare : positive -> positive -> comparison

  val eqb : positive -> positive -> bool

  val coq_Nsucc_double : n -> n

  val coq_Ndouble : n -> n

  val coq_lor : positive -> positive -> positive

  val coq_land : positive -> positive -> n

  val ldiff : positive -> positive -> n

  val shiftl : positive -> n -> positive

  val testbit : positive -> n -> bool

  val iter_op : ('a1 -> 'a1 -> 'a1) -> positive -> 'a1 -> 'a1

  val to_nat : positive -> nat

  val of_succ_nat : nat -> positive
 end

module N :
 sig
  val succ_double : n -> n

  val double : n -> n

  val succ_pos : n -> positive

  val add : n -> n -> n

  val sub : n -> n -> n

  val mul : n -> n -> n

  val compare : n -> n -> comparison

  val eqb : n -> n -> bool

  val leb : n -> n -> bool

  val ltb : n -> n -> bool

  val min : n -> n -> n

  val div2 : n -> n

  val pos_div_eucl : positive -> n -> n * n

  val div_eucl : n -> n -> n * n

  val div : n -> n -> n

  val modulo : n -> n -> n

  val coq_lor : n -> n -> n

  val coq_land : n -> n -> n

  val ldiff : n -> n -> n

  val shiftl : n -> n -> n

  val shiftr : n -> n -> n

  val testbit : n -> n -> bool

  val to_nat : n -> nat

  val of_nat : nat -> n
 end

val eqb0 : byte -> byte -> bool

val to_N : byte -> n

val of_N : n -> byte option

module Z :
 sig
  val double : z -> z

  val succ_double : z -> z

  val pred_double : z -> z

  val pos_sub : positive -> positive -> z

  val add : z -> z -> z

  val opp : z -> z

  val pred : z -> z

  val sub : z -> z -> z

  val mul : z -> z -> z

  val compare : z -> z -> comparison

  val leb : z -> z -> bool

  val ltb : z -> z -> bool

  val eqb : z -> z -> bool

  val to_N : z -> n

  val of_nat : nat -> z

  val of_N : n -> z

  val pos_div_eucl : positive -> z -> z * z

  val div_eucl : z -> z -> z * z

  val modulo : z -> z -> z

  val quotrem : z -> z -> z * z

  val quot : z -> z -> z

  val rem : z -> z -> z

  val odd : z -> bool

  val testbit : z -> z -> bool

  val coq_lor : z -> z -> z

  val coq_land : z -> z -> z

  val lnot : z -> z
 end

type bytes = byte list

val byte_of_N : n -> byte

val n_of_byte : byte -> n

type key = { k_code : z; k_mod : z }

val key_eqb : key -> key -> bool

val kShiftMask : z

val kControlMask : z

val k_shift : key -> bool

val k_ctrl : key -> bool

val k_alt : key -> bool

val k_super : key -> bool

val k_release : key -> bool

val clear_shift : z -> z

val shift_as_control : z -> z

val xK_space : z

val xK_0 : z

val xK_9 : z

val xK_KP_0 : z

val xK_KP_9 : z

val xK_BackSpace : z

val xK_Return : z

type editor_action =
| EdConfirm
| EdToggleSelection
| EdCommitComment
| EdCommitRawInput
| EdCommitScriptText
| EdCommitComposition
| EdRevertLastEdit
| EdBackToPreviousInput
| EdBackToPreviousSyllable
| EdDeleteCandidate
| EdDeleteChar
| EdCancelComposition
| EdUnrecognised

type char_handler =
| CHDirectCommit
| CHAddToInput
| CHNone
| CHUnrecognised

type nav_action =
| NavRewind
| NavLeftByChar
| NavRightByChar
| NavLeftBySyllable
| NavRightBySyllable
| NavHome
| NavEnd
| NavUnrecognised

type sel_action =
| SelPreviousCandidate
| SelNextCandidate
| SelPreviousPage
| SelNextPage
| SelHome
| SelEnd
| SelUnrecognised

type 'a keymap = (key * 'a) list

val keymap_bind : 'a1 keymap -> key -> 'a1 -> 'a1 keymap

val keymap_of_binds : ((z * z) * 'a1) list -> 'a1 keymap

val keymap_find : 'a1 keymap -> key -> 'a1 option

val int_of_size : n -> z

val size_of_int : z -> n

val size_wrap : n -> n

val bytes_eqb : bytes -> bytes -> bool

val mem_byte : byte -> bytes -> bool

val find_byte : byte -> bytes -> nat option

val common_prefix : bytes -> bytes -> nat

val substr_se : bytes -> nat -> nat -> bytes * bool

type tag =
| TAbc
| TRaw
| TPartial
| TPaging
| TPhony
| TPlaceholder
| TSelectedBeforeEditing
| TPunct
| TPunctNumber

val tag_eqb : tag -> tag -> bool

type tags = tag list

val has_tag : tag -> tags -> bool

val tag_insert : tag -> tags -> tags

val tag_erase : tag -> tags -> tags

val tags_union : tags -> tags -> tags

type cand = { c_start : nat; c_end : nat; c_text : bytes; c_comment : 
              bytes; c_preedit : bytes; c_type : bytes }

type seginfo = { si_start : nat; si_end : nat; si_tags : tags;
                 si_opts : (bytes * bool) list }

val ty_punct : bytes

val ty_raw : bytes

val ty_thru : bytes

val byte_tab : byte

val byte_space : byte

type menu = cand list

val menu_count : menu -> n

val menu_prepare : menu -> n -> n

val menu_at : menu -> n -> cand option

val menu_empty : menu -> bool

type page = { pg_last : bool; pg_cands : cand list }

val create_page : menu -> n -> n -> page option * bool

type status =
| SVoid
| SGuess
| SSelected
| SConfirmed

val status_rank : status -> nat

val status_geb : status -> status -> bool

type segment = { s_status : status; s_start : nat; s_end : nat;
                 s_length : nat; s_tags : tags; s_menu : menu option;
                 s_sel : n; s_prompt : bytes }

val new_segment : nat -> nat -> segment

val seg_with_status : segment -> status -> segment

val seg_with_end : segment -> nat -> segment

val seg_with_tags : segment -> tags -> segment

val seg_with_sel : segment -> n -> segment

val seg_clear : segment -> segment

val seg_info : (bytes * bool) list -> segment -> seginfo

val cand_at : segment -> n -> cand option

val selected_cand : segment -> cand option

val seg_close : segment -> segment

val seg_reopen : segment -> nat -> segment * bool

type segmentation = { sg_input : bytes; sg_segs : segment list }

val segs_fwd : segmentation -> segment list

val sg_empty : segmentation -> bool

val sg_back : segmentation -> segment option

val sg_with_segs : segmentation -> segment list -> segmentation

val sg_set_back : segmentation -> segment -> segmentation

val sg_pop_back : segmentation -> segmentation

val sg_push_back : segmentation -> segment -> segmentation

val cur_start : segmentation -> nat

val cur_end : segmentation -> nat

val cur_len : segmentation -> nat

val forward : segmentation -> segmentation * bool

val trim : segmentation -> segmentation * bool

val has_finished : segmentation -> bool

val confirmed_pos_rev : segment list -> nat

val confirmed_pos : segmentation -> nat

val dispose : segment list -> nat -> segment list * nat

val reset_input : segmentation -> bytes -> segmentation

val add_segment : segmentation -> segment -> segmentation * bool

type err =
| ErrSubstr
| ErrNullDeref
| ErrBadRange
| ErrFuel
| ErrRecursion
| ErrDangling

type hrec = bytes * bool

type hist = hrec option

type context = { cx_input : bytes; cx_caret : nat; cx_comp : segmentation;
                 cx_opts : (bytes * bool) list; cx_err : err option;
                 cx_hist : hist }

val ctx_with_input : context -> bytes -> nat -> context

val ctx_with_comp : context -> segmentation -> context

val ctx_with_opts : context -> (bytes * bool) list -> context

val ctx_with_hist : context -> hist -> context

val ctx_fail : context -> err -> context

val ctx_check : context -> bool -> err -> context

val opt_auto_commit : bytes

val opt_dumb : bytes

val opt_soft_cursor : bytes

val opt_vertical : bytes

val opt_linear : bytes

val opt_horizontal : bytes

val opt_full_shape : bytes

val opt_ascii_mode : bytes

val opt_simplification : bytes

val opt_traditional : bytes

val opt_ascii_punct : bytes

val opts_get : (bytes * bool) list -> bytes -> bool

val opts_set : (bytes * bool) list -> bytes -> bool -> (bytes * bool) list

val get_option : context -> bytes -> bool

val is_composing : context -> bool

val has_menu : context -> bool

val ctx_selected_cand : context -> cand option

val comp_prompt : segmentation -> bytes

val caret_symbol : bytes

type preedit = { pe_text : bytes; pe_caret : nat; pe_sel_start : nat;
                 pe_sel_end : nat; pe_ok : bool }

type pacc = { pa_text : bytes; pa_caret : nat option; pa_sel_start : 
              nat; pa_sel_end : nat option; pa_end : nat; pa_ok : bool }

val preedit_step : bytes -> bytes -> nat -> bool -> pacc -> segment -> pacc

val preedit_loop : bytes -> bytes -> nat -> segment list -> pacc -> pacc

val comp_preedit : segmentation -> bytes -> nat -> bytes -> preedit

val ctx_preedit : context -> preedit

val commit_text_loop :
  bytes -> segment list -> ((bytes * nat) * bool) -> (bytes * nat) * bool

val comp_commit_text : segmentation -> bytes * bool

val comp_confirmed_text : segmentation -> bytes

val ctx_commit_text : context -> bytes * bool

val erase_first_tab : bytes -> bytes

val script_text_loop :
  bytes -> segment list -> ((bytes * nat) * bool) -> (bytes * nat) * bool

val comp_script_text : segmentation -> bytes * bool

val begin_editing_rev : segment list -> segment list

val begin_editing : context -> context

val drop_unselected : segment list -> segment list * bool

val clear_non_confirmed : context -> context * bool

val is_digit_byte : byte -> bool

val ends_with_digit : bytes -> bool

val hist_push_key : hist -> key -> hist

type hacc = { ha_back : hist; ha_last : (bytes * nat) option; ha_end : 
              nat; ha_ok : bool; ha_live : bool }

val kMaxRecords : nat

val hacc_push : hacc -> bytes -> bytes -> hacc

val hist_step : bool -> bytes -> hacc -> segment -> hacc

val hist_push_comp :
  bool -> hist -> segmentation -> bytes -> (hist * bool) * bool

type proc_id =
| PSpeller
| PPunctuator
| PSelector
| PNavigator
| PEditor
| PKeyBinder

type segm_id =
| SgAbc
| SgPunct
| SgFallback

type trans_id =
| TrPunct
| TrMain

type pdef =
| PdValue of bytes
| PdList of bytes list
| PdMap of bytes option * bytes list option

type kb_when =
| KwPredicting
| KwPaging
| KwHasMenu
| KwComposing
| KwAlways

type kb_action =
| KaSend of key list
| KaToggle of bytes
| KaSet of bytes
| KaUnset of bytes
| KaSelect of bytes

type kbinding = { kb_accept : key; kb_whence : kb_when; kb_act : kb_action }

type config = { cf_fluid : bool; cf_alphabet : bytes; cf_delims : bytes;
                cf_initials : bytes; cf_finals : bytes; cf_use_space : 
                bool; cf_page_size : z; cf_select_keys : bytes;
                cf_page_down_cycle : bool; cf_del_checked : bool;
                cf_dlog : bool; cf_processors : proc_id list;
                cf_segmentors : segm_id list; cf_translators : trans_id list;
                cf_punct_half : (byte * pdef) list;
                cf_punct_full : (byte * pdef) list;
                cf_punct_use_space : bool; cf_digit_seps : bytes;
                cf_digit_sep_commit : bool; cf_bindings : kbinding list;
                cf_kb_guard : bool; cf_hist_guard : bool }

type state = { st_ctx : context; st_nav_input : bytes; st_spans : nat list;
               st_commit : bytes; st_odd : ((bool * byte) * bool) list;
               st_kb_last : z }

val st_with_ctx : state -> context -> state

val abc_scan : config -> bytes -> bool -> bool -> nat

val abc_proceed : config -> segmentation -> segmentation

val fallback_proceed : segmentation -> segmentation

val pd_assoc : (byte * pdef) list -> byte -> pdef option

val punct_lookup : config -> (bytes * bool) list -> byte -> pdef option

val printable : byte -> bool

val is_digit_separator : config -> byte -> bool

val is_after_number : hist -> bool

val punct_proceed :
  config -> (bytes * bool) list -> hist -> segmentation -> segmentation * bool

val segmentor_proceed :
  config -> (bytes * bool) list -> hist -> segm_id -> segmentation ->
  segmentation * bool

val run_segmentors :
  config -> (bytes * bool) list -> hist -> segm_id list -> segmentation ->
  segmentation

val seg_round :
  config -> (bytes * bool) list -> hist -> segmentation -> segmentation

val calc_loop :
  config -> (bytes * bool) list -> hist -> nat -> nat -> segmentation ->
  segmentation * bool

val calc_segmentation :
  config -> (bytes * bool) list -> hist -> nat -> segmentation ->
  segmentation * bool

val translate_one :
  (bytes -> seginfo -> cand list) -> (bytes * bool) list -> bytes -> segment
  -> segment * bool

val translate_list :
  (bytes -> seginfo -> cand list) -> (bytes * bool) list -> bytes -> segment
  list -> segment list * bool

val translate_segs :
  (bytes -> seginfo -> cand list) -> (bytes * bool) list -> segmentation ->
  segmentation * bool

val compose : config -> (bytes -> seginfo -> cand list) -> context -> context

val push_input :
  config -> (bytes -> seginfo -> cand list) -> context -> byte -> context

val pop_input :
  config -> (bytes -> seginfo -> cand list) -> context -> nat ->
  context * bool

val delete_input :
  config -> (bytes -> seginfo -> cand list) -> context -> nat ->
  context * bool

val clear : config -> (bytes -> seginfo -> cand list) -> context -> context

val set_caret_pos :
  config -> (bytes -> seginfo -> cand list) -> context -> nat -> context

val set_input :
  config -> (bytes -> seginfo -> cand list) -> context -> bytes -> context

val reopen_previous_segment :
  config -> (bytes -> seginfo -> cand list) -> context -> context * bool

val clear_previous_segment :
  config -> (bytes -> seginfo -> cand list) -> context -> context * bool

val reopen_sel_rev : segment list -> nat -> segment list option

val reopen_previous_selection :
  config -> (bytes -> seginfo -> cand list) -> context -> context * bool

val refresh_non_confirmed :
  config -> (bytes -> seginfo -> cand list) -> context -> context * bool

val highlight :
  config -> (bytes -> seginfo -> cand list) -> context -> n -> context * bool

val set_option :
  config -> (bytes -> seginfo -> cand list) -> context -> bytes -> bool ->
  context

val shape_outside : byte -> bool

val shape_wide : byte -> bytes

val format_text : context -> bytes -> bytes

val sink : state -> bytes -> state

val commit :
  config -> (bytes -> seginfo -> cand list) -> state -> state * bool

val on_select : config -> (bytes -> seginfo -> cand list) -> state -> state

val select :
  config -> (bytes -> seginfo -> cand list) -> state -> n -> state * bool

val confirm_current_selection :
  config -> (bytes -> seginfo -> cand list) -> state -> state * bool

val delete_candidate : config -> state -> n -> state * bool

val delete_current_selection : config -> state -> state * bool

val byte_n : bytes -> nat -> n

val utf8_next : bytes -> n * nat

val label_half_shape : bytes

val label_full_shape : bytes

val in_range : n -> n -> n -> bool

val punct_comment : bytes -> bytes

val punct_cand : bytes -> seginfo -> cand

val shape_format : (bytes * bool) list -> bytes -> bytes

val punct_translate : config -> bytes -> seginfo -> cand list

val cand_compare : cand -> cand -> z

val elect : cand list list -> nat

val take_at : nat -> cand list list -> (cand * cand list list) option

val merge_loop : nat -> cand list list -> cand list

val nonempty : 'a1 list -> bool

val total_len : cand list list -> nat

val merge_translations : cand list list -> cand list

val translator_query :
  config -> (bytes -> seginfo -> cand list) -> trans_id -> bytes -> seginfo
  -> cand list

val all_translate :
  config -> (bytes -> seginfo -> cand list) -> bytes -> seginfo -> cand list

val express_editor_binds : ((z * z) * editor_action) list

val fluid_editor_binds : ((z * z) * editor_action) list

val nav_horizontal_binds : ((z * z) * nav_action) list

val nav_vertical_binds : ((z * z) * nav_action) list

val sel_hl_binds : ((z * z) * sel_action) list

val sel_hs_binds : ((z * z) * sel_action) list

val sel_vl_binds : ((z * z) * sel_action) list

val sel_vs_binds : ((z * z) * sel_action) list

val fluid_char_handler : char_handler

val express_char_handler : char_handler

type presult =
| PRejected
| PAccepted
| PNoop

val presult_is_noop : presult -> bool

val kbp_accept :
  (state -> 'a1 -> state * bool) -> 'a1 keymap -> state -> key -> state * bool

val kbp_process :
  (state -> 'a1 -> state * bool) -> 'a1 keymap -> bool -> state -> key ->
  state * presult

val spans_add_vertex : nat list -> nat -> nat list

val spans_add_span : nat list -> nat -> nat -> nat list

val spans_previous_stop : nat list -> nat -> nat

val spans_next_stop : nat list -> nat -> nat

val spans_count : nat list -> nat

val spans_end : nat list -> nat

val spans_has_vertex : nat list -> nat -> bool

val on_ctx : state -> (context -> context) -> state

val on_ctx_b : state -> (context -> context * bool) -> state * bool

val expecting_an_initial : config -> context -> bool

val speller_process :
  config -> (bytes -> seginfo -> cand list) -> state -> key -> state * presult

val is_linear_layout : context -> bool

val caret_at_end_of_input : context -> bool

val with_back : context -> (segment -> segment) -> context

val set_sel_paging : context -> z -> context

val sel_previous_page : config -> context -> context * bool

val sel_next_page : config -> context -> context * bool

val sel_previous_candidate : context -> context * bool

val sel_next_candidate : context -> context * bool

val sel_home : context -> context * bool

val sel_end : context -> context * bool

val run_sel_action : config -> state -> sel_action -> state * bool

val sel_keymap : context -> sel_action keymap

val select_candidate_at :
  config -> (bytes -> seginfo -> cand list) -> state -> z -> state * bool

val select_key_index : config -> key -> z

val selector_process :
  config -> (bytes -> seginfo -> cand list) -> state -> key -> state * presult

val begin_move : state -> state

val jump_left :
  config -> (bytes -> seginfo -> cand list) -> state -> nat -> state * bool

val jump_right :
  config -> (bytes -> seginfo -> cand list) -> state -> nat -> state * bool

val move_left :
  config -> (bytes -> seginfo -> cand list) -> state -> state * bool

val move_right :
  config -> (bytes -> seginfo -> cand list) -> state -> state * bool

val go_home_pos : segment list -> nat -> nat

val go_home :
  config -> (bytes -> seginfo -> cand list) -> state -> state * bool

val go_to_end :
  config -> (bytes -> seginfo -> cand list) -> state -> state * bool

val or_else : (state * bool) -> (state -> state * bool) -> state * bool

val run_nav_action :
  config -> (bytes -> seginfo -> cand list) -> state -> nav_action ->
  state * bool

val navigator_process :
  config -> (bytes -> seginfo -> cand list) -> state -> key -> state * presult

val punct_is_translated : context -> tag -> bool

val is_after_digit_separator : context -> bool

val odd_get : ((bool * byte) * bool) list -> bool -> byte -> bool

val odd_set :
  ((bool * byte) * bool) list -> bool -> byte -> bool ->
  ((bool * byte) * bool) list

val alternate_punct : context -> byte -> pdef -> context * bool

val pair_punct :
  config -> (bytes -> seginfo -> cand list) -> state -> bool -> byte ->
  state * bool

val map_front : (segment -> segment) -> segment list -> segment list

val reconvert_digit_separator :
  config -> (bytes -> seginfo -> cand list) -> context -> byte ->
  context * bool

val punctuator_process :
  config -> (bytes -> seginfo -> cand list) -> state -> key -> state * presult

val ed_revert_last_edit :
  config -> (bytes -> seginfo -> cand list) -> state -> state

val run_editor_action :
  config -> (bytes -> seginfo -> cand list) -> state -> editor_action ->
  state * bool

val editor_keymap : config -> editor_action keymap

val editor_char_handler : config -> char_handler

val editor_process :
  config -> (bytes -> seginfo -> cand list) -> state -> key -> state * presult

val shape_process : state -> key -> state * presult

val kb_rank : kb_when -> nat

val kb_insert : kbinding list -> kbinding -> kbinding list

val kb_vector : config -> key -> kbinding list

val kb_active : context -> kb_when -> bool

val reinterpret_paging_key :
  config -> (bytes -> seginfo -> cand list) -> state -> key -> state * bool

val kb_perform_action :
  config -> (bytes -> seginfo -> cand list) -> state -> kb_action -> state

val key_binder_process :
  config -> (bytes -> seginfo -> cand list) -> (state -> key -> state * bool)
  option -> bool -> state -> key -> state * presult

val proc_of :
  config -> (bytes -> seginfo -> cand list) -> (state -> key ->
  state * presult) -> proc_id -> state -> key -> state * presult

val processors :
  config -> (bytes -> seginfo -> cand list) -> (state -> key ->
  state * presult) -> (state -> key -> state * presult) list

val run_processors :
  (state -> key -> state * presult) list -> state -> key -> state * presult

val process_key_gen :
  config -> (bytes -> seginfo -> cand list) -> (state -> key ->
  state * presult) -> state -> key -> state * bool

val process_key_n :
  config -> (bytes -> seginfo -> cand list) -> nat -> bool -> state -> key ->
  state * bool

val kb_fuel : nat

val process_key :
  config -> (bytes -> seginfo -> cand list) -> state -> key -> state * bool

type op =
| OpKey of z * z
| OpSetInput of bytes
| OpSetCaret of n
| OpSelect of n
| OpSelectPage of n
| OpHighlight of n
| OpHighlightPage of n
| OpDelete of n
| OpDeletePage of n
| OpChangePage of bool
| OpCommit
| OpClear
| OpGetCommit
| OpGetContext
| OpGetInput
| OpGetCaret
| OpGetStatus
| OpSetOption of bytes * bool

type menu_obs = { mo_page_size : z; mo_page_no : z; mo_last : bool;
                  mo_hl : z; mo_cands : cand list; mo_select_keys : bytes }

type view = { v_commit : bytes; v_input : bytes; v_caret : nat;
              v_composing : bool; v_preedit : preedit option;
              v_preview : bytes; v_has_menu : bool; v_sel : n option;
              v_menu : menu_obs option; v_flags : bool list;
              v_back_end : nat option; v_confirmed : bytes }

type ret =
| RNone
| RBool of bool
| RCommit of bytes option

type obs =
| ObsCrash of err
| Obs of ret * view

val init_state : config -> state

val menu_view : config -> context -> menu_obs option * bool

val view_of : config -> state -> view * err option

val on_current_page :
  config -> state -> n -> (state -> n -> state * bool) -> state * bool

val do_highlight :
  config -> (bytes -> seginfo -> cand list) -> state -> n -> state * bool

val change_page :
  config -> (bytes -> seginfo -> cand list) -> state -> bool -> state * bool

val exec :
  config -> (bytes -> seginfo -> cand list) -> state -> op -> state * ret

val step :
  config -> (bytes -> seginfo -> cand list) -> state -> op -> state * obs

type delete_guard =
| DeleteChecked
| DeleteUnchecked
| DeleteUnrecognised

val delete_candidate_guard : delete_guard

type hist_guard =
| HistGuarded
| HistUnguarded
| HistUnrecognised

val commit_history_guard : hist_guard

type redirect_guard =
| RedirectGuarded
| RedirectUnguarded
| RedirectUnrecognised

val key_binder_redirect_guard : redirect_guard

val oracle_ch : byte -> n -> bytes

val join_spaces : bytes -> bytes

val ty_oracle : bytes

val oracle_cand : bytes -> nat -> nat -> n -> cand

val n_range : nat -> n -> n list

val opt_verif_short : bytes

val oracle_translate_full : bytes -> seginfo -> cand list

val oracle_translate : bytes -> seginfo -> cand list

val lower_alphabet : bytes

val delete_checked_in_source : bool

val hist_guard_in_source : bool

val kb_guard_in_source : bool

val default_digit_seps : bytes

val synth_cfg_gen : bool -> bool -> bool -> bool -> bool -> config

val synth_cfg_with : bool -> bool -> bool -> config

val synth_cfg : bool -> bool -> config

val synth_half_shape : (byte * pdef) list

val synth_full_shape : (byte * pdef) list

val synth_punct_cfg_gen : bool -> bool -> bool -> bool -> bool -> config

val synth_punct_cfg : bool -> bool -> config

val synth_bindings : kbinding list

val synth_kb_cfg_gen : bool -> bool -> bool -> bool -> bool -> config

val synth_kb_cfg : bool -> bool -> config

val synth_translate : config -> bytes -> seginfo -> cand list

type buf = { b_text : bytes; b_caret : nat }

type ekey =
| EkLetter of byte
| EkBackSpace
| EkDelete
| EkLeft
| EkRight
| EkHome
| EkEnd
| EkEscape

val buf_empty : buf

val buf_step : buf -> ekey -> buf

val ekey_is_letter : ekey -> bool

val buf_nonempty : buf -> bool

val handled_spec : buf -> ekey -> bool

val is_cont_byte : byte -> bool

val starts_clean : bytes -> bool

val char_boundary : bytes -> nat -> bool

val wf_preeditb : preedit -> bool

val wf_preedit_utf8b : preedit -> bool

val wf_menub : menu_obs -> n option -> bool

val wf_viewb : view -> bool

val wf_view_utf8b : view -> bool
