(** C15 - maintenance excludes sessions and loses no task under any interleaving.
    Property theorems only; each closed by [exact]/[apply] of a lemma of Dep/SchedProofs.v.
    [lock_scopes] is the table generated from the clang AST of the current
    src/rime/deployer.cc and service.cc; [c0] is the lock configuration read from it.
    "reach c0 h0 sc s": s is reached from the initial state (handler installed iff h0,
    client script sc) by SOME list of micro steps of any length - all interleavings. *)
From Coq Require Import List Bool.
From RimeV Require Import Dep.Sched Dep.SchedProofs Gen.LockScopes.
Import ListNotations.

Definition c0 : cfg := cfg_of_table lock_scopes.

(** The current source has the statement shapes the model's programs are ported from,
    every access of the worker's functions is either guarded by the mutex that guards
    the client's accesses to the same member or made when no worker exists; Notify tests the
    handler under the lock and ClearNotificationHandler takes it.  The StartWork/Run hand-over
    is the repaired one (running_ under Deployer::mutex_): so say the statement skeletons of
    Run/FinishWork/StartWork ([handover_fact], clang AST) and, independently, the access rows of
    the table ([ho c0] = [handover_of_table lock_scopes]).  Finite domain: the generated table. *)
Theorem C15_table_recognised :
  table_shape_ok lock_scopes = true /\ table_ok lock_scopes = true /\
  lk_ntest c0 = true /\ lk_clear c0 = true /\ lk_set c0 = true /\
  handover_fact = HFlag /\ ho c0 = handover_fact.
Proof. vm_compute. repeat split; reflexivity. Qed.
Print Assumptions C15_table_recognised.

Lemma c0_flag : nw c0 = true.
Proof. vm_compute. reflexivity. Qed.

(** race_free: in no reachable state do the next accesses of the worker and of the client
    (rows of the generated table) touch the same member, one of them writing, without a
    common mutex. *)
Theorem C15_race_free :
  forall h0 sc s, reach c0 h0 sc s -> race_state lock_scopes s = false.
Proof.
  intros h0 sc s. apply race_free_holds; [exact (proj1 (proj2 C15_table_recognised))|reflexivity].
Qed.
Print Assumptions C15_race_free.

(** the handler is never called empty and join never rethrows *)
Theorem C15_no_bad_call :
  forall h0 sc s, reach c0 h0 sc s -> ~ In EBadCall (log s) /\ ~ In EJoinThrow (log s).
Proof.
  intros h0 sc s. apply no_bad_call_holds;
    [exact (proj1 (proj2 (proj2 C15_table_recognised)))|exact (proj1 (proj2 (proj2 (proj2 C15_table_recognised))))].
Qed.
Print Assumptions C15_no_bad_call.

(** handler_excl: every handler invocation is of the handler installed by the latest
    set_notification_handler call that has returned; no set_notification_handler call returns
    while an invocation is in progress - so no invocation of a handler overlaps or follows
    the return of the call that replaced it - and at most one invocation is in progress.
    ([hcheck_log] = (number of returned set_notification_handler calls, inside?, ok?).) *)
Theorem C15_handler_excl :
  forall h0 sc s, reach c0 h0 sc s -> hcheck_log (log s) = (hgen s, inside_b (wpcs s), true).
Proof.
  intros h0 sc s. apply handler_excl_holds; vm_compute; reflexivity.
Qed.
Print Assumptions C15_handler_excl.

(** ... because the invocation happens under the mutex the setters take: the client's call waits *)
Theorem C15_setter_blocked :
  forall h0 sc s m b rest, reach c0 h0 sc s ->
  (wpcs s = Some (WN m N3) \/ wpcs s = Some (WN m N4)) ->
  cpcs s = CIdle -> script s = CSetHandler b :: rest -> step c0 s Client = None.
Proof.
  intros h0 sc s m b rest. apply setter_blocked_holds; vm_compute; reflexivity.
Qed.
Print Assumptions C15_setter_blocked.

Theorem C15_setter_blocked_nonvacuous : exists s,
  reach c0 true hx_script s /\ wpcs s = Some (WN MStart N4) /\ cpcs s = CIdle /\
  script s = [CSetHandler true; CJoin] /\ hd_error (log s) = Some (ENotify NStart).
Proof. exact (setter_blocked_nonvacuous c0 (proj1 (proj2 (proj2 C15_table_recognised)))). Qed.
Print Assumptions C15_setter_blocked_nonvacuous.

(** with the call outside the lock the clause is false of the model *)
Theorem C15_handler_excl_unlocked_refuted : exists s,
  reach cfg_call_unlocked true hx_script s /\ snd (hcheck_log (log s)) = false.
Proof. exact handler_excl_unlocked_refuted. Qed.
Print Assumptions C15_handler_excl_unlocked_refuted.

(** excl: while the worker is running (its future is not ready) the maintenance flag is set ... *)
Theorem C15_maintenance_flag :
  forall h0 sc s, reach c0 h0 sc s -> working s = true -> mm s = true.
Proof. exact (maint_flag_holds c0). Qed.
Print Assumptions C15_maintenance_flag.

(** ... and every session operation (create_session, process_key, get_context,
    find_session) is refused: it returns 0 in one step and leaves the sessions alone. *)
Theorem C15_excl :
  forall h0 sc s cl rest,
  reach c0 h0 sc s -> working s = true ->
  cpcs s = CIdle -> script s = cl :: rest -> session_call cl = true ->
  exists s' r, step c0 s Client = Some s' /\ log s' = ERet r 0 :: log s /\
               sessions s' = sessions s /\ cpcs s' = CIdle /\ accepted_pc (cpcs s') = false.
Proof. exact (excl_holds c0). Qed.
Print Assumptions C15_excl.

(** no session operation is ever past its disabled() test while a worker thread exists *)
Theorem C15_session_op_never_concurrent :
  forall h0 sc s, reach c0 h0 sc s -> accepted_pc (cpcs s) = true -> wpcs s = None /\ working s = false.
Proof. exact (session_op_excl_holds c0). Qed.
Print Assumptions C15_session_op_never_concurrent.

(** reopens: once the future is ready (IsWorking() false) session operations are accepted again *)
Theorem C15_reopens :
  forall h0 sc s cl rest,
  reach c0 h0 sc s -> working s = false ->
  cpcs s = CIdle -> script s = cl :: rest -> session_call cl = true ->
  (forall n, cl = CFind n -> sid_of s n <> 0) ->
  exists s', step c0 s Client = Some s' /\ log s' = EAccept :: log s /\ accepted_pc (cpcs s') = true.
Proof. exact (reopens_accept c0). Qed.
Print Assumptions C15_reopens.

Theorem C15_reopens_create :
  forall s, cpcs s = CCreate1 ->
  exists s', step c0 s Client = Some s' /\ cpcs s' = CIdle /\
             log s' = ERet RCreate (S (next_sid s)) :: log s /\ In (S (next_sid s)) (sessions s').
Proof. exact (reopens_create c0). Qed.
Print Assumptions C15_reopens_create.

(** task_at_most_once (and only scheduled tasks run) *)
Theorem C15_task_at_most_once :
  forall h0 sc s, reach c0 h0 sc s ->
  NoDup (execs (log s)) /\ (forall t, In t (execs (log s)) -> In t (scheds (log s))).
Proof. exact (task_at_most_once_holds c0). Qed.
Print Assumptions C15_task_at_most_once.

(** no task vanishes: scheduled = executed, being executed, or still queued *)
Theorem C15_task_conserved :
  forall h0 sc s t, reach c0 h0 sc s -> In t (scheds (log s)) ->
  In t (execs (log s)) \/ body_task (wpcs s) = [t] \/ In t (map fst (queue s)).
Proof. exact (task_conserved_holds c0). Qed.
Print Assumptions C15_task_conserved.

(** task_not_lost (the strongest form true of the hand-over before the repair; it still holds): when IsWorking() is false -
    is_maintenance_mode() returns False, join returns - every task scheduled before the
    last worker was started (the start_maintenance / sync_user_data that spawned it
    returned after ESpawn) has been executed. *)
Theorem C15_task_not_lost :
  forall h0 sc s t, reach c0 h0 sc s -> working s = false ->
  In t (scheds (before_last_spawn (log s))) -> In t (execs (log s)).
Proof.
  intros h0 sc s t Hr Hw Ht. eapply task_not_lost_holds; eauto. exact (proj1 (C15_no_bad_call _ _ _ Hr)).
Qed.
Print Assumptions C15_task_not_lost.

(** The full reading of "each scheduled task is run before the service reports that
    maintenance is over" HOLDS of the repaired hand-over, over all schedules and all client
    scripts: at a call boundary of the client (every start call made so far has returned), with
    IsWorking() false (is_maintenance_mode() returns False, join returns), every task scheduled
    at any time - by the client or from inside a handler invocation - has been executed.
    ([~ In EBadCall]: no notification threw; C15_no_bad_call shows that it never does.) *)
Theorem C15_every_task_runs_before_idle :
  forall h0 sc s t, reach c0 h0 sc s -> cpcs s = CIdle -> working s = false ->
  In t (scheds (log s)) -> In t (execs (log s)).
Proof.
  intros h0 sc s t Hr Hc Hw. apply (every_task_runs_before_idle_holds c0 c0_flag h0 sc s t Hr Hc Hw).
  exact (proj1 (C15_no_bad_call _ _ _ Hr)).
Qed.
Print Assumptions C15_every_task_runs_before_idle.

(** already when the worker gives up its role (running_ cleared by its exit test; its future
    need not be ready yet) nothing is left: at a call boundary, every scheduled task has run *)
Theorem C15_every_task_runs_when_worker_quits :
  forall h0 sc s t, reach c0 h0 sc s -> cpcs s = CIdle -> running s = false ->
  In t (scheds (log s)) -> In t (execs (log s)).
Proof.
  intros h0 sc s t Hr Hc Hq. apply (every_task_runs_when_worker_quits c0 h0 sc s t c0_flag Hr Hc Hq).
  exact (proj1 (C15_no_bad_call _ _ _ Hr)).
Qed.
Print Assumptions C15_every_task_runs_when_worker_quits.

(** a start call is refused (returns False) only while running_ is set, and then a worker that has
    not yet made its exit test exists (or the client itself is about to start one): the refused
    call's tasks are seen by that worker's exit test *)
Theorem C15_refused_start_has_a_worker :
  forall h0 sc s, reach c0 h0 sc s -> running s = true ->
  w_active (wpcs s) = true \/ c_decided (cpcs s) = true.
Proof. intros h0 sc s. exact (flag_running_worker c0 h0 sc s c0_flag). Qed.
Print Assumptions C15_refused_start_has_a_worker.

(** the schedule that used to lose tasks 3,4,5 (worker parked after its exit test, sync_user_data
    schedules three tasks and calls StartMaintenance), continued to the end of the script: the second
    call now starts a second worker and returns True, all six tasks have run when
    is_maintenance_mode() returns False.  Non-vacuity of C15_every_task_runs_before_idle: this state
    meets its hypotheses with tasks scheduled inside the exit window. *)
Theorem C15_window_closed : exists s,
  run_macro c0 (init true witness_window_script) witness_closed_sched = Some s /\
  cpcs s = CIdle /\ script s = [] /\ working s = false /\ running s = false /\ ~ In EBadCall (log s) /\
  hd_error (log s) = Some (ERet RIsMaint 0) /\ ~ In (ERet RSyncUser 0) (log s) /\
  scheds (log s) = [5; 4; 3; 2; 1; 0] /\ execs (log s) = [5; 4; 3; 2; 1; 0] /\ queue s = [].
Proof. exact (window_closed_witness c0 c0_flag). Qed.
Print Assumptions C15_window_closed.

(** tasks scheduled just before the worker's exit test: the call returns False, the same worker
    (one spawn) runs them *)
Theorem C15_window_seen : exists s,
  run_macro c0 (init true witness_window_script) witness_seen_sched = Some s /\
  cpcs s = CIdle /\ script s = [] /\ working s = false /\ ~ In EBadCall (log s) /\
  hd_error (log s) = Some (ERet RIsMaint 0) /\ In (ERet RSyncUser 0) (log s) /\
  execs (log s) = [5; 4; 3; 2; 1; 0] /\
  List.length (filter (fun e => match e with ESpawn => true | _ => false end) (log s)) = 1.
Proof. exact (window_seen_witness c0 c0_flag). Qed.
Print Assumptions C15_window_seen.

(** BEFORE the repair (hand-over through the future: StartWork tests IsWorking(), the worker's last
    HasPendingTasks() and its return are separate - librime up to c6a26de) the full reading is FALSE
    of the faithful model, whatever the lock configuration: the worker's exit window (finding 8,
    replayed on the real library, repaired by 9f55844).  [c_before] is the current lock
    configuration with that hand-over. *)
Definition c_before : cfg := with_handover HFuture c0.

Theorem C15_every_task_runs_before_idle_refuted :
  forall c, nw c = false -> ~ every_task_runs_before_idle_full c.
Proof. exact every_task_runs_before_idle_refuted. Qed.
Print Assumptions C15_every_task_runs_before_idle_refuted.

Theorem C15_window_witness : exists s,
  run_macro c_before (init true witness_window_script) witness_window_sched = Some s /\
  cpcs s = CIdle /\ script s = [] /\ working s = false /\ ~ In EBadCall (log s) /\
  hd_error (log s) = Some (ERet RIsMaint 0) /\ In (ERet RSyncUser 0) (log s) /\
  In 3 (scheds (log s)) /\ ~ In 3 (execs (log s)) /\ map fst (queue s) = [3; 4; 5].
Proof. exact (window_witness c_before eq_refl). Qed.
Print Assumptions C15_window_witness.

Theorem C15_window_witness_start_maintenance : exists s,
  run_macro c_before (init true witness_window_sm_script) witness_window_sched = Some s /\
  hd_error (log s) = Some (ERet RIsMaint 0) /\
  hd_error (tl (tl (tl (log s)))) = Some (ERet RStartMaint 1) /\
  In 3 (scheds (log s)) /\ ~ In 3 (execs (log s)).
Proof. exact (window_witness_start_maintenance c_before eq_refl). Qed.
Print Assumptions C15_window_witness_start_maintenance.

(** notif_bracketed: with a handler installed throughout, the "deploy" notifications form
    a prefix of (start (success|failure)+)* at every moment, and a complete word of that
    language whenever no worker exists (every start was followed by a result, nothing
    after the last result). *)
Theorem C15_notif_bracketed :
  forall sc s, forallb no_seth sc = true -> reach c0 true sc s ->
  bracket_of_log (log s) <> BErr /\
  (wpcs s = None -> bracket_of_log (log s) = BIdle \/ bracket_of_log (log s) = BResult).
Proof. exact (notif_bracketed_holds c0). Qed.
Print Assumptions C15_notif_bracketed.

(** Before the repair (table of commit 6f9c578) race freedom was false of the model,
    with the consequence that an empty std::function is called. *)
Theorem C15_unfixed_race_refuted : exists s,
  reach cfg_unfixed true witness_badcall_script s /\ race_state lock_scopes_unfixed s = true.
Proof. exact unfixed_race_refuted. Qed.
Print Assumptions C15_unfixed_race_refuted.

Theorem C15_unfixed_badcall_refuted : exists s,
  reach cfg_unfixed true witness_badcall_script s /\ In EBadCall (log s) /\ hd_error (log s) = Some EJoinThrow.
Proof. exact unfixed_badcall_refuted. Qed.
Print Assumptions C15_unfixed_badcall_refuted.

(** Non-vacuity: reachable states meeting the hypotheses of the theorems above. *)
Theorem C15_excl_nonvacuous : exists s,
  reach c0 true ex_script s /\ working s = true /\ cpcs s = CIdle /\ script s = CCreate :: [CJoin; CIsMaint; CCreate].
Proof. exact (excl_nonvacuous c0). Qed.
Print Assumptions C15_excl_nonvacuous.

Theorem C15_reopens_nonvacuous : exists s,
  reach c0 true ex_script s /\ working s = false /\ cpcs s = CIdle /\
  script s = [CCreate] /\ scheds (before_last_spawn (log s)) = [2; 1; 0] /\ execs (log s) = [2; 1; 0] /\
  rev (notifs (log s)) = [NStart; NFailure] /\ ~ In EBadCall (log s) /\
  hd_error (log s) = Some (ERet RIsMaint 0).
Proof. exact (reopens_nonvacuous c0 (proj1 (proj2 (proj2 C15_table_recognised)))). Qed.
Print Assumptions C15_reopens_nonvacuous.

(** RimeSyncUserData destroys every session BEFORE it schedules its tasks and starts the worker: while the call is in
    progress - in particular when it spawns the worker - the session table is empty.  The order is observable on the
    real code through the event "cleanup" (yield hook in Service::CleanupAllSessions) in every replayed schedule. *)
Theorem C15_sync_user_data_cleans_first :
  forall h0 sc s, reach c0 h0 sc s -> in_sync (cpcs s) = true -> sessions s = [].
Proof. exact (sync_user_data_worker_starts_clean c0). Qed.
Print Assumptions C15_sync_user_data_cleans_first.
