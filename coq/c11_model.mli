
val negb : bool -> bool

type nat =
| O
| S of nat

val fst : ('a1 * 'a2) -> 'a1

val snd : ('a1 * 'a2) -> 'a2

val length : 'a1 list -> nat

val app : 'a1 list -> 'a1 list -> 'a1 list

type comparison =
| Eq
| Lt
| Gt

val compOpp : comparison -> comparison

type byte =
| X00
| X01
| X02
| X03
| X04
| X05
| X06
| X07
| X08
| X09
| X0a
| X0b
| X0c
| X0d
| X0e
| X0f
| X10
| X11
| X12
| X13
| X14
| X15
| X16
| X17
| X18
| X19
| X1a
| X1b
| X1c
| X1d
| X1e
| X1f
| X20
| X21
| X22
| X23
| X24
| X25
| X26
| X27
| X28
| X29
| X2a
| X2b
| X2c
| X2d
| X2e
| X2f
| X30
| X31
| X32
| X33
| X34
| X35
| X36
| X37
| X38
| X39
| X3a
| X3b
| X3c
| X3d
| X3e
| X3f
| X40
| X41
| X42
| X43
| X44
| X45
| X46
| X47
| X48
| X49
| X4a
| X4b
| X4c
| X4d
| X4e
| X4f
| X50
| X51
| X52
| X53
| X54
| X55
| X56
| X57
| X58
| X59
| X5a
| X5b
| X5c
| X5d
| X5e
| X5f
| X60
| X61
| X62
| X63
| X64
| X65
| X66
| X67
| X68
| X69
| X6a
| X6b
| X6c
| X6d
| X6e
| X6f
| X70
| X71
| X72
| X73
| X74
| X75
| X76
| X77
| X78
| X79
| X7a
| X7b
| X7c
| X7d
| X7e
| X7f
| X80
| X81
| X82
| X83
| X84
| X85
| X86
| X87
| X88
| X89
| X8a
| X8b
| X8c
| X8d
| X8e
| X8f
| X90
| X91
| X92
| X93
| X94
| X95
| X96
| X97
| X98
| X99
| X9a
| X9b
| X9c
| X9d
| X9e
| X9f
| Xa0
| Xa1
| Xa2
| Xa3
| Xa4
| Xa5
| Xa6
| Xa7
| Xa8
| Xa9
| Xaa
| Xab
| Xac
| Xad
| Xae
| Xaf
| Xb0
| Xb1
| Xb2
| Xb3
| Xb4
| Xb5
| Xb6
| Xb7
| Xb8
| Xb9
| Xba
| Xbb
| Xbc
| Xbd
| Xbe
| Xbf
| Xc0
| Xc1
| Xc2
| Xc3
| Xc4
| Xc5
| Xc6
| Xc7
| Xc8
| Xc9
| Xca
| Xcb
| Xcc
| Xcd
| Xce
| Xcf
| Xd0
| Xd1
| Xd2
| Xd3
| Xd4
| Xd5
| Xd6
| Xd7
| Xd8
| Xd9
| Xda
| Xdb
| Xdc
| Xdd
| Xde
| Xdf
| Xe0
| Xe1
| Xe2
| Xe3
| Xe4
| Xe5
| Xe6
| Xe7
| Xe8
| Xe9
| Xea
| Xeb
| Xec
| Xed
| Xee
| Xef
| Xf0
| Xf1
| Xf2
| Xf3
| Xf4
| Xf5
| Xf6
| Xf7
| Xf8
| Xf9
| Xfa
| Xfb
| Xfc
| Xfd
| Xfe
| Xff

module Nat :
 sig
  val eqb : nat -> nat -> bool

  val leb : nat -> nat -> bool

  val ltb : nat -> nat -> bool
 end

val rev : 'a1 list -> 'a1 list

val map : ('a1 -> 'a2) -> 'a1 list -> 'a2 list

val fold_left : ('a1 -> 'a2 -> 'a1) -> 'a2 list -> 'a1 -> 'a1

val existsb : ('a1 -> bool) -> 'a1 list -> bool

val skipn : nat -> 'a1 list -> 'a1 list

type positive =
| XI of positive
| XO of positive
| XH

type n =
| N0
| Npos of positive

type z =
| Z0
| Zpos of positive
| Zneg of positive

module Pos :
 sig
  val succ : positive -> positive

  val add : positive -> positive -> positive

  val add_carry : positive -> positive -> positive

  val pred_double : positive -> positive

  val compare_cont : comparison -> positive -> positive -> comparison

  val compare : positive -> positive -> comparison

  val eqb : positive -> positive -> bool
 end

module N :
 sig
  val add : n -> n -> n

  val compare : n -> n -> comparison
 end

val to_N : byte -> n

val of_N : n -> byte option

module Z :
 sig
  val double : z -> z

  val succ_double : z -> z

  val pred_double : z -> z

  val pos_sub : positive -> positive -> z

  val add : z -> z -> z

  val opp : z -> z

  val sub : z -> z -> z

  val compare : z -> z -> comparison

  val ltb : z -> z -> bool

  val eqb : z -> z -> bool

  val min : z -> z -> z
 end

type bytes = byte list

val byte_of_N : n -> byte

val n_of_byte : byte -> n

type key = bytes

val bytes_cmp : bytes -> bytes -> comparison

val bytes_eqb : bytes -> bytes -> bool

type dval =
| VEnt of z * n
| VNum of n
| VStr

type dict = (key * dval) list

val get : dict -> key -> dval option

val put : key -> dval -> dict -> dict

val del : key -> dict -> dict

type wop =
| WPut of key * dval
| WDel of key

val apply_w : dict -> wop -> dict

val apply_batch : wop list -> dict -> dict

type db = { durable : dict; batch : wop list; in_txn : bool; loaded : bool }

type dbop =
| OOpen
| OClose
| OUpdate of key * dval
| OErase of key
| OBegin
| OCommit
| OAbort

val db_write : db -> wop -> db

val db_step : db -> dbop -> db

val db_run : db -> dbop list -> db

val db0 : dict -> db

val recover : db -> dict

val effective : db -> dbop -> bool

val unit_of : db -> dbop -> wop list

val units_of : db -> dbop list -> wop list list

val closed_count : db -> dbop list -> nat

val abs_units : dict -> wop list list -> dict

type dentry = { de_text : bytes; de_custom : bytes; de_code : bytes list }

val tab : byte

val space : byte

val meta_char : byte

val str : n list -> bytes

val tick_key : key

val db_name_key : key

val rime_version_key : key

val db_type_key : key

val user_id_key : key

val translate_code : bytes list -> bytes option

val entry_key : dentry -> key option

val old_commits : dval option -> z

val upd_writes : dict -> n -> dentry -> z -> wop list * n

type seg = { sg_rec : bool; sg_conf : bool; sg_entry : dentry;
             sg_elems : dentry list }

type centry = { ce_text : bytes; ce_code : bytes list; ce_elems : dentry list }

val ce_empty : centry

val ce_append : centry -> seg -> centry

val ce_entry : centry -> dentry

type tkind =
| KScript
| KTable

val enc_prefix : bytes

val has_prefix : bytes -> bytes -> bool

val bless : dentry -> dentry

val memorize_calls : tkind -> centry -> (dentry * z) list

val commit_calls : tkind -> seg list -> centry -> (dentry * z) list

val calls_writes : dict -> n -> (dentry * z) list -> wop list * n

val commit_writes : dict -> n -> tkind -> seg list -> wop list * n

type ud = { ud_tick : n; ud_time : z }

type pst = { pdb : db; puds : (nat * ud) list; plog : dbop list }

val find_ud : (nat * ud) list -> nat -> ud option

val get_ud : (nat * ud) list -> nat -> ud

val set_ud : (nat * ud) list -> nat -> ud -> (nat * ud) list

val remove_ud : (nat * ud) list -> nat -> (nat * ud) list

val set_tick : (nat * ud) list -> nat -> n -> (nat * ud) list

val set_time : (nat * ud) list -> nat -> z -> (nat * ud) list

val op_of_wop : wop -> dbop

val issue : pst -> dbop -> pst

val issue_w : pst -> wop -> pst

val with_uds : pst -> (nat * ud) list -> pst

val view : db -> dict

val update_entry : pst -> nat -> (dentry * z) -> pst

val commit_pending : pst -> pst

val new_transaction : pst -> nat -> z -> pst

val revert_recent : pst -> nat -> z -> pst * bool

val fetch_tick_val : dict -> n option

val fetch_tick : pst -> nat -> pst * bool

val metadata_writes : wop list

val db_open : pst -> pst

val load : pst -> nat -> pst

val on_commit : pst -> nat -> tkind -> z -> seg list -> pst

val on_key : pst -> nat -> bool -> bool -> z -> pst

val destroy : pst -> nat -> pst

type event =
| ELoad of nat
| EFetchTick of nat
| ECommit of nat * tkind * z * seg list
| EDelete of nat * dentry
| EKey of nat * bool * bool * z
| EFinish of nat
| EDestroy of nat

val ev_step : pst -> event -> pst

val pst0 : dict -> pst

val run_events : dict -> event list -> pst

val ops_of : dict -> event list -> dbop list

type sst = { s_dict : dict; s_pend : wop list option; s_loaded : bool;
             s_uds : (nat * ud) list }

val s_view : sst -> dict

val spec_writes : sst -> wop list -> sst * wop list list

val spec_flush : sst -> sst * wop list list

val spec_with_uds : sst -> (nat * ud) list -> sst

val spec_fetch_tick : sst -> nat -> sst * bool

val spec_step : sst -> event -> sst * wop list list

val spec_run : sst -> event list -> sst * wop list list

val sst0 : dict -> sst

val spec_units : dict -> event list -> wop list list

val reopen : dict -> dict
