(** C18 – placeholder while the proofs are being written. *)
From Coq Require Import List.
From RimeV Require Import Cfg.Tree Cfg.Path.
Theorem C18_traverse_nil : forall t, traverse t nil = t.
Proof. reflexivity. Qed.
Print Assumptions C18_traverse_nil.
