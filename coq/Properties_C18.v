(** C18 – config trees survive save and load, and getters read back what setters wrote.
    Property theorems only; each closed by [exact] of a lemma proved in coq/Cfg/*Proofs.v. *)
From Coq Require Import List NArith ZArith Bool.
From Coq.Strings Require Import Byte.
From RimeV Require Import Base.Bytes Cfg.Tree Cfg.Path Cfg.Typed Cfg.Api Cfg.Yaml
  Cfg.PathProofs Cfg.TypedProofs Cfg.FormsProofs Cfg.YamlProofs Cfg.TreeProofs Cfg.RoundTrip.
Import ListNotations.

(** ** getters read back what setters wrote *)

(** On the resolved steps of the written path (map key / list index as
    [ResolveListIndex] computed them during the write) the written item is read
    back – for every tree, every key list, every form of list reference, with no
    side condition at all. *)
Theorem C18_get_after_set_resolved :
  forall t keys v, traverse_r (write_at t keys v) (map step_of (resolve_w t keys)) = v.
Proof. exact write_then_read_resolved. Qed.
Print Assumptions C18_get_after_set_resolved.

(** What each textual form resolves to. *)
Theorem C18_key_forms_meaning : forall l,
  (forall n, (n < two32)%N -> resolve_index l (key_text (FIdx n)) = N.to_nat n /\ will_insert (key_text (FIdx n)) = false) /\
  (forall n, (n < two32)%N -> resolve_index l (key_text (FBefore n)) = N.to_nat n /\ will_insert (key_text (FBefore n)) = true) /\
  (forall n, (n + 1 < two32)%N -> resolve_index l (key_text (FAfter n)) = S (N.to_nat n) /\ will_insert (key_text (FAfter n)) = true) /\
  ((N.of_nat (length l) < two32)%N -> resolve_index l (key_text FNext) = length l /\ will_insert (key_text FNext) = false) /\
  ((N.of_nat (length l) < two32)%N -> resolve_index l (key_text FLast) = length l - 1 /\ will_insert (key_text FLast) = false).
Proof. exact form_index. Qed.
Print Assumptions C18_key_forms_meaning.

(** API level, path strings: after [config_set_string/int/bool] succeeded at a
    path made of map keys, "@N", "@next", "@last", "@before N", "@after N", the
    matching getter at the same path (for "@next": at "@last") returns the value. *)
Theorem C18_get_after_set_string : forall t fs s t',
  fs <> [] -> Forall wf_form fs -> sizes_ok t fs ->
  cfg_set_string t (path_text fs) s = Some t' -> cfg_get_string t' (path_readback fs) = Some s.
Proof. exact get_after_set_string. Qed.
Print Assumptions C18_get_after_set_string.

Theorem C18_get_after_set_int : forall t fs z t',
  fs <> [] -> Forall wf_form fs -> sizes_ok t fs -> (int_min <= z <= int_max)%Z ->
  cfg_set_int t (path_text fs) z = Some t' -> cfg_get_int t' (path_readback fs) = Some z.
Proof. exact get_after_set_int. Qed.
Print Assumptions C18_get_after_set_int.

Theorem C18_get_after_set_bool : forall t fs b t',
  fs <> [] -> Forall wf_form fs -> sizes_ok t fs ->
  cfg_set_bool t (path_text fs) b = Some t' -> cfg_get_bool t' (path_readback fs) = Some b.
Proof. exact get_after_set_bool. Qed.
Print Assumptions C18_get_after_set_bool.

(** Non-vacuity: a write through a map key, "@2", "@before 0" and a map key on
    the empty config succeeds, creates the containers, and reads back; "@next"
    is read back at "@last" (and not at "@next"). *)
Theorem C18_get_after_set_example :
  (Forall wf_form ex_path /\ sizes_ok Null ex_path) /\
  (exists t', cfg_set_int Null (path_text ex_path) (-7)%Z = Some t' /\
              cfg_get_int t' (path_readback ex_path) = Some (-7)%Z /\
              t' = Map [(["m"]%byte, Lst [Null; Null; Lst [Map [(["k"]%byte, Scalar ["-"; "7"]%byte)]]])]) /\
  (exists t', cfg_set_string (Lst [Scalar ["a"]%byte]) (path_text [FNext]) ["b"]%byte = Some t' /\
              cfg_get_string t' (path_readback [FNext]) = Some ["b"]%byte /\ cfg_get_string t' (path_text [FNext]) = None).
Proof. exact (conj ex_forms_ok (conj ex_set_then_get ex_next_then_last)). Qed.
Print Assumptions C18_get_after_set_example.

(** ** values of other types convert as documented or fail cleanly *)
Theorem C18_conversions_after_set : forall t fs t',
  fs <> [] -> Forall wf_form fs -> sizes_ok t fs ->
  (forall z, cfg_set_int t (path_text fs) z = Some t' ->
     cfg_get_string t' (path_readback fs) = Some (set_int z) /\ cfg_get_bool t' (path_readback fs) = None) /\
  (forall b, cfg_set_bool t (path_text fs) b = Some t' ->
     cfg_get_string t' (path_readback fs) = Some (set_bool b) /\ cfg_get_int t' (path_readback fs) = None).
Proof. exact get_other_type_after_set. Qed.
Print Assumptions C18_conversions_after_set.

Theorem C18_typed_text_roundtrip :
  (forall b, get_bool (set_bool b) = Some b) /\
  (forall z, (int_min <= z <= int_max)%Z -> get_int (set_int z) = Some z) /\
  get_int ["0"; "x"; "1"; "F"]%byte = Some 31%Z /\ get_int [" "; "4"; "2"; "a"; "b"; "c"]%byte = Some 42%Z /\
  get_int ["2"; "1"; "4"; "7"; "4"; "8"; "3"; "6"; "4"; "8"]%byte = None /\ get_bool ["T"; "r"; "U"; "e"]%byte = Some true.
Proof.
  exact (conj get_set_bool (conj get_set_int (conj get_int_hex_text (conj get_int_trailing_junk
           (conj get_int_out_of_range get_bool_case_insensitive))))).
Qed.
Print Assumptions C18_typed_text_roundtrip.

(** A write that would have to pass through a scalar, or through a container of
    the other kind, is refused ([config_set] = [None]: the API call returns
    False and the tree is the old one); typed getters on anything but a scalar
    report failure. *)
Theorem C18_wrong_kind_fails_cleanly :
  (forall t pre s k ks v, (forall x, In x pre -> x <> []) -> traverse t pre = Scalar s -> k <> [] ->
     write_ok t (pre ++ k :: ks) = false /\
     (path_keys (join (pre ++ k :: ks)) = pre ++ k :: ks -> config_set t (join (pre ++ k :: ks)) v = None)) /\
  (forall l k ks, is_list_ref k = false -> k <> [] -> write_ok (Lst l) (k :: ks) = false) /\
  (forall m k ks, is_list_ref k = true -> write_ok (Map m) (k :: ks) = false) /\
  (forall t p, (forall s, config_get t p <> Scalar s) ->
     cfg_get_string t p = None /\ cfg_get_int t p = None /\ cfg_get_bool t p = None).
Proof. exact wrong_kind_fails_cleanly. Qed.
Print Assumptions C18_wrong_kind_fails_cleanly.

(** ** unrelated paths are unchanged *)
(** Any resolved read path that leaves the written path at some step reads the
    same node afterwards; behind an "@before/@after" insertion point the node
    is found one index higher ([unrelated] computes where). *)
Theorem C18_set_frame : forall keys t v qs qs',
  (forall k, In k keys -> k <> []) -> write_ok t keys = true ->
  unrelated (resolve_w t keys) qs = Some qs' ->
  traverse_r (write_at t keys v) qs' = traverse_r t qs.
Proof. exact write_frame. Qed.
Print Assumptions C18_set_frame.

Theorem C18_set_frame_other_key : forall t k ks v k' qs,
  k <> [] -> is_list_ref k = false -> is_list_ref k' = false -> k' <> k -> write_ok t (k :: ks) = true ->
  traverse (write_at t (k :: ks) v) (k' :: qs) = traverse t (k' :: qs).
Proof. exact write_frame_other_key. Qed.
Print Assumptions C18_set_frame_other_key.

(** ** the scalar codec *)
(** Every scalar of the property's domain is read back from the bytes
    [EmitScalar] + yaml-cpp write for it, in block context (literal indentation
    [li], scanner's least indentation [minlit] <= [li]) and in flow context.
    Domain [wf_scalar]: UTF-8 of Unicode scalar values other than noncharacters;
    a text with a line break (LF, CR LF or lone CR) must end in exactly one line
    break, read as: it ends in LF, optionally preceded by one CR (a final CR LF
    is ONE break), and what precedes that break does not end in LF or CR.  Texts
    with CR LF endings, mixed endings and lone CRs inside are therefore in. *)
Theorem C18_scalar_roundtrip : forall s ctx,
  wf_scalar s -> wf_ctx ctx -> load_scalar ctx (emit_scalar ctx s) = Some (s, []).
Proof. exact scalar_roundtrip. Qed.
Print Assumptions C18_scalar_roundtrip.

(** The same inside a document: whatever may follow a scalar of the chosen style
    (anything after a double-quoted scalar; anything that does not continue the
    word after a plain one; after a literal block the end of the document, or
    empty lines and then a line indented by less than the block) is left
    untouched and the reader stands at it. *)
Theorem C18_scalar_roundtrip_in_context : forall s ctx rest rest',
  wf_scalar s -> wf_ctx ctx -> follows (ctx_li ctx) (scalar_fmt (ctx_flow ctx) s) rest rest' ->
  load_scalar ctx (emit_scalar ctx s ++ rest) = Some (s, rest').
Proof. exact scalar_roundtrip_in_context. Qed.
Print Assumptions C18_scalar_roundtrip_in_context.

(** Companion: the line-break condition is not even needed for the repaired
    code – every valid text round-trips; and a text with a CR is always written
    double-quoted, never as a literal block. *)
Theorem C18_scalar_roundtrip_any_text : forall s ctx,
  valid_text s -> wf_ctx ctx -> load_scalar ctx (emit_scalar ctx s) = Some (s, []).
Proof. exact scalar_roundtrip_any_text. Qed.
Print Assumptions C18_scalar_roundtrip_any_text.

Theorem C18_cr_text_is_double_quoted : forall s ctx,
  existsb (fun c => N.eqb c 13) s = true -> emit_scalar ctx s = dq_write s.
Proof. exact cr_text_is_double_quoted. Qed.
Print Assumptions C18_cr_text_is_double_quoted.

Theorem C18_scalar_domain_cr :
  wf_scalar [111; 110; 101; 13; 10]%N /\ wf_scalar [97; 13; 10; 98; 13; 10]%N /\ wf_scalar [97; 10; 98; 13; 10]%N /\
  wf_scalar [97; 13; 98; 10]%N /\ wf_scalar [13; 10]%N /\
  ~ multi_line_ok [97; 13]%N /\ ~ multi_line_ok [97; 10; 13; 10]%N /\ ~ multi_line_ok [97; 13; 13; 10]%N /\ ~ multi_line_ok [97; 13; 98]%N.
Proof. exact wf_scalar_cr_examples. Qed.
Print Assumptions C18_scalar_domain_cr.

Theorem C18_scalar_domain_inhabited :
  wf_scalar [] /\ wf_scalar [32; 97; 10]%N /\ wf_scalar [97; 10; 98; 10]%N /\ wf_scalar [110; 117; 108; 108]%N /\
  wf_scalar [228; 184; 173; 10]%N /\ wf_scalar [45; 32; 34; 92; 1]%N.
Proof. exact wf_scalar_examples. Qed.
Print Assumptions C18_scalar_domain_inhabited.

(** The finding: with [EmitScalar] as it was before commit "fix: quote config
    strings that the YAML literal or plain style cannot reload" the statement is
    false – " a\n" (in the domain) is read back as "a\n". *)
Theorem C18_scalar_roundtrip_before_fix_refuted :
  exists s ctx, wf_scalar s /\ wf_ctx ctx /\ load_scalar ctx (emit_scalar_v0 ctx s) <> Some (s, []).
Proof. exact scalar_roundtrip_v0_refuted. Qed.
Print Assumptions C18_scalar_roundtrip_before_fix_refuted.

(** Known finding kept outside [wf_scalar]: a noncharacter (here U+FFFE, valid
    UTF-8) is replaced by U+FFFD by yaml-cpp's emitter. *)
Theorem C18_scalar_roundtrip_noncharacter_refuted :
  exists s ctx, wf_ctx ctx /\ s = encode 65534 /\ load_scalar ctx (emit_scalar ctx s) <> Some (s, []).
Proof. exact scalar_roundtrip_noncharacter_refuted. Qed.
Print Assumptions C18_scalar_roundtrip_noncharacter_refuted.

(** ** whole trees *)
(** Every config tree of the domain survives save and load, entries with null
    values aside: for every tree whose maps are strictly sorted ([wf_item], the
    invariant of std::map) and whose scalars and keys are in the scalar domain,
    keys shorter than 256 bytes ([scalars_wf]; longer keys are the known
    finding), loading the emitted document yields the tree without its null
    entries.  Unbounded in depth, width and text length: block sequences and maps
    to depth 2 with their indentation, flow style from depth 3, literal keys in
    the long "? key" form, empty containers, null list elements and null map
    values pruned.  Proved by mutual induction over items (Cfg/RoundTrip.v:
    [flow_all] for flow context, [block_all] for block context with the group
    indentation, the literal indentation and the output column as parameters). *)
Theorem C18_tree_roundtrip : forall t,
  wf_item t = true -> scalars_wf t -> load_octs (emit_octs t) = Some (prune t).
Proof. exact tree_roundtrip. Qed.
Print Assumptions C18_tree_roundtrip.

(** Non-vacuity: a tree of the domain with a literal key, a pruned null entry, a
    text starting with a blank and a flow collection; the emitted document is
    spelled out. *)
Theorem C18_tree_roundtrip_example :
  (wf_item ex_tree = true /\ scalars_wf ex_tree) /\
  load_octs (emit_octs ex_tree) = Some (prune ex_tree) /\ prune ex_tree <> ex_tree.
Proof. exact (conj ex_tree_in_domain (conj (proj1 ex_tree_roundtrip) (proj1 (proj2 ex_tree_roundtrip)))). Qed.
Print Assumptions C18_tree_roundtrip_example.

(** A finite-domain sanity sweep, now subsumed by [C18_tree_roundtrip]: the model loader
    inverts the model emitter on every one of the 34782 trees of the generated
    family [sweep_trees] (all lists/maps of at most two entries over null and four
    scalar styles, wrapped up to four times in lists and maps with plain and
    literal keys: depth up to 6, block, flow, long-key and empty-container
    layouts).  Evaluated by the kernel's [vm_compute] over the list itself. *)
Theorem C18_tree_roundtrip_model_sweep :
  N.of_nat (length sweep_trees) = 34782%N /\
  forallb (fun t => wf_item t && roundtrips t) sweep_trees = true.
Proof. exact (conj sweep_size tree_roundtrip_sweep). Qed.
Print Assumptions C18_tree_roundtrip_model_sweep.
