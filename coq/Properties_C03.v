(** C03 – what is committed is what was shown, and it is delivered exactly
    once.  Property theorems only; each closed by a lemma proved elsewhere. *)
From Coq Require Import List ZArith NArith Bool Lia.
From Coq.Strings Require Import Byte.
From RimeV Require Import Base.Bytes Eng.Keys Eng.Cand Eng.Segm Eng.Ctx Eng.Engine Eng.Procs Eng.Api Eng.Oracle
     Eng.Spec Eng.WfProofs Eng.CommitProofs Eng.TotalFull Eng.TotalProofs Eng.ShapeFacts.
Import ListNotations.

(** (1) With full-shape conversion off, in ANY state (any configuration, any
    translator), commit_composition appends exactly the commit preview that
    get_context reported immediately before, leaves the session not
    composing, and returns whether there is text to fetch. *)
Theorem C03_commit_is_preview :
  forall cfg translate (s : state),
    get_option (st_ctx s) opt_full_shape = false ->
    let v := fst (view_of cfg s) in
    let r := exec cfg translate s OpCommit in
    st_commit (fst r) = st_commit s ++ v_preview v /\
    is_composing (st_ctx (fst r)) = false /\
    snd r = RBool (negb (match st_commit (fst r) with [] => true | _ => false end)).
Proof. exact commit_is_preview. Qed.
Print Assumptions C03_commit_is_preview.

(** (1') The same call with full-shape conversion on or off (the property's clause is the off case; this is what the
    code does outside it, so that the check can tell a change of the formatter from a change of the commit path):
    what is delivered is ShapeFormatter::Format of the preview reported just before ... *)
Theorem C03_commit_is_formatted_preview :
  forall cfg translate (s : state),
    let v := fst (view_of cfg s) in
    let r := exec cfg translate s OpCommit in
    st_commit (fst r) = st_commit s ++ (if is_composing (st_ctx s) then format_text (st_ctx s) (v_preview v) else []) /\
    is_composing (st_ctx (fst r)) = false.
Proof. exact commit_any_shape. Qed.
Print Assumptions C03_commit_is_formatted_preview.

(** ... and the formatter touches printable ASCII only: a text without a byte in 0x20 .. 0x7e - every candidate text of
    a Chinese dictionary - is delivered exactly as previewed whatever the option says; otherwise each such byte grows
    by two (its three-byte full-width form) and nothing else changes length. *)
Theorem C03_formatter_keeps_non_ascii :
  forall c t, forallb shape_outside t = true -> format_text c t = t.
Proof. exact format_text_no_ascii. Qed.
Print Assumptions C03_formatter_keeps_non_ascii.

Theorem C03_formatter_length :
  forall c t,
    length (format_text c t) = length t \/
    (get_option c opt_full_shape = true /\
     length (format_text c t) = length t + 2 * length (filter (fun b => negb (shape_outside b)) t)).
Proof. exact format_text_length. Qed.
Print Assumptions C03_formatter_length.

(** ... and the formatter of the model is the one in src/rime/gear/shape.cc today: the statements of
    ShapeFormatter::Format as gen/eng_facts.py reads them on every run (Gen/EngFacts.v), evaluated on a signed char,
    agree with the model on all 256 byte values (so "full-shape off" in (1) is the only way the preview is kept for
    ASCII, and a change of the formatter's constants breaks this statement before any history is run). *)
Theorem C03_formatter_is_the_source_s :
  RimeV.Gen.EngFacts.shape_facts_recognised = true /\
  forall b, shape_outside b = src_outside b /\ shape_wide b = src_wide b.
Proof. exact shape_model_is_source. Qed.
Print Assumptions C03_formatter_is_the_source_s.

(** (2) Selecting a candidate [cd] (any index [i] at which the current segment
    [g] has one) that covers the rest of the input – after Segment::Close the
    segment ends at min (cd.end, g.end) = |input| – makes the text to commit
    the text of the earlier segments ([comp_confirmed_text]) followed by the
    candidate's text: an auto-committing editor ([_auto_commit], the express
    editor) delivers it at once and stops composing; otherwise it is the new
    commit preview (which (1) says commit_composition will deliver).
    Outside the switcher ([dumb] off), full_shape off. *)
Theorem C03_select_covering_rest :
  forall cfg translate (s : state) g r (i : N) cd,
    sg_segs (cx_comp (st_ctx s)) = g :: r ->
    cand_at g i = Some cd ->
    covers_rest (st_ctx s) g cd ->
    length (sg_input (cx_comp (st_ctx s))) <= length (cx_input (st_ctx s)) ->
    get_option (st_ctx s) opt_dumb = false ->
    get_option (st_ctx s) opt_full_shape = false ->
    let confirmed := comp_confirmed_text (cx_comp (st_ctx s)) in
    let s' := fst (select cfg translate s i) in
    snd (select cfg translate s i) = true /\
    if get_option (st_ctx s) opt_auto_commit
    then st_commit s' = st_commit s ++ confirmed ++ c_text cd /\ is_composing (st_ctx s') = false
    else st_commit s' = st_commit s /\ fst (ctx_commit_text (st_ctx s')) = confirmed ++ c_text cd
         /\ is_composing (st_ctx s') = true.
Proof. exact select_covering_rest. Qed.
Print Assumptions C03_select_covering_rest.

(** … and the side condition of (2) on the state holds in every state reachable
    by API calls (an invariant of C02's proof; same hypotheses). *)
Theorem C03_reachable_states_meet_side_condition :
  forall cfg translate,
    (1 <= cf_page_size cfg)%Z ->
    (forall i s, (Z.of_nat (length (translate i s)) + cf_page_size cfg < 2147483648)%Z) ->
    cf_del_checked cfg = true ->
    forall ops, let c := st_ctx (fst (run cfg translate ops)) in
                length (sg_input (cx_comp c)) <= length (cx_input c) /\ cx_caret c <= length (cx_input c).
Proof. exact reachable_comp_input_le. Qed.
Print Assumptions C03_reachable_states_meet_side_condition.

(** (3a) Every API operation other than get_commit only APPENDS to the text
    waiting for the client: nothing committed earlier is lost, changed or
    reordered by later calls. *)
Theorem C03_only_get_commit_consumes :
  forall cfg translate s o, o <> OpGetCommit ->
    exists d, st_commit (fst (step cfg translate s o)) = st_commit s ++ d.
Proof. exact step_appends. Qed.
Print Assumptions C03_only_get_commit_consumes.

(** (3b) Exactly once, in order: over ANY history of API operations (no
    operation having reached an undefined C++ operation), the concatenation of
    everything get_commit returned, plus the text still waiting, is the
    concatenation of what the operations delivered, in order. *)
Theorem C03_exactly_once :
  forall cfg translate ops,
    forallb not_crash (snd (run cfg translate ops)) = true ->
    concat (map read_of (snd (run cfg translate ops))) ++ st_commit (fst (run cfg translate ops))
    = concat (deliveries cfg translate (init_state cfg) ops).
Proof. exact exactly_once. Qed.
Print Assumptions C03_exactly_once.

(** (3c) get_commit returns the whole waiting text and empties the buffer; an
    immediate second read returns nothing. *)
Theorem C03_read_takes_all :
  forall cfg translate s,
    not_crash (snd (step cfg translate s OpGetCommit)) = true ->
    read_of (snd (step cfg translate s OpGetCommit)) = st_commit s /\
    st_commit (fst (step cfg translate s OpGetCommit)) = [] /\
    (exists v, snd (step cfg translate s OpGetCommit)
               = Obs (RCommit (match st_commit s with [] => None | t => Some t end)) v).
Proof. exact get_commit_step. Qed.
Print Assumptions C03_read_takes_all.

Theorem C03_second_read_empty :
  forall cfg translate s,
    let r1 := step cfg translate s OpGetCommit in
    let r2 := step cfg translate (fst r1) OpGetCommit in
    not_crash (snd r1) = true -> not_crash (snd r2) = true ->
    read_of (snd r2) = [] /\ exists v, snd r2 = Obs (RCommit None) v.
Proof. exact second_read_empty. Qed.
Print Assumptions C03_second_read_empty.

(** (3b', 3c') The no-crash hypothesis of (3b)/(3c) discharged by C01's totality
    theorem (Eng/TotalFull.v): for translators whose candidates lie inside their
    segment ([cands_fit], true of the oracle translator) no history reaches an
    undefined operation, so exactly-once holds for ALL histories, and the two
    read theorems hold in every reachable state.  (Round 3: [plain_chain] = the chains
    C01_core_total covers, see Properties_C01.v; the theorems (1), (2), (3a)-(3c) above hold
    for EVERY chain of the model, punctuator chains included.) *)
Theorem C03_exactly_once_total :
  forall cfg translate, total_hyps cfg translate -> plain_chain cfg -> cands_fit translate ->
  forall ops,
    concat (map read_of (snd (run cfg translate ops))) ++ st_commit (fst (run cfg translate ops))
    = concat (deliveries cfg translate (init_state cfg) ops).
Proof. exact exactly_once_total. Qed.
Print Assumptions C03_exactly_once_total.

Theorem C03_read_takes_all_total :
  forall cfg translate, total_hyps cfg translate -> plain_chain cfg -> cands_fit translate ->
  forall ops, let s := fst (run cfg translate ops) in
    read_of (snd (step cfg translate s OpGetCommit)) = st_commit s /\
    st_commit (fst (step cfg translate s OpGetCommit)) = [] /\
    (exists v, snd (step cfg translate s OpGetCommit)
               = Obs (RCommit (match st_commit s with [] => None | t => Some t end)) v).
Proof. exact read_takes_all_total. Qed.
Print Assumptions C03_read_takes_all_total.

Theorem C03_second_read_empty_total :
  forall cfg translate, total_hyps cfg translate -> plain_chain cfg -> cands_fit translate ->
  forall ops, let s := fst (run cfg translate ops) in
    let r1 := step cfg translate s OpGetCommit in
    let r2 := step cfg translate (fst r1) OpGetCommit in
    read_of (snd r2) = [] /\ exists v, snd r2 = Obs (RCommit None) v.
Proof. exact second_read_empty_total. Qed.
Print Assumptions C03_second_read_empty_total.

(** … and the synthetic schemas meet the hypotheses of the three theorems above *)
Theorem C03_synth_meets_total_hyps :
  forall fluid dlog, total_hyps (synth_cfg fluid dlog) oracle_translate /\ cands_fit oracle_translate.
Proof.
  intros fluid dlog. split; [|exact oracle_cands_fit].
  split; [cbn; lia|]. split; [|reflexivity]. intros i s. pose proof (InvProofs.oracle_translate_length i s). cbn. lia.
Qed.
Print Assumptions C03_synth_meets_total_hyps.

(** Non-vacuity on the synthetic schemas: a partial selection followed by a
    selection that covers the rest.  express: delivered at once as
    confirmed ++ candidate text; fluid: becomes the preview, commit_composition
    delivers it; reads return it once. *)
Definition c03_ops : list op :=
  [OpKey 97 0; OpKey 98 0; OpKey 99 0; OpKey 100 0; OpSelect 8; OpGetContext; OpSelect 1; OpGetCommit; OpGetCommit;
   OpCommit; OpGetCommit; OpGetCommit].
Definition c03_summary (o : obs) :=
  match o with
  | Obs r v => Some (r, v_commit v, v_preview v, v_confirmed v, v_composing v)
  | ObsCrash _ => None
  end.
Theorem C03_example_express :
  let obs := map c03_summary (snd (run (synth_cfg false true) oracle_translate c03_ops)) in
  forallb (fun x => match x with Some _ => true | None => false end) obs = true /\
  (* after the partial selection the earlier segment's text is confirmed and shown in the preview *)
  (exists t p, nth 5 obs None = Some (RNone, [], p, t, true) /\ t <> [] /\ firstn (length t) p = t) /\
  (* the covering selection delivers confirmed ++ candidate text at once; two reads: all, then nothing *)
  (exists t, nth 6 obs None = Some (RBool true, t, [], [], false) /\ t <> [] /\
             nth 7 obs None = Some (RCommit (Some t), [], [], [], false) /\
             nth 8 obs None = Some (RCommit None, [], [], [], false)).
Proof.
  cbv zeta. split; [vm_compute; reflexivity|]. split.
  - eexists. eexists. split; [vm_compute; reflexivity|]. split; [discriminate | vm_compute; reflexivity].
  - eexists. split; [vm_compute; reflexivity|]. split; [discriminate|]. split; vm_compute; reflexivity.
Qed.
Print Assumptions C03_example_express.

Theorem C03_example_fluid :
  let obs := map c03_summary (snd (run (synth_cfg true true) oracle_translate c03_ops)) in
  forallb (fun x => match x with Some _ => true | None => false end) obs = true /\
  (* the covering selection only changes the preview; commit_composition delivers exactly it; read once *)
  (exists p, nth 6 obs None = Some (RBool true, [], p, p, true) /\ p <> [] /\
             nth 9 obs None = Some (RBool true, p, [], [], false) /\
             nth 10 obs None = Some (RCommit (Some p), [], [], [], false) /\
             nth 11 obs None = Some (RCommit None, [], [], [], false)).
Proof.
  cbv zeta. split; [vm_compute; reflexivity|].
  eexists. split; [vm_compute; reflexivity|]. split; [discriminate|]. repeat split; vm_compute; reflexivity.
Qed.
Print Assumptions C03_example_fluid.

(** Non-vacuity of (1'): with full_shape on, a preview holding the ASCII letter G (0x47) is delivered with U+FF27
    (ef bc a7) in its place - the history shape on which a check that ignored the option raised a false alarm - while a
    preview of candidate text only is delivered unchanged. *)
Theorem C03_example_full_shape :
  let run1 ops := map c03_summary (snd (run (synth_cfg true true) oracle_translate ops)) in
  (exists a b cf, nth 2 (run1 [OpSetOption opt_full_shape true; OpSetInput [x71; x20; x7e]; OpGetContext; OpCommit]) None
               = Some (RNone, [], a ++ [x47] ++ b, cf, true) /\
               nth 3 (run1 [OpSetOption opt_full_shape true; OpSetInput [x71; x20; x7e]; OpGetContext; OpCommit]) None
               = Some (RBool true, a ++ [xef; xbc; xa7] ++ b, [], [], false)) /\
  (exists p cf, p <> [] /\
             nth 3 (run1 [OpSetOption opt_full_shape true; OpKey 97 0; OpKey 98 0; OpGetContext; OpCommit]) None
             = Some (RNone, [], p, cf, true) /\
             nth 4 (run1 [OpSetOption opt_full_shape true; OpKey 97 0; OpKey 98 0; OpGetContext; OpCommit]) None
             = Some (RBool true, p, [], [], false)).
Proof.
  cbv zeta. split.
  - exists [xc3; xb1]. exists [xe4; xb9; xbe]. eexists. split; vm_compute; reflexivity.
  - eexists. eexists. split; [|split; vm_compute; reflexivity]. discriminate.
Qed.
Print Assumptions C03_example_full_shape.
