(** C16 – sessions are isolated from one another and replay deterministically.
    Property theorems only.  The service model is generic in the per-session
    engine (any [sess], [sstep], …), so every theorem below holds in particular
    for the engine model of coq/Eng. *)
From Coq Require Import List NArith Bool String.
From RimeV Require Import Svc.SvcModel Svc.SvcProofs Svc.ApiShape Svc.Toy Gen.SessionApi.
Import ListNotations.

(** Every API function that takes a session id reaches the session only through
    the guard `GetSession(id)` / `if (!session) return` (or is find/destroy, or
    forwards to such a function): sweep over the list regenerated from the
    clang AST of the current src/rime_api.cc. *)
Theorem C16_api_functions_guarded : forallb (fn_ok session_fns) session_fns = true.
Proof. vm_compute. reflexivity. Qed.
Print Assumptions C16_api_functions_guarded.

Theorem C16_api_functions_present : 20 <= count_guarded session_fns.
Proof. vm_compute. repeat constructor. Qed.
Print Assumptions C16_api_functions_present.

(** A call that does not name session [j] changes no component of it. *)
Theorem C16_frame :
  forall (sess op obs pers : Type) snew sstep pstep rejected (s : svc sess pers) (c : call op) j,
  mentions op j c = false ->
  lookup sess j (live _ _ (fst (step sess op obs pers snew sstep pstep rejected s c))) = lookup sess j (live _ _ s).
Proof. exact frame. Qed.
Print Assumptions C16_frame.

(** For any interleaving with calls of other sessions (their creation and
    destruction included), what session [i] observes and the state it ends in
    are those of its solo run. *)
Theorem C16_interleave_invariance :
  forall (sess op obs pers : Type) snew sstep pstep rejected (h : list (call op)) (s : svc sess pers) i x st,
  lookup sess i (live _ _ s) = Some (x, st) -> quiet_for op i h = true ->
  obs_on op obs i (snd (run sess op obs pers snew sstep pstep rejected s h))
    = snd (solo sess op obs sstep x (calls_on op i h)) /\
  option_map fst (lookup sess i (live _ _ (fst (run sess op obs pers snew sstep pstep rejected s h))))
    = Some (fst (solo sess op obs sstep x (calls_on op i h))).
Proof. exact interleave_invariance. Qed.
Print Assumptions C16_interleave_invariance.

(** From its creation on, a session's observations are a function of its own
    calls and the settings persisted when it was created. *)
Theorem C16_created_session_is_solo :
  forall (sess op obs pers : Type) snew sstep pstep rejected (s : svc sess pers) h1 i h2,
  quiet_for op i h2 = true ->
  let s1 := fst (run sess op obs pers snew sstep pstep rejected s h1) in
  let s2 := fst (step sess op obs pers snew sstep pstep rejected s1 (Create i)) in
  obs_on op obs i (snd (run sess op obs pers snew sstep pstep rejected s2 h2))
    = snd (solo sess op obs sstep (snew (settings _ _ s1)) (calls_on op i h2)).
Proof. exact created_session_is_solo. Qed.
Print Assumptions C16_created_session_is_solo.

(** An id that names no live session is rejected by every call, find and
    destroy, until it is issued again. *)
Theorem C16_dead_id_rejected :
  forall (sess op obs pers : Type) snew sstep pstep rejected (h : list (call op)) (s : svc sess pers) i,
  lookup sess i (live _ _ s) = None -> never_created op i h = true ->
  Forall (rejected_entry op obs rejected i) (snd (run sess op obs pers snew sstep pstep rejected s h)) /\
  lookup sess i (live _ _ (fst (run sess op obs pers snew sstep pstep rejected s h))) = None.
Proof. exact dead_id_rejected. Qed.
Print Assumptions C16_dead_id_rejected.

(** Ids of live sessions are pairwise distinct in every reachable state. *)
Theorem C16_ids_distinct :
  forall (sess op obs pers : Type) snew sstep pstep rejected (h : list (call op)) (s : svc sess pers),
  NoDup (keys sess (live _ _ s)) ->
  NoDup (keys sess (live _ _ (fst (run sess op obs pers snew sstep pstep rejected s h)))).
Proof. exact ids_distinct. Qed.
Print Assumptions C16_ids_distinct.

(** The stale sweep removes exactly the sessions idle for more than the life
    span (their ids are then rejected by [C16_dead_id_rejected]); a session that
    accepted a call within the last life span survives it. *)
Theorem C16_stale_swept :
  forall (sess op obs pers : Type) snew sstep pstep rejected (s : svc sess pers) i e,
  NoDup (keys sess (live _ _ s)) -> lookup sess i (live _ _ s) = Some e ->
  lookup sess i (live _ _ (fst (step sess op obs pers snew sstep pstep rejected s CleanupStale)))
    = (if stale sess (now _ _ s) e then None else Some e).
Proof. exact stale_swept. Qed.
Print Assumptions C16_stale_swept.

Theorem C16_active_session_survives :
  forall (sess op obs pers : Type) snew sstep pstep rejected (s : svc sess pers) i o d,
  NoDup (keys sess (live _ _ s)) -> lookup sess i (live _ _ s) <> None -> (d <= life_span)%N ->
  let s1 := fst (step sess op obs pers snew sstep pstep rejected s (Call i o)) in
  let s2 := fst (step sess op obs pers snew sstep pstep rejected s1 (Advance d)) in
  lookup sess i (live _ _ (fst (step sess op obs pers snew sstep pstep rejected s2 CleanupStale))) <> None.
Proof. exact active_session_survives. Qed.
Print Assumptions C16_active_session_survives.

(** Non-vacuity: two interleaved sessions, one destroyed and used afterwards; a stale sweep. *)
Example C16_example :
  let h := [Create 1; Call 1 5; Create 2; Call 2 7; Call 1 1; Destroy 2; Call 2 3; Call 1 2; Find 2]%N in
  quiet_for toy_op 1%N (tl h) = true /\
  obs_on toy_op toy_obs 1%N (toy_run h) = [(true, 5); (true, 6); (true, 8)]%N /\
  obs_on toy_op toy_obs 2%N (toy_run h) = [(true, 7); (false, 0)]%N.
Proof. vm_compute. repeat split. Qed.

Example C16_example_stale :
  let h := [Create 1; Create 2; Advance 200; Call 2 1; Advance 200; CleanupStale; Call 1 1; Call 2 1]%N in
  obs_on toy_op toy_obs 1%N (toy_run h) = [(false, 0)]%N /\
  obs_on toy_op toy_obs 2%N (toy_run h) = [(true, 1); (true, 2)]%N.
Proof. vm_compute. repeat split. Qed.

(** ---- appended by the Eng builder: the instance for the session-engine model ----
    coq/Svc/EngInstance.v instantiates the service layer with sess := the Eng
    session state, op/obs := the session functions of the C API and what they
    let a client read ([Live] observation of a live session / [Dead] return value
    on an id without session), for any configuration and any translator.  For
    ANY interleaving with calls, creations and destructions of other sessions,
    session [i] observes exactly the transcript of its own calls run alone
    ([Eng.Api.run_from] from its state) and ends in the same state; a call that
    does not name a session leaves it untouched; a dead id is rejected. *)
From RimeV Require Svc.EngInstance Eng.Api Eng.Engine.

Theorem C16_eng_sessions_isolated :
  forall cfg translate (h : list (call RimeV.Eng.Api.op)) (s : RimeV.Svc.EngInstance.eng_svc) i x st,
  lookup _ i (live _ _ s) = Some (x, st) -> quiet_for _ i h = true ->
  obs_on _ _ i (snd (RimeV.Svc.EngInstance.eng_run cfg translate s h))
    = List.map RimeV.Svc.EngInstance.Live (snd (RimeV.Eng.Api.run_from cfg translate x (calls_on _ i h))) /\
  option_map fst (lookup _ i (live _ _ (fst (RimeV.Svc.EngInstance.eng_run cfg translate s h))))
    = Some (fst (RimeV.Eng.Api.run_from cfg translate x (calls_on _ i h))).
Proof. exact RimeV.Svc.EngInstance.eng_sessions_isolated. Qed.
Print Assumptions C16_eng_sessions_isolated.

Theorem C16_eng_frame :
  forall cfg translate (s : RimeV.Svc.EngInstance.eng_svc) (c : call RimeV.Eng.Api.op) j,
  mentions _ j c = false ->
  lookup _ j (live _ _ (fst (RimeV.Svc.EngInstance.eng_step cfg translate s c))) = lookup _ j (live _ _ s).
Proof. exact RimeV.Svc.EngInstance.eng_frame. Qed.
Print Assumptions C16_eng_frame.

Theorem C16_eng_dead_id_rejected :
  forall cfg translate (h : list (call RimeV.Eng.Api.op)) (s : RimeV.Svc.EngInstance.eng_svc) i,
  lookup _ i (live _ _ s) = None -> never_created _ i h = true ->
  Forall (rejected_entry _ _ RimeV.Svc.EngInstance.eng_rejected i) (snd (RimeV.Svc.EngInstance.eng_run cfg translate s h)) /\
  lookup _ i (live _ _ (fst (RimeV.Svc.EngInstance.eng_run cfg translate s h))) = None.
Proof. exact RimeV.Svc.EngInstance.eng_dead_id_rejected. Qed.
Print Assumptions C16_eng_dead_id_rejected.
