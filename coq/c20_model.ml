
type nat =
| O
| S of nat

(** val length : 'a1 list -> nat **)

let rec length = function
| [] -> O
| _ :: l' -> S (length l')

(** val app : 'a1 list -> 'a1 list -> 'a1 list **)

let rec app l m =
  match l with
  | [] -> m
  | a :: l1 -> a :: (app l1 m)

(** val add : nat -> nat -> nat **)

let rec add n0 m =
  match n0 with
  | O -> m
  | S p -> S (add p m)

(** val sub : nat -> nat -> nat **)

let rec sub n0 m =
  match n0 with
  | O -> n0
  | S k -> (match m with
            | O -> n0
            | S l -> sub k l)

type byte =
| X00
| X01
| X02
| X03
| X04
| X05
| X06
| X07
| X08
| X09
| X0a
| X0b
| X0c
| X0d
| X0e
| X0f
| X10
| X11
| X12
| X13
| X14
| X15
| X16
| X17
| X18
| X19
| X1a
| X1b
| X1c
| X1d
| X1e
| X1f
| X20
| X21
| X22
| X23
| X24
| X25
| X26
| X27
| X28
| X29
| X2a
| X2b
| X2c
| X2d
| X2e
| X2f
| X30
| X31
| X32
| X33
| X34
| X35
| X36
| X37
| X38
| X39
| X3a
| X3b
| X3c
| X3d
| X3e
| X3f
| X40
| X41
| X42
| X43
| X44
| X45
| X46
| X47
| X48
| X49
| X4a
| X4b
| X4c
| X4d
| X4e
| X4f
| X50
| X51
| X52
| X53
| X54
| X55
| X56
| X57
| X58
| X59
| X5a
| X5b
| X5c
| X5d
| X5e
| X5f
| X60
| X61
| X62
| X63
| X64
| X65
| X66
| X67
| X68
| X69
| X6a
| X6b
| X6c
| X6d
| X6e
| X6f
| X70
| X71
| X72
| X73
| X74
| X75
| X76
| X77
| X78
| X79
| X7a
| X7b
| X7c
| X7d
| X7e
| X7f
| X80
| X81
| X82
| X83
| X84
| X85
| X86
| X87
| X88
| X89
| X8a
| X8b
| X8c
| X8d
| X8e
| X8f
| X90
| X91
| X92
| X93
| X94
| X95
| X96
| X97
| X98
| X99
| X9a
| X9b
| X9c
| X9d
| X9e
| X9f
| Xa0
| Xa1
| Xa2
| Xa3
| Xa4
| Xa5
| Xa6
| Xa7
| Xa8
| Xa9
| Xaa
| Xab
| Xac
| Xad
| Xae
| Xaf
| Xb0
| Xb1
| Xb2
| Xb3
| Xb4
| Xb5
| Xb6
| Xb7
| Xb8
| Xb9
| Xba
| Xbb
| Xbc
| Xbd
| Xbe
| Xbf
| Xc0
| Xc1
| Xc2
| Xc3
| Xc4
| Xc5
| Xc6
| Xc7
| Xc8
| Xc9
| Xca
| Xcb
| Xcc
| Xcd
| Xce
| Xcf
| Xd0
| Xd1
| Xd2
| Xd3
| Xd4
| Xd5
| Xd6
| Xd7
| Xd8
| Xd9
| Xda
| Xdb
| Xdc
| Xdd
| Xde
| Xdf
| Xe0
| Xe1
| Xe2
| Xe3
| Xe4
| Xe5
| Xe6
| Xe7
| Xe8
| Xe9
| Xea
| Xeb
| Xec
| Xed
| Xee
| Xef
| Xf0
| Xf1
| Xf2
| Xf3
| Xf4
| Xf5
| Xf6
| Xf7
| Xf8
| Xf9
| Xfa
| Xfb
| Xfc
| Xfd
| Xfe
| Xff

(** val to_bits :
    byte -> bool * (bool * (bool * (bool * (bool * (bool * (bool * bool)))))) **)

let to_bits = function
| X00 -> (false, (false, (false, (false, (false, (false, (false, false)))))))
| X01 -> (true, (false, (false, (false, (false, (false, (false, false)))))))
| X02 -> (false, (true, (false, (false, (false, (false, (false, false)))))))
| X03 -> (true, (true, (false, (false, (false, (false, (false, false)))))))
| X04 -> (false, (false, (true, (false, (false, (false, (false, false)))))))
| X05 -> (true, (false, (true, (false, (false, (false, (false, false)))))))
| X06 -> (false, (true, (true, (false, (false, (false, (false, false)))))))
| X07 -> (true, (true, (true, (false, (false, (false, (false, false)))))))
| X08 -> (false, (false, (false, (true, (false, (false, (false, false)))))))
| X09 -> (true, (false, (false, (true, (false, (false, (false, false)))))))
| X0a -> (false, (true, (false, (true, (false, (false, (false, false)))))))
| X0b -> (true, (true, (false, (true, (false, (false, (false, false)))))))
| X0c -> (false, (false, (true, (true, (false, (false, (false, false)))))))
| X0d -> (true, (false, (true, (true, (false, (false, (false, false)))))))
| X0e -> (false, (true, (true, (true, (false, (false, (false, false)))))))
| X0f -> (true, (true, (true, (true, (false, (false, (false, false)))))))
| X10 -> (false, (false, (false, (false, (true, (false, (false, false)))))))
| X11 -> (true, (false, (false, (false, (true, (false, (false, false)))))))
| X12 -> (false, (true, (false, (false, (true, (false, (false, false)))))))
| X13 -> (true, (true, (false, (false, (true, (false, (false, false)))))))
| X14 -> (false, (false, (true, (false, (true, (false, (false, false)))))))
| X15 -> (true, (false, (true, (false, (true, (false, (false, false)))))))
| X16 -> (false, (true, (true, (false, (true, (false, (false, false)))))))
| X17 -> (true, (true, (true, (false, (true, (false, (false, false)))))))
| X18 -> (false, (false, (false, (true, (true, (false, (false, false)))))))
| X19 -> (true, (false, (false, (true, (true, (false, (false, false)))))))
| X1a -> (false, (true, (false, (true, (true, (false, (false, false)))))))
| X1b -> (true, (true, (false, (true, (true, (false, (false, false)))))))
| X1c -> (false, (false, (true, (true, (true, (false, (false, false)))))))
| X1d -> (true, (false, (true, (true, (true, (false, (false, false)))))))
| X1e -> (false, (true, (true, (true, (true, (false, (false, false)))))))
| X1f -> (true, (true, (true, (true, (true, (false, (false, false)))))))
| X20 -> (false, (false, (false, (false, (false, (true, (false, false)))))))
| X21 -> (true, (false, (false, (false, (false, (true, (false, false)))))))
| X22 -> (false, (true, (false, (false, (false, (true, (false, false)))))))
| X23 -> (true, (true, (false, (false, (false, (true, (false, false)))))))
| X24 -> (false, (false, (true, (false, (false, (true, (false, false)))))))
| X25 -> (true, (false, (true, (false, (false, (true, (false, false)))))))
| X26 -> (false, (true, (true, (false, (false, (true, (false, false)))))))
| X27 -> (true, (true, (true, (false, (false, (true, (false, false)))))))
| X28 -> (false, (false, (false, (true, (false, (true, (false, false)))))))
| X29 -> (true, (false, (false, (true, (false, (true, (false, false)))))))
| X2a -> (false, (true, (false, (true, (false, (true, (false, false)))))))
| X2b -> (true, (true, (false, (true, (false, (true, (false, false)))))))
| X2c -> (false, (false, (true, (true, (false, (true, (false, false)))))))
| X2d -> (true, (false, (true, (true, (false, (true, (false, false)))))))
| X2e -> (false, (true, (true, (true, (false, (true, (false, false)))))))
| X2f -> (true, (true, (true, (true, (false, (true, (false, false)))))))
| X30 -> (false, (false, (false, (false, (true, (true, (false, false)))))))
| X31 -> (true, (false, (false, (false, (true, (true, (false, false)))))))
| X32 -> (false, (true, (false, (false, (true, (true, (false, false)))))))
| X33 -> (true, (true, (false, (false, (true, (true, (false, false)))))))
| X34 -> (false, (false, (true, (false, (true, (true, (false, false)))))))
| X35 -> (true, (false, (true, (false, (true, (true, (false, false)))))))
| X36 -> (false, (true, (true, (false, (true, (true, (false, false)))))))
| X37 -> (true, (true, (true, (false, (true, (true, (false, false)))))))
| X38 -> (false, (false, (false, (true, (true, (true, (false, false)))))))
| X39 -> (true, (false, (false, (true, (true, (true, (false, false)))))))
| X3a -> (false, (true, (false, (true, (true, (true, (false, false)))))))
| X3b -> (true, (true, (false, (true, (true, (true, (false, false)))))))
| X3c -> (false, (false, (true, (true, (true, (true, (false, false)))))))
| X3d -> (true, (false, (true, (true, (true, (true, (false, false)))))))
| X3e -> (false, (true, (true, (true, (true, (true, (false, false)))))))
| X3f -> (true, (true, (true, (true, (true, (true, (false, false)))))))
| X40 -> (false, (false, (false, (false, (false, (false, (true, false)))))))
| X41 -> (true, (false, (false, (false, (false, (false, (true, false)))))))
| X42 -> (false, (true, (false, (false, (false, (false, (true, false)))))))
| X43 -> (true, (true, (false, (false, (false, (false, (true, false)))))))
| X44 -> (false, (false, (true, (false, (false, (false, (true, false)))))))
| X45 -> (true, (false, (true, (false, (false, (false, (true, false)))))))
| X46 -> (false, (true, (true, (false, (false, (false, (true, false)))))))
| X47 -> (true, (true, (true, (false, (false, (false, (true, false)))))))
| X48 -> (false, (false, (false, (true, (false, (false, (true, false)))))))
| X49 -> (true, (false, (false, (true, (false, (false, (true, false)))))))
| X4a -> (false, (true, (false, (true, (false, (false, (true, false)))))))
| X4b -> (true, (true, (false, (true, (false, (false, (true, false)))))))
| X4c -> (false, (false, (true, (true, (false, (false, (true, false)))))))
| X4d -> (true, (false, (true, (true, (false, (false, (true, false)))))))
| X4e -> (false, (true, (true, (true, (false, (false, (true, false)))))))
| X4f -> (true, (true, (true, (true, (false, (false, (true, false)))))))
| X50 -> (false, (false, (false, (false, (true, (false, (true, false)))))))
| X51 -> (true, (false, (false, (false, (true, (false, (true, false)))))))
| X52 -> (false, (true, (false, (false, (true, (false, (true, false)))))))
| X53 -> (true, (true, (false, (false, (true, (false, (true, false)))))))
| X54 -> (false, (false, (true, (false, (true, (false, (true, false)))))))
| X55 -> (true, (false, (true, (false, (true, (false, (true, false)))))))
| X56 -> (false, (true, (true, (false, (true, (false, (true, false)))))))
| X57 -> (true, (true, (true, (false, (true, (false, (true, false)))))))
| X58 -> (false, (false, (false, (true, (true, (false, (true, false)))))))
| X59 -> (true, (false, (false, (true, (true, (false, (true, false)))))))
| X5a -> (false, (true, (false, (true, (true, (false, (true, false)))))))
| X5b -> (true, (true, (false, (true, (true, (false, (true, false)))))))
| X5c -> (false, (false, (true, (true, (true, (false, (true, false)))))))
| X5d -> (true, (false, (true, (true, (true, (false, (true, false)))))))
| X5e -> (false, (true, (true, (true, (true, (false, (true, false)))))))
| X5f -> (true, (true, (true, (true, (true, (false, (true, false)))))))
| X60 -> (false, (false, (false, (false, (false, (true, (true, false)))))))
| X61 -> (true, (false, (false, (false, (false, (true, (true, false)))))))
| X62 -> (false, (true, (false, (false, (false, (true, (true, false)))))))
| X63 -> (true, (true, (false, (false, (false, (true, (true, false)))))))
| X64 -> (false, (false, (true, (false, (false, (true, (true, false)))))))
| X65 -> (true, (false, (true, (false, (false, (true, (true, false)))))))
| X66 -> (false, (true, (true, (false, (false, (true, (true, false)))))))
| X67 -> (true, (true, (true, (false, (false, (true, (true, false)))))))
| X68 -> (false, (false, (false, (true, (false, (true, (true, false)))))))
| X69 -> (true, (false, (false, (true, (false, (true, (true, false)))))))
| X6a -> (false, (true, (false, (true, (false, (true, (true, false)))))))
| X6b -> (true, (true, (false, (true, (false, (true, (true, false)))))))
| X6c -> (false, (false, (true, (true, (false, (true, (true, false)))))))
| X6d -> (true, (false, (true, (true, (false, (true, (true, false)))))))
| X6e -> (false, (true, (true, (true, (false, (true, (true, false)))))))
| X6f -> (true, (true, (true, (true, (false, (true, (true, false)))))))
| X70 -> (false, (false, (false, (false, (true, (true, (true, false)))))))
| X71 -> (true, (false, (false, (false, (true, (true, (true, false)))))))
| X72 -> (false, (true, (false, (false, (true, (true, (true, false)))))))
| X73 -> (true, (true, (false, (false, (true, (true, (true, false)))))))
| X74 -> (false, (false, (true, (false, (true, (true, (true, false)))))))
| X75 -> (true, (false, (true, (false, (true, (true, (true, false)))))))
| X76 -> (false, (true, (true, (false, (true, (true, (true, false)))))))
| X77 -> (true, (true, (true, (false, (true, (true, (true, false)))))))
| X78 -> (false, (false, (false, (true, (true, (true, (true, false)))))))
| X79 -> (true, (false, (false, (true, (true, (true, (true, false)))))))
| X7a -> (false, (true, (false, (true, (true, (true, (true, false)))))))
| X7b -> (true, (true, (false, (true, (true, (true, (true, false)))))))
| X7c -> (false, (false, (true, (true, (true, (true, (true, false)))))))
| X7d -> (true, (false, (true, (true, (true, (true, (true, false)))))))
| X7e -> (false, (true, (true, (true, (true, (true, (true, false)))))))
| X7f -> (true, (true, (true, (true, (true, (true, (true, false)))))))
| X80 -> (false, (false, (false, (false, (false, (false, (false, true)))))))
| X81 -> (true, (false, (false, (false, (false, (false, (false, true)))))))
| X82 -> (false, (true, (false, (false, (false, (false, (false, true)))))))
| X83 -> (true, (true, (false, (false, (false, (false, (false, true)))))))
| X84 -> (false, (false, (true, (false, (false, (false, (false, true)))))))
| X85 -> (true, (false, (true, (false, (false, (false, (false, true)))))))
| X86 -> (false, (true, (true, (false, (false, (false, (false, true)))))))
| X87 -> (true, (true, (true, (false, (false, (false, (false, true)))))))
| X88 -> (false, (false, (false, (true, (false, (false, (false, true)))))))
| X89 -> (true, (false, (false, (true, (false, (false, (false, true)))))))
| X8a -> (false, (true, (false, (true, (false, (false, (false, true)))))))
| X8b -> (true, (true, (false, (true, (false, (false, (false, true)))))))
| X8c -> (false, (false, (true, (true, (false, (false, (false, true)))))))
| X8d -> (true, (false, (true, (true, (false, (false, (false, true)))))))
| X8e -> (false, (true, (true, (true, (false, (false, (false, true)))))))
| X8f -> (true, (true, (true, (true, (false, (false, (false, true)))))))
| X90 -> (false, (false, (false, (false, (true, (false, (false, true)))))))
| X91 -> (true, (false, (false, (false, (true, (false, (false, true)))))))
| X92 -> (false, (true, (false, (false, (true, (false, (false, true)))))))
| X93 -> (true, (true, (false, (false, (true, (false, (false, true)))))))
| X94 -> (false, (false, (true, (false, (true, (false, (false, true)))))))
| X95 -> (true, (false, (true, (false, (true, (false, (false, true)))))))
| X96 -> (false, (true, (true, (false, (true, (false, (false, true)))))))
| X97 -> (true, (true, (true, (false, (true, (false, (false, true)))))))
| X98 -> (false, (false, (false, (true, (true, (false, (false, true)))))))
| X99 -> (true, (false, (false, (true, (true, (false, (false, true)))))))
| X9a -> (false, (true, (false, (true, (true, (false, (false, true)))))))
| X9b -> (true, (true, (false, (true, (true, (false, (false, true)))))))
| X9c -> (false, (false, (true, (true, (true, (false, (false, true)))))))
| X9d -> (true, (false, (true, (true, (true, (false, (false, true)))))))
| X9e -> (false, (true, (true, (true, (true, (false, (false, true)))))))
| X9f -> (true, (true, (true, (true, (true, (false, (false, true)))))))
| Xa0 -> (false, (false, (false, (false, (false, (true, (false, true)))))))
| Xa1 -> (true, (false, (false, (false, (false, (true, (false, true)))))))
| Xa2 -> (false, (true, (false, (false, (false, (true, (false, true)))))))
| Xa3 -> (true, (true, (false, (false, (false, (true, (false, true)))))))
| Xa4 -> (false, (false, (true, (false, (false, (true, (false, true)))))))
| Xa5 -> (true, (false, (true, (false, (false, (true, (false, true)))))))
| Xa6 -> (false, (true, (true, (false, (false, (true, (false, true)))))))
| Xa7 -> (true, (true, (true, (false, (false, (true, (false, true)))))))
| Xa8 -> (false, (false, (false, (true, (false, (true, (false, true)))))))
| Xa9 -> (true, (false, (false, (true, (false, (true, (false, true)))))))
| Xaa -> (false, (true, (false, (true, (false, (true, (false, true)))))))
| Xab -> (true, (true, (false, (true, (false, (true, (false, true)))))))
| Xac -> (false, (false, (true, (true, (false, (true, (false, true)))))))
| Xad -> (true, (false, (true, (true, (false, (true, (false, true)))))))
| Xae -> (false, (true, (true, (true, (false, (true, (false, true)))))))
| Xaf -> (true, (true, (true, (true, (false, (true, (false, true)))))))
| Xb0 -> (false, (false, (false, (false, (true, (true, (false, true)))))))
| Xb1 -> (true, (false, (false, (false, (true, (true, (false, true)))))))
| Xb2 -> (false, (true, (false, (false, (true, (true, (false, true)))))))
| Xb3 -> (true, (true, (false, (false, (true, (true, (false, true)))))))
| Xb4 -> (false, (false, (true, (false, (true, (true, (false, true)))))))
| Xb5 -> (true, (false, (true, (false, (true, (true, (false, true)))))))
| Xb6 -> (false, (true, (true, (false, (true, (true, (false, true)))))))
| Xb7 -> (true, (true, (true, (false, (true, (true, (false, true)))))))
| Xb8 -> (false, (false, (false, (true, (true, (true, (false, true)))))))
| Xb9 -> (true, (false, (false, (true, (true, (true, (false, true)))))))
| Xba -> (false, (true, (false, (true, (true, (true, (false, true)))))))
| Xbb -> (true, (true, (false, (true, (true, (true, (false, true)))))))
| Xbc -> (false, (false, (true, (true, (true, (true, (false, true)))))))
| Xbd -> (true, (false, (true, (true, (true, (true, (false, true)))))))
| Xbe -> (false, (true, (true, (true, (true, (true, (false, true)))))))
| Xbf -> (true, (true, (true, (true, (true, (true, (false, true)))))))
| Xc0 -> (false, (false, (false, (false, (false, (false, (true, true)))))))
| Xc1 -> (true, (false, (false, (false, (false, (false, (true, true)))))))
| Xc2 -> (false, (true, (false, (false, (false, (false, (true, true)))))))
| Xc3 -> (true, (true, (false, (false, (false, (false, (true, true)))))))
| Xc4 -> (false, (false, (true, (false, (false, (false, (true, true)))))))
| Xc5 -> (true, (false, (true, (false, (false, (false, (true, true)))))))
| Xc6 -> (false, (true, (true, (false, (false, (false, (true, true)))))))
| Xc7 -> (true, (true, (true, (false, (false, (false, (true, true)))))))
| Xc8 -> (false, (false, (false, (true, (false, (false, (true, true)))))))
| Xc9 -> (true, (false, (false, (true, (false, (false, (true, true)))))))
| Xca -> (false, (true, (false, (true, (false, (false, (true, true)))))))
| Xcb -> (true, (true, (false, (true, (false, (false, (true, true)))))))
| Xcc -> (false, (false, (true, (true, (false, (false, (true, true)))))))
| Xcd -> (true, (false, (true, (true, (false, (false, (true, true)))))))
| Xce -> (false, (true, (true, (true, (false, (false, (true, true)))))))
| Xcf -> (true, (true, (true, (true, (false, (false, (true, true)))))))
| Xd0 -> (false, (false, (false, (false, (true, (false, (true, true)))))))
| Xd1 -> (true, (false, (false, (false, (true, (false, (true, true)))))))
| Xd2 -> (false, (true, (false, (false, (true, (false, (true, true)))))))
| Xd3 -> (true, (true, (false, (false, (true, (false, (true, true)))))))
| Xd4 -> (false, (false, (true, (false, (true, (false, (true, true)))))))
| Xd5 -> (true, (false, (true, (false, (true, (false, (true, true)))))))
| Xd6 -> (false, (true, (true, (false, (true, (false, (true, true)))))))
| Xd7 -> (true, (true, (true, (false, (true, (false, (true, true)))))))
| Xd8 -> (false, (false, (false, (true, (true, (false, (true, true)))))))
| Xd9 -> (true, (false, (false, (true, (true, (false, (true, true)))))))
| Xda -> (false, (true, (false, (true, (true, (false, (true, true)))))))
| Xdb -> (true, (true, (false, (true, (true, (false, (true, true)))))))
| Xdc -> (false, (false, (true, (true, (true, (false, (true, true)))))))
| Xdd -> (true, (false, (true, (true, (true, (false, (true, true)))))))
| Xde -> (false, (true, (true, (true, (true, (false, (true, true)))))))
| Xdf -> (true, (true, (true, (true, (true, (false, (true, true)))))))
| Xe0 -> (false, (false, (false, (false, (false, (true, (true, true)))))))
| Xe1 -> (true, (false, (false, (false, (false, (true, (true, true)))))))
| Xe2 -> (false, (true, (false, (false, (false, (true, (true, true)))))))
| Xe3 -> (true, (true, (false, (false, (false, (true, (true, true)))))))
| Xe4 -> (false, (false, (true, (false, (false, (true, (true, true)))))))
| Xe5 -> (true, (false, (true, (false, (false, (true, (true, true)))))))
| Xe6 -> (false, (true, (true, (false, (false, (true, (true, true)))))))
| Xe7 -> (true, (true, (true, (false, (false, (true, (true, true)))))))
| Xe8 -> (false, (false, (false, (true, (false, (true, (true, true)))))))
| Xe9 -> (true, (false, (false, (true, (false, (true, (true, true)))))))
| Xea -> (false, (true, (false, (true, (false, (true, (true, true)))))))
| Xeb -> (true, (true, (false, (true, (false, (true, (true, true)))))))
| Xec -> (false, (false, (true, (true, (false, (true, (true, true)))))))
| Xed -> (true, (false, (true, (true, (false, (true, (true, true)))))))
| Xee -> (false, (true, (true, (true, (false, (true, (true, true)))))))
| Xef -> (true, (true, (true, (true, (false, (true, (true, true)))))))
| Xf0 -> (false, (false, (false, (false, (true, (true, (true, true)))))))
| Xf1 -> (true, (false, (false, (false, (true, (true, (true, true)))))))
| Xf2 -> (false, (true, (false, (false, (true, (true, (true, true)))))))
| Xf3 -> (true, (true, (false, (false, (true, (true, (true, true)))))))
| Xf4 -> (false, (false, (true, (false, (true, (true, (true, true)))))))
| Xf5 -> (true, (false, (true, (false, (true, (true, (true, true)))))))
| Xf6 -> (false, (true, (true, (false, (true, (true, (true, true)))))))
| Xf7 -> (true, (true, (true, (false, (true, (true, (true, true)))))))
| Xf8 -> (false, (false, (false, (true, (true, (true, (true, true)))))))
| Xf9 -> (true, (false, (false, (true, (true, (true, (true, true)))))))
| Xfa -> (false, (true, (false, (true, (true, (true, (true, true)))))))
| Xfb -> (true, (true, (false, (true, (true, (true, (true, true)))))))
| Xfc -> (false, (false, (true, (true, (true, (true, (true, true)))))))
| Xfd -> (true, (false, (true, (true, (true, (true, (true, true)))))))
| Xfe -> (false, (true, (true, (true, (true, (true, (true, true)))))))
| Xff -> (true, (true, (true, (true, (true, (true, (true, true)))))))

(** val eqb : bool -> bool -> bool **)

let eqb b1 b2 =
  if b1 then b2 else if b2 then false else true

module Nat =
 struct
  (** val eqb : nat -> nat -> bool **)

  let rec eqb n0 m =
    match n0 with
    | O -> (match m with
            | O -> true
            | S _ -> false)
    | S n' -> (match m with
               | O -> false
               | S m' -> eqb n' m')

  (** val leb : nat -> nat -> bool **)

  let rec leb n0 m =
    match n0 with
    | O -> true
    | S n' -> (match m with
               | O -> false
               | S m' -> leb n' m')

  (** val ltb : nat -> nat -> bool **)

  let ltb n0 m =
    leb (S n0) m

  (** val min : nat -> nat -> nat **)

  let rec min n0 m =
    match n0 with
    | O -> O
    | S n' -> (match m with
               | O -> O
               | S m' -> S (min n' m'))
 end

(** val nth : nat -> 'a1 list -> 'a1 -> 'a1 **)

let rec nth n0 l default =
  match n0 with
  | O -> (match l with
          | [] -> default
          | x :: _ -> x)
  | S m -> (match l with
            | [] -> default
            | _ :: t -> nth m t default)

(** val firstn : nat -> 'a1 list -> 'a1 list **)

let rec firstn n0 l =
  match n0 with
  | O -> []
  | S n1 -> (match l with
             | [] -> []
             | a :: l0 -> a :: (firstn n1 l0))

(** val skipn : nat -> 'a1 list -> 'a1 list **)

let rec skipn n0 l =
  match n0 with
  | O -> l
  | S n1 -> (match l with
             | [] -> []
             | _ :: l0 -> skipn n1 l0)

(** val repeat : 'a1 -> nat -> 'a1 list **)

let rec repeat x = function
| O -> []
| S k -> x :: (repeat x k)

type positive =
| XI of positive
| XO of positive
| XH

type n =
| N0
| Npos of positive

(** val eqb0 : byte -> byte -> bool **)

let eqb0 a b =
  let (a0, p) = to_bits a in
  let (a1, p0) = p in
  let (a2, p1) = p0 in
  let (a3, p2) = p1 in
  let (a4, p3) = p2 in
  let (a5, p4) = p3 in
  let (a6, a7) = p4 in
  let (b0, p5) = to_bits b in
  let (b1, p6) = p5 in
  let (b2, p7) = p6 in
  let (b3, p8) = p7 in
  let (b4, p9) = p8 in
  let (b5, p10) = p9 in
  let (b6, b7) = p10 in
  (&&)
    ((&&)
      ((&&)
        ((&&)
          ((&&) ((&&) ((&&) (eqb a0 b0) (eqb a1 b1)) (eqb a2 b2)) (eqb a3 b3))
          (eqb a4 b4)) (eqb a5 b5)) (eqb a6 b6)) (eqb a7 b7)

(** val to_N : byte -> n **)

let to_N = function
| X00 -> N0
| X01 -> Npos XH
| X02 -> Npos (XO XH)
| X03 -> Npos (XI XH)
| X04 -> Npos (XO (XO XH))
| X05 -> Npos (XI (XO XH))
| X06 -> Npos (XO (XI XH))
| X07 -> Npos (XI (XI XH))
| X08 -> Npos (XO (XO (XO XH)))
| X09 -> Npos (XI (XO (XO XH)))
| X0a -> Npos (XO (XI (XO XH)))
| X0b -> Npos (XI (XI (XO XH)))
| X0c -> Npos (XO (XO (XI XH)))
| X0d -> Npos (XI (XO (XI XH)))
| X0e -> Npos (XO (XI (XI XH)))
| X0f -> Npos (XI (XI (XI XH)))
| X10 -> Npos (XO (XO (XO (XO XH))))
| X11 -> Npos (XI (XO (XO (XO XH))))
| X12 -> Npos (XO (XI (XO (XO XH))))
| X13 -> Npos (XI (XI (XO (XO XH))))
| X14 -> Npos (XO (XO (XI (XO XH))))
| X15 -> Npos (XI (XO (XI (XO XH))))
| X16 -> Npos (XO (XI (XI (XO XH))))
| X17 -> Npos (XI (XI (XI (XO XH))))
| X18 -> Npos (XO (XO (XO (XI XH))))
| X19 -> Npos (XI (XO (XO (XI XH))))
| X1a -> Npos (XO (XI (XO (XI XH))))
| X1b -> Npos (XI (XI (XO (XI XH))))
| X1c -> Npos (XO (XO (XI (XI XH))))
| X1d -> Npos (XI (XO (XI (XI XH))))
| X1e -> Npos (XO (XI (XI (XI XH))))
| X1f -> Npos (XI (XI (XI (XI XH))))
| X20 -> Npos (XO (XO (XO (XO (XO XH)))))
| X21 -> Npos (XI (XO (XO (XO (XO XH)))))
| X22 -> Npos (XO (XI (XO (XO (XO XH)))))
| X23 -> Npos (XI (XI (XO (XO (XO XH)))))
| X24 -> Npos (XO (XO (XI (XO (XO XH)))))
| X25 -> Npos (XI (XO (XI (XO (XO XH)))))
| X26 -> Npos (XO (XI (XI (XO (XO XH)))))
| X27 -> Npos (XI (XI (XI (XO (XO XH)))))
| X28 -> Npos (XO (XO (XO (XI (XO XH)))))
| X29 -> Npos (XI (XO (XO (XI (XO XH)))))
| X2a -> Npos (XO (XI (XO (XI (XO XH)))))
| X2b -> Npos (XI (XI (XO (XI (XO XH)))))
| X2c -> Npos (XO (XO (XI (XI (XO XH)))))
| X2d -> Npos (XI (XO (XI (XI (XO XH)))))
| X2e -> Npos (XO (XI (XI (XI (XO XH)))))
| X2f -> Npos (XI (XI (XI (XI (XO XH)))))
| X30 -> Npos (XO (XO (XO (XO (XI XH)))))
| X31 -> Npos (XI (XO (XO (XO (XI XH)))))
| X32 -> Npos (XO (XI (XO (XO (XI XH)))))
| X33 -> Npos (XI (XI (XO (XO (XI XH)))))
| X34 -> Npos (XO (XO (XI (XO (XI XH)))))
| X35 -> Npos (XI (XO (XI (XO (XI XH)))))
| X36 -> Npos (XO (XI (XI (XO (XI XH)))))
| X37 -> Npos (XI (XI (XI (XO (XI XH)))))
| X38 -> Npos (XO (XO (XO (XI (XI XH)))))
| X39 -> Npos (XI (XO (XO (XI (XI XH)))))
| X3a -> Npos (XO (XI (XO (XI (XI XH)))))
| X3b -> Npos (XI (XI (XO (XI (XI XH)))))
| X3c -> Npos (XO (XO (XI (XI (XI XH)))))
| X3d -> Npos (XI (XO (XI (XI (XI XH)))))
| X3e -> Npos (XO (XI (XI (XI (XI XH)))))
| X3f -> Npos (XI (XI (XI (XI (XI XH)))))
| X40 -> Npos (XO (XO (XO (XO (XO (XO XH))))))
| X41 -> Npos (XI (XO (XO (XO (XO (XO XH))))))
| X42 -> Npos (XO (XI (XO (XO (XO (XO XH))))))
| X43 -> Npos (XI (XI (XO (XO (XO (XO XH))))))
| X44 -> Npos (XO (XO (XI (XO (XO (XO XH))))))
| X45 -> Npos (XI (XO (XI (XO (XO (XO XH))))))
| X46 -> Npos (XO (XI (XI (XO (XO (XO XH))))))
| X47 -> Npos (XI (XI (XI (XO (XO (XO XH))))))
| X48 -> Npos (XO (XO (XO (XI (XO (XO XH))))))
| X49 -> Npos (XI (XO (XO (XI (XO (XO XH))))))
| X4a -> Npos (XO (XI (XO (XI (XO (XO XH))))))
| X4b -> Npos (XI (XI (XO (XI (XO (XO XH))))))
| X4c -> Npos (XO (XO (XI (XI (XO (XO XH))))))
| X4d -> Npos (XI (XO (XI (XI (XO (XO XH))))))
| X4e -> Npos (XO (XI (XI (XI (XO (XO XH))))))
| X4f -> Npos (XI (XI (XI (XI (XO (XO XH))))))
| X50 -> Npos (XO (XO (XO (XO (XI (XO XH))))))
| X51 -> Npos (XI (XO (XO (XO (XI (XO XH))))))
| X52 -> Npos (XO (XI (XO (XO (XI (XO XH))))))
| X53 -> Npos (XI (XI (XO (XO (XI (XO XH))))))
| X54 -> Npos (XO (XO (XI (XO (XI (XO XH))))))
| X55 -> Npos (XI (XO (XI (XO (XI (XO XH))))))
| X56 -> Npos (XO (XI (XI (XO (XI (XO XH))))))
| X57 -> Npos (XI (XI (XI (XO (XI (XO XH))))))
| X58 -> Npos (XO (XO (XO (XI (XI (XO XH))))))
| X59 -> Npos (XI (XO (XO (XI (XI (XO XH))))))
| X5a -> Npos (XO (XI (XO (XI (XI (XO XH))))))
| X5b -> Npos (XI (XI (XO (XI (XI (XO XH))))))
| X5c -> Npos (XO (XO (XI (XI (XI (XO XH))))))
| X5d -> Npos (XI (XO (XI (XI (XI (XO XH))))))
| X5e -> Npos (XO (XI (XI (XI (XI (XO XH))))))
| X5f -> Npos (XI (XI (XI (XI (XI (XO XH))))))
| X60 -> Npos (XO (XO (XO (XO (XO (XI XH))))))
| X61 -> Npos (XI (XO (XO (XO (XO (XI XH))))))
| X62 -> Npos (XO (XI (XO (XO (XO (XI XH))))))
| X63 -> Npos (XI (XI (XO (XO (XO (XI XH))))))
| X64 -> Npos (XO (XO (XI (XO (XO (XI XH))))))
| X65 -> Npos (XI (XO (XI (XO (XO (XI XH))))))
| X66 -> Npos (XO (XI (XI (XO (XO (XI XH))))))
| X67 -> Npos (XI (XI (XI (XO (XO (XI XH))))))
| X68 -> Npos (XO (XO (XO (XI (XO (XI XH))))))
| X69 -> Npos (XI (XO (XO (XI (XO (XI XH))))))
| X6a -> Npos (XO (XI (XO (XI (XO (XI XH))))))
| X6b -> Npos (XI (XI (XO (XI (XO (XI XH))))))
| X6c -> Npos (XO (XO (XI (XI (XO (XI XH))))))
| X6d -> Npos (XI (XO (XI (XI (XO (XI XH))))))
| X6e -> Npos (XO (XI (XI (XI (XO (XI XH))))))
| X6f -> Npos (XI (XI (XI (XI (XO (XI XH))))))
| X70 -> Npos (XO (XO (XO (XO (XI (XI XH))))))
| X71 -> Npos (XI (XO (XO (XO (XI (XI XH))))))
| X72 -> Npos (XO (XI (XO (XO (XI (XI XH))))))
| X73 -> Npos (XI (XI (XO (XO (XI (XI XH))))))
| X74 -> Npos (XO (XO (XI (XO (XI (XI XH))))))
| X75 -> Npos (XI (XO (XI (XO (XI (XI XH))))))
| X76 -> Npos (XO (XI (XI (XO (XI (XI XH))))))
| X77 -> Npos (XI (XI (XI (XO (XI (XI XH))))))
| X78 -> Npos (XO (XO (XO (XI (XI (XI XH))))))
| X79 -> Npos (XI (XO (XO (XI (XI (XI XH))))))
| X7a -> Npos (XO (XI (XO (XI (XI (XI XH))))))
| X7b -> Npos (XI (XI (XO (XI (XI (XI XH))))))
| X7c -> Npos (XO (XO (XI (XI (XI (XI XH))))))
| X7d -> Npos (XI (XO (XI (XI (XI (XI XH))))))
| X7e -> Npos (XO (XI (XI (XI (XI (XI XH))))))
| X7f -> Npos (XI (XI (XI (XI (XI (XI XH))))))
| X80 -> Npos (XO (XO (XO (XO (XO (XO (XO XH)))))))
| X81 -> Npos (XI (XO (XO (XO (XO (XO (XO XH)))))))
| X82 -> Npos (XO (XI (XO (XO (XO (XO (XO XH)))))))
| X83 -> Npos (XI (XI (XO (XO (XO (XO (XO XH)))))))
| X84 -> Npos (XO (XO (XI (XO (XO (XO (XO XH)))))))
| X85 -> Npos (XI (XO (XI (XO (XO (XO (XO XH)))))))
| X86 -> Npos (XO (XI (XI (XO (XO (XO (XO XH)))))))
| X87 -> Npos (XI (XI (XI (XO (XO (XO (XO XH)))))))
| X88 -> Npos (XO (XO (XO (XI (XO (XO (XO XH)))))))
| X89 -> Npos (XI (XO (XO (XI (XO (XO (XO XH)))))))
| X8a -> Npos (XO (XI (XO (XI (XO (XO (XO XH)))))))
| X8b -> Npos (XI (XI (XO (XI (XO (XO (XO XH)))))))
| X8c -> Npos (XO (XO (XI (XI (XO (XO (XO XH)))))))
| X8d -> Npos (XI (XO (XI (XI (XO (XO (XO XH)))))))
| X8e -> Npos (XO (XI (XI (XI (XO (XO (XO XH)))))))
| X8f -> Npos (XI (XI (XI (XI (XO (XO (XO XH)))))))
| X90 -> Npos (XO (XO (XO (XO (XI (XO (XO XH)))))))
| X91 -> Npos (XI (XO (XO (XO (XI (XO (XO XH)))))))
| X92 -> Npos (XO (XI (XO (XO (XI (XO (XO XH)))))))
| X93 -> Npos (XI (XI (XO (XO (XI (XO (XO XH)))))))
| X94 -> Npos (XO (XO (XI (XO (XI (XO (XO XH)))))))
| X95 -> Npos (XI (XO (XI (XO (XI (XO (XO XH)))))))
| X96 -> Npos (XO (XI (XI (XO (XI (XO (XO XH)))))))
| X97 -> Npos (XI (XI (XI (XO (XI (XO (XO XH)))))))
| X98 -> Npos (XO (XO (XO (XI (XI (XO (XO XH)))))))
| X99 -> Npos (XI (XO (XO (XI (XI (XO (XO XH)))))))
| X9a -> Npos (XO (XI (XO (XI (XI (XO (XO XH)))))))
| X9b -> Npos (XI (XI (XO (XI (XI (XO (XO XH)))))))
| X9c -> Npos (XO (XO (XI (XI (XI (XO (XO XH)))))))
| X9d -> Npos (XI (XO (XI (XI (XI (XO (XO XH)))))))
| X9e -> Npos (XO (XI (XI (XI (XI (XO (XO XH)))))))
| X9f -> Npos (XI (XI (XI (XI (XI (XO (XO XH)))))))
| Xa0 -> Npos (XO (XO (XO (XO (XO (XI (XO XH)))))))
| Xa1 -> Npos (XI (XO (XO (XO (XO (XI (XO XH)))))))
| Xa2 -> Npos (XO (XI (XO (XO (XO (XI (XO XH)))))))
| Xa3 -> Npos (XI (XI (XO (XO (XO (XI (XO XH)))))))
| Xa4 -> Npos (XO (XO (XI (XO (XO (XI (XO XH)))))))
| Xa5 -> Npos (XI (XO (XI (XO (XO (XI (XO XH)))))))
| Xa6 -> Npos (XO (XI (XI (XO (XO (XI (XO XH)))))))
| Xa7 -> Npos (XI (XI (XI (XO (XO (XI (XO XH)))))))
| Xa8 -> Npos (XO (XO (XO (XI (XO (XI (XO XH)))))))
| Xa9 -> Npos (XI (XO (XO (XI (XO (XI (XO XH)))))))
| Xaa -> Npos (XO (XI (XO (XI (XO (XI (XO XH)))))))
| Xab -> Npos (XI (XI (XO (XI (XO (XI (XO XH)))))))
| Xac -> Npos (XO (XO (XI (XI (XO (XI (XO XH)))))))
| Xad -> Npos (XI (XO (XI (XI (XO (XI (XO XH)))))))
| Xae -> Npos (XO (XI (XI (XI (XO (XI (XO XH)))))))
| Xaf -> Npos (XI (XI (XI (XI (XO (XI (XO XH)))))))
| Xb0 -> Npos (XO (XO (XO (XO (XI (XI (XO XH)))))))
| Xb1 -> Npos (XI (XO (XO (XO (XI (XI (XO XH)))))))
| Xb2 -> Npos (XO (XI (XO (XO (XI (XI (XO XH)))))))
| Xb3 -> Npos (XI (XI (XO (XO (XI (XI (XO XH)))))))
| Xb4 -> Npos (XO (XO (XI (XO (XI (XI (XO XH)))))))
| Xb5 -> Npos (XI (XO (XI (XO (XI (XI (XO XH)))))))
| Xb6 -> Npos (XO (XI (XI (XO (XI (XI (XO XH)))))))
| Xb7 -> Npos (XI (XI (XI (XO (XI (XI (XO XH)))))))
| Xb8 -> Npos (XO (XO (XO (XI (XI (XI (XO XH)))))))
| Xb9 -> Npos (XI (XO (XO (XI (XI (XI (XO XH)))))))
| Xba -> Npos (XO (XI (XO (XI (XI (XI (XO XH)))))))
| Xbb -> Npos (XI (XI (XO (XI (XI (XI (XO XH)))))))
| Xbc -> Npos (XO (XO (XI (XI (XI (XI (XO XH)))))))
| Xbd -> Npos (XI (XO (XI (XI (XI (XI (XO XH)))))))
| Xbe -> Npos (XO (XI (XI (XI (XI (XI (XO XH)))))))
| Xbf -> Npos (XI (XI (XI (XI (XI (XI (XO XH)))))))
| Xc0 -> Npos (XO (XO (XO (XO (XO (XO (XI XH)))))))
| Xc1 -> Npos (XI (XO (XO (XO (XO (XO (XI XH)))))))
| Xc2 -> Npos (XO (XI (XO (XO (XO (XO (XI XH)))))))
| Xc3 -> Npos (XI (XI (XO (XO (XO (XO (XI XH)))))))
| Xc4 -> Npos (XO (XO (XI (XO (XO (XO (XI XH)))))))
| Xc5 -> Npos (XI (XO (XI (XO (XO (XO (XI XH)))))))
| Xc6 -> Npos (XO (XI (XI (XO (XO (XO (XI XH)))))))
| Xc7 -> Npos (XI (XI (XI (XO (XO (XO (XI XH)))))))
| Xc8 -> Npos (XO (XO (XO (XI (XO (XO (XI XH)))))))
| Xc9 -> Npos (XI (XO (XO (XI (XO (XO (XI XH)))))))
| Xca -> Npos (XO (XI (XO (XI (XO (XO (XI XH)))))))
| Xcb -> Npos (XI (XI (XO (XI (XO (XO (XI XH)))))))
| Xcc -> Npos (XO (XO (XI (XI (XO (XO (XI XH)))))))
| Xcd -> Npos (XI (XO (XI (XI (XO (XO (XI XH)))))))
| Xce -> Npos (XO (XI (XI (XI (XO (XO (XI XH)))))))
| Xcf -> Npos (XI (XI (XI (XI (XO (XO (XI XH)))))))
| Xd0 -> Npos (XO (XO (XO (XO (XI (XO (XI XH)))))))
| Xd1 -> Npos (XI (XO (XO (XO (XI (XO (XI XH)))))))
| Xd2 -> Npos (XO (XI (XO (XO (XI (XO (XI XH)))))))
| Xd3 -> Npos (XI (XI (XO (XO (XI (XO (XI XH)))))))
| Xd4 -> Npos (XO (XO (XI (XO (XI (XO (XI XH)))))))
| Xd5 -> Npos (XI (XO (XI (XO (XI (XO (XI XH)))))))
| Xd6 -> Npos (XO (XI (XI (XO (XI (XO (XI XH)))))))
| Xd7 -> Npos (XI (XI (XI (XO (XI (XO (XI XH)))))))
| Xd8 -> Npos (XO (XO (XO (XI (XI (XO (XI XH)))))))
| Xd9 -> Npos (XI (XO (XO (XI (XI (XO (XI XH)))))))
| Xda -> Npos (XO (XI (XO (XI (XI (XO (XI XH)))))))
| Xdb -> Npos (XI (XI (XO (XI (XI (XO (XI XH)))))))
| Xdc -> Npos (XO (XO (XI (XI (XI (XO (XI XH)))))))
| Xdd -> Npos (XI (XO (XI (XI (XI (XO (XI XH)))))))
| Xde -> Npos (XO (XI (XI (XI (XI (XO (XI XH)))))))
| Xdf -> Npos (XI (XI (XI (XI (XI (XO (XI XH)))))))
| Xe0 -> Npos (XO (XO (XO (XO (XO (XI (XI XH)))))))
| Xe1 -> Npos (XI (XO (XO (XO (XO (XI (XI XH)))))))
| Xe2 -> Npos (XO (XI (XO (XO (XO (XI (XI XH)))))))
| Xe3 -> Npos (XI (XI (XO (XO (XO (XI (XI XH)))))))
| Xe4 -> Npos (XO (XO (XI (XO (XO (XI (XI XH)))))))
| Xe5 -> Npos (XI (XO (XI (XO (XO (XI (XI XH)))))))
| Xe6 -> Npos (XO (XI (XI (XO (XO (XI (XI XH)))))))
| Xe7 -> Npos (XI (XI (XI (XO (XO (XI (XI XH)))))))
| Xe8 -> Npos (XO (XO (XO (XI (XO (XI (XI XH)))))))
| Xe9 -> Npos (XI (XO (XO (XI (XO (XI (XI XH)))))))
| Xea -> Npos (XO (XI (XO (XI (XO (XI (XI XH)))))))
| Xeb -> Npos (XI (XI (XO (XI (XO (XI (XI XH)))))))
| Xec -> Npos (XO (XO (XI (XI (XO (XI (XI XH)))))))
| Xed -> Npos (XI (XO (XI (XI (XO (XI (XI XH)))))))
| Xee -> Npos (XO (XI (XI (XI (XO (XI (XI XH)))))))
| Xef -> Npos (XI (XI (XI (XI (XO (XI (XI XH)))))))
| Xf0 -> Npos (XO (XO (XO (XO (XI (XI (XI XH)))))))
| Xf1 -> Npos (XI (XO (XO (XO (XI (XI (XI XH)))))))
| Xf2 -> Npos (XO (XI (XO (XO (XI (XI (XI XH)))))))
| Xf3 -> Npos (XI (XI (XO (XO (XI (XI (XI XH)))))))
| Xf4 -> Npos (XO (XO (XI (XO (XI (XI (XI XH)))))))
| Xf5 -> Npos (XI (XO (XI (XO (XI (XI (XI XH)))))))
| Xf6 -> Npos (XO (XI (XI (XO (XI (XI (XI XH)))))))
| Xf7 -> Npos (XI (XI (XI (XO (XI (XI (XI XH)))))))
| Xf8 -> Npos (XO (XO (XO (XI (XI (XI (XI XH)))))))
| Xf9 -> Npos (XI (XO (XO (XI (XI (XI (XI XH)))))))
| Xfa -> Npos (XO (XI (XO (XI (XI (XI (XI XH)))))))
| Xfb -> Npos (XI (XI (XO (XI (XI (XI (XI XH)))))))
| Xfc -> Npos (XO (XO (XI (XI (XI (XI (XI XH)))))))
| Xfd -> Npos (XI (XO (XI (XI (XI (XI (XI XH)))))))
| Xfe -> Npos (XO (XI (XI (XI (XI (XI (XI XH)))))))
| Xff -> Npos (XI (XI (XI (XI (XI (XI (XI XH)))))))

(** val of_N : n -> byte option **)

let of_N = function
| N0 -> Some X00
| Npos p ->
  (match p with
   | XI p0 ->
     (match p0 with
      | XI p1 ->
        (match p1 with
         | XI p2 ->
           (match p2 with
            | XI p3 ->
              (match p3 with
               | XI p4 ->
                 (match p4 with
                  | XI p5 ->
                    (match p5 with
                     | XI p6 -> (match p6 with
                                 | XH -> Some Xff
                                 | _ -> None)
                     | XO p6 -> (match p6 with
                                 | XH -> Some Xbf
                                 | _ -> None)
                     | XH -> Some X7f)
                  | XO p5 ->
                    (match p5 with
                     | XI p6 -> (match p6 with
                                 | XH -> Some Xdf
                                 | _ -> None)
                     | XO p6 -> (match p6 with
                                 | XH -> Some X9f
                                 | _ -> None)
                     | XH -> Some X5f)
                  | XH -> Some X3f)
               | XO p4 ->
                 (match p4 with
                  | XI p5 ->
                    (match p5 with
                     | XI p6 -> (match p6 with
                                 | XH -> Some Xef
                                 | _ -> None)
                     | XO p6 -> (match p6 with
                                 | XH -> Some Xaf
                                 | _ -> None)
                     | XH -> Some X6f)
                  | XO p5 ->
                    (match p5 with
                     | XI p6 -> (match p6 with
                                 | XH -> Some Xcf
                                 | _ -> None)
                     | XO p6 -> (match p6 with
                                 | XH -> Some X8f
                                 | _ -> None)
                     | XH -> Some X4f)
                  | XH -> Some X2f)
               | XH -> Some X1f)
            | XO p3 ->
              (match p3 with
               | XI p4 ->
                 (match p4 with
                  | XI p5 ->
                    (match p5 with
                     | XI p6 -> (match p6 with
                                 | XH -> Some Xf7
                                 | _ -> None)
                     | XO p6 -> (match p6 with
                                 | XH -> Some Xb7
                                 | _ -> None)
                     | XH -> Some X77)
                  | XO p5 ->
                    (match p5 with
                     | XI p6 -> (match p6 with
                                 | XH -> Some Xd7
                                 | _ -> None)
                     | XO p6 -> (match p6 with
                                 | XH -> Some X97
                                 | _ -> None)
                     | XH -> Some X57)
                  | XH -> Some X37)
               | XO p4 ->
                 (match p4 with
                  | XI p5 ->
                    (match p5 with
                     | XI p6 -> (match p6 with
                                 | XH -> Some Xe7
                                 | _ -> None)
                     | XO p6 -> (match p6 with
                                 | XH -> Some Xa7
                                 | _ -> None)
                     | XH -> Some X67)
                  | XO p5 ->
                    (match p5 with
                     | XI p6 -> (match p6 with
                                 | XH -> Some Xc7
                                 | _ -> None)
                     | XO p6 -> (match p6 with
                                 | XH -> Some X87
                                 | _ -> None)
                     | XH -> Some X47)
                  | XH -> Some X27)
               | XH -> Some X17)
            | XH -> Some X0f)
         | XO p2 ->
           (match p2 with
            | XI p3 ->
              (match p3 with
               | XI p4 ->
                 (match p4 with
                  | XI p5 ->
                    (match p5 with
                     | XI p6 -> (match p6 with
                                 | XH -> Some Xfb
                                 | _ -> None)
                     | XO p6 -> (match p6 with
                                 | XH -> Some Xbb
                                 | _ -> None)
                     | XH -> Some X7b)
                  | XO p5 ->
                    (match p5 with
                     | XI p6 -> (match p6 with
                                 | XH -> Some Xdb
                                 | _ -> None)
                     | XO p6 -> (match p6 with
                                 | XH -> Some X9b
                                 | _ -> None)
                     | XH -> Some X5b)
                  | XH -> Some X3b)
               | XO p4 ->
                 (match p4 with
                  | XI p5 ->
                    (match p5 with
                     | XI p6 -> (match p6 with
                                 | XH -> Some Xeb
                                 | _ -> None)
                     | XO p6 -> (match p6 with
                                 | XH -> Some Xab
                                 | _ -> None)
                     | XH -> Some X6b)
                  | XO p5 ->
                    (match p5 with
                     | XI p6 -> (match p6 with
                                 | XH -> Some Xcb
                                 | _ -> None)
                     | XO p6 -> (match p6 with
                                 | XH -> Some X8b
                                 | _ -> None)
                     | XH -> Some X4b)
                  | XH -> Some X2b)
               | XH -> Some X1b)
            | XO p3 ->
              (match p3 with
               | XI p4 ->
                 (match p4 with
                  | XI p5 ->
                    (match p5 with
                     | XI p6 -> (match p6 with
                                 | XH -> Some Xf3
                                 | _ -> None)
                     | XO p6 -> (match p6 with
                                 | XH -> Some Xb3
                                 | _ -> None)
                     | XH -> Some X73)
                  | XO p5 ->
                    (match p5 with
                     | XI p6 -> (match p6 with
                                 | XH -> Some Xd3
                                 | _ -> None)
                     | XO p6 -> (match p6 with
                                 | XH -> Some X93
                                 | _ -> None)
                     | XH -> Some X53)
                  | XH -> Some X33)
               | XO p4 ->
                 (match p4 with
                  | XI p5 ->
                    (match p5 with
                     | XI p6 -> (match p6 with
                                 | XH -> Some Xe3
                                 | _ -> None)
                     | XO p6 -> (match p6 with
                                 | XH -> Some Xa3
                                 | _ -> None)
                     | XH -> Some X63)
                  | XO p5 ->
                    (match p5 with
                     | XI p6 -> (match p6 with
                                 | XH -> Some Xc3
                                 | _ -> None)
                     | XO p6 -> (match p6 with
                                 | XH -> Some X83
                                 | _ -> None)
                     | XH -> Some X43)
                  | XH -> Some X23)
               | XH -> Some X13)
            | XH -> Some X0b)
         | XH -> Some X07)
      | XO p1 ->
        (match p1 with
         | XI p2 ->
           (match p2 with
            | XI p3 ->
              (match p3 with
               | XI p4 ->
                 (match p4 with
                  | XI p5 ->
                    (match p5 with
                     | XI p6 -> (match p6 with
                                 | XH -> Some Xfd
                                 | _ -> None)
                     | XO p6 -> (match p6 with
                                 | XH -> Some Xbd
                                 | _ -> None)
                     | XH -> Some X7d)
                  | XO p5 ->
                    (match p5 with
                     | XI p6 -> (match p6 with
                                 | XH -> Some Xdd
                                 | _ -> None)
                     | XO p6 -> (match p6 with
                                 | XH -> Some X9d
                                 | _ -> None)
                     | XH -> Some X5d)
                  | XH -> Some X3d)
               | XO p4 ->
                 (match p4 with
                  | XI p5 ->
                    (match p5 with
                     | XI p6 -> (match p6 with
                                 | XH -> Some Xed
                                 | _ -> None)
                     | XO p6 -> (match p6 with
                                 | XH -> Some Xad
                                 | _ -> None)
                     | XH -> Some X6d)
                  | XO p5 ->
                    (match p5 with
                     | XI p6 -> (match p6 with
                                 | XH -> Some Xcd
                                 | _ -> None)
                     | XO p6 -> (match p6 with
                                 | XH -> Some X8d
                                 | _ -> None)
                     | XH -> Some X4d)
                  | XH -> Some X2d)
               | XH -> Some X1d)
            | XO p3 ->
              (match p3 with
               | XI p4 ->
                 (match p4 with
                  | XI p5 ->
                    (match p5 with
                     | XI p6 -> (match p6 with
                                 | XH -> Some Xf5
                                 | _ -> None)
                     | XO p6 -> (match p6 with
                                 | XH -> Some Xb5
                                 | _ -> None)
                     | XH -> Some X75)
                  | XO p5 ->
                    (match p5 with
                     | XI p6 -> (match p6 with
                                 | XH -> Some Xd5
                                 | _ -> None)
                     | XO p6 -> (match p6 with
                                 | XH -> Some X95
                                 | _ -> None)
                     | XH -> Some X55)
                  | XH -> Some X35)
               | XO p4 ->
                 (match p4 with
                  | XI p5 ->
                    (match p5 with
                     | XI p6 -> (match p6 with
                                 | XH -> Some Xe5
                                 | _ -> None)
                     | XO p6 -> (match p6 with
                                 | XH -> Some Xa5
                                 | _ -> None)
                     | XH -> Some X65)
                  | XO p5 ->
                    (match p5 with
                     | XI p6 -> (match p6 with
                                 | XH -> Some Xc5
                                 | _ -> None)
                     | XO p6 -> (match p6 with
                                 | XH -> Some X85
                                 | _ -> None)
                     | XH -> Some X45)
                  | XH -> Some X25)
               | XH -> Some X15)
            | XH -> Some X0d)
         | XO p2 ->
           (match p2 with
            | XI p3 ->
              (match p3 with
               | XI p4 ->
                 (match p4 with
                  | XI p5 ->
                    (match p5 with
                     | XI p6 -> (match p6 with
                                 | XH -> Some Xf9
                                 | _ -> None)
                     | XO p6 -> (match p6 with
                                 | XH -> Some Xb9
                                 | _ -> None)
                     | XH -> Some X79)
                  | XO p5 ->
                    (match p5 with
                     | XI p6 -> (match p6 with
                                 | XH -> Some Xd9
                                 | _ -> None)
                     | XO p6 -> (match p6 with
                                 | XH -> Some X99
                                 | _ -> None)
                     | XH -> Some X59)
                  | XH -> Some X39)
               | XO p4 ->
                 (match p4 with
                  | XI p5 ->
                    (match p5 with
                     | XI p6 -> (match p6 with
                                 | XH -> Some Xe9
                                 | _ -> None)
                     | XO p6 -> (match p6 with
                                 | XH -> Some Xa9
                                 | _ -> None)
                     | XH -> Some X69)
                  | XO p5 ->
                    (match p5 with
                     | XI p6 -> (match p6 with
                                 | XH -> Some Xc9
                                 | _ -> None)
                     | XO p6 -> (match p6 with
                                 | XH -> Some X89
                                 | _ -> None)
                     | XH -> Some X49)
                  | XH -> Some X29)
               | XH -> Some X19)
            | XO p3 ->
              (match p3 with
               | XI p4 ->
                 (match p4 with
                  | XI p5 ->
                    (match p5 with
                     | XI p6 -> (match p6 with
                                 | XH -> Some Xf1
                                 | _ -> None)
                     | XO p6 -> (match p6 with
                                 | XH -> Some Xb1
                                 | _ -> None)
                     | XH -> Some X71)
                  | XO p5 ->
                    (match p5 with
                     | XI p6 -> (match p6 with
                                 | XH -> Some Xd1
                                 | _ -> None)
                     | XO p6 -> (match p6 with
                                 | XH -> Some X91
                                 | _ -> None)
                     | XH -> Some X51)
                  | XH -> Some X31)
               | XO p4 ->
                 (match p4 with
                  | XI p5 ->
                    (match p5 with
                     | XI p6 -> (match p6 with
                                 | XH -> Some Xe1
                                 | _ -> None)
                     | XO p6 -> (match p6 with
                                 | XH -> Some Xa1
                                 | _ -> None)
                     | XH -> Some X61)
                  | XO p5 ->
                    (match p5 with
                     | XI p6 -> (match p6 with
                                 | XH -> Some Xc1
                                 | _ -> None)
                     | XO p6 -> (match p6 with
                                 | XH -> Some X81
                                 | _ -> None)
                     | XH -> Some X41)
                  | XH -> Some X21)
               | XH -> Some X11)
            | XH -> Some X09)
         | XH -> Some X05)
      | XH -> Some X03)
   | XO p0 ->
     (match p0 with
      | XI p1 ->
        (match p1 with
         | XI p2 ->
           (match p2 with
            | XI p3 ->
              (match p3 with
               | XI p4 ->
                 (match p4 with
                  | XI p5 ->
                    (match p5 with
                     | XI p6 -> (match p6 with
                                 | XH -> Some Xfe
                                 | _ -> None)
                     | XO p6 -> (match p6 with
                                 | XH -> Some Xbe
                                 | _ -> None)
                     | XH -> Some X7e)
                  | XO p5 ->
                    (match p5 with
                     | XI p6 -> (match p6 with
                                 | XH -> Some Xde
                                 | _ -> None)
                     | XO p6 -> (match p6 with
                                 | XH -> Some X9e
                                 | _ -> None)
                     | XH -> Some X5e)
                  | XH -> Some X3e)
               | XO p4 ->
                 (match p4 with
                  | XI p5 ->
                    (match p5 with
                     | XI p6 -> (match p6 with
                                 | XH -> Some Xee
                                 | _ -> None)
                     | XO p6 -> (match p6 with
                                 | XH -> Some Xae
                                 | _ -> None)
                     | XH -> Some X6e)
                  | XO p5 ->
                    (match p5 with
                     | XI p6 -> (match p6 with
                                 | XH -> Some Xce
                                 | _ -> None)
                     | XO p6 -> (match p6 with
                                 | XH -> Some X8e
                                 | _ -> None)
                     | XH -> Some X4e)
                  | XH -> Some X2e)
               | XH -> Some X1e)
            | XO p3 ->
              (match p3 with
               | XI p4 ->
                 (match p4 with
                  | XI p5 ->
                    (match p5 with
                     | XI p6 -> (match p6 with
                                 | XH -> Some Xf6
                                 | _ -> None)
                     | XO p6 -> (match p6 with
                                 | XH -> Some Xb6
                                 | _ -> None)
                     | XH -> Some X76)
                  | XO p5 ->
                    (match p5 with
                     | XI p6 -> (match p6 with
                                 | XH -> Some Xd6
                                 | _ -> None)
                     | XO p6 -> (match p6 with
                                 | XH -> Some X96
                                 | _ -> None)
                     | XH -> Some X56)
                  | XH -> Some X36)
               | XO p4 ->
                 (match p4 with
                  | XI p5 ->
                    (match p5 with
                     | XI p6 -> (match p6 with
                                 | XH -> Some Xe6
                                 | _ -> None)
                     | XO p6 -> (match p6 with
                                 | XH -> Some Xa6
                                 | _ -> None)
                     | XH -> Some X66)
                  | XO p5 ->
                    (match p5 with
                     | XI p6 -> (match p6 with
                                 | XH -> Some Xc6
                                 | _ -> None)
                     | XO p6 -> (match p6 with
                                 | XH -> Some X86
                                 | _ -> None)
                     | XH -> Some X46)
                  | XH -> Some X26)
               | XH -> Some X16)
            | XH -> Some X0e)
         | XO p2 ->
           (match p2 with
            | XI p3 ->
              (match p3 with
               | XI p4 ->
                 (match p4 with
                  | XI p5 ->
                    (match p5 with
                     | XI p6 -> (match p6 with
                                 | XH -> Some Xfa
                                 | _ -> None)
                     | XO p6 -> (match p6 with
                                 | XH -> Some Xba
                                 | _ -> None)
                     | XH -> Some X7a)
                  | XO p5 ->
                    (match p5 with
                     | XI p6 -> (match p6 with
                                 | XH -> Some Xda
                                 | _ -> None)
                     | XO p6 -> (match p6 with
                                 | XH -> Some X9a
                                 | _ -> None)
                     | XH -> Some X5a)
                  | XH -> Some X3a)
               | XO p4 ->
                 (match p4 with
                  | XI p5 ->
                    (match p5 with
                     | XI p6 -> (match p6 with
                                 | XH -> Some Xea
                                 | _ -> None)
                     | XO p6 -> (match p6 with
                                 | XH -> Some Xaa
                                 | _ -> None)
                     | XH -> Some X6a)
                  | XO p5 ->
                    (match p5 with
                     | XI p6 -> (match p6 with
                                 | XH -> Some Xca
                                 | _ -> None)
                     | XO p6 -> (match p6 with
                                 | XH -> Some X8a
                                 | _ -> None)
                     | XH -> Some X4a)
                  | XH -> Some X2a)
               | XH -> Some X1a)
            | XO p3 ->
              (match p3 with
               | XI p4 ->
                 (match p4 with
                  | XI p5 ->
                    (match p5 with
                     | XI p6 -> (match p6 with
                                 | XH -> Some Xf2
                                 | _ -> None)
                     | XO p6 -> (match p6 with
                                 | XH -> Some Xb2
                                 | _ -> None)
                     | XH -> Some X72)
                  | XO p5 ->
                    (match p5 with
                     | XI p6 -> (match p6 with
                                 | XH -> Some Xd2
                                 | _ -> None)
                     | XO p6 -> (match p6 with
                                 | XH -> Some X92
                                 | _ -> None)
                     | XH -> Some X52)
                  | XH -> Some X32)
               | XO p4 ->
                 (match p4 with
                  | XI p5 ->
                    (match p5 with
                     | XI p6 -> (match p6 with
                                 | XH -> Some Xe2
                                 | _ -> None)
                     | XO p6 -> (match p6 with
                                 | XH -> Some Xa2
                                 | _ -> None)
                     | XH -> Some X62)
                  | XO p5 ->
                    (match p5 with
                     | XI p6 -> (match p6 with
                                 | XH -> Some Xc2
                                 | _ -> None)
                     | XO p6 -> (match p6 with
                                 | XH -> Some X82
                                 | _ -> None)
                     | XH -> Some X42)
                  | XH -> Some X22)
               | XH -> Some X12)
            | XH -> Some X0a)
         | XH -> Some X06)
      | XO p1 ->
        (match p1 with
         | XI p2 ->
           (match p2 with
            | XI p3 ->
              (match p3 with
               | XI p4 ->
                 (match p4 with
                  | XI p5 ->
                    (match p5 with
                     | XI p6 -> (match p6 with
                                 | XH -> Some Xfc
                                 | _ -> None)
                     | XO p6 -> (match p6 with
                                 | XH -> Some Xbc
                                 | _ -> None)
                     | XH -> Some X7c)
                  | XO p5 ->
                    (match p5 with
                     | XI p6 -> (match p6 with
                                 | XH -> Some Xdc
                                 | _ -> None)
                     | XO p6 -> (match p6 with
                                 | XH -> Some X9c
                                 | _ -> None)
                     | XH -> Some X5c)
                  | XH -> Some X3c)
               | XO p4 ->
                 (match p4 with
                  | XI p5 ->
                    (match p5 with
                     | XI p6 -> (match p6 with
                                 | XH -> Some Xec
                                 | _ -> None)
                     | XO p6 -> (match p6 with
                                 | XH -> Some Xac
                                 | _ -> None)
                     | XH -> Some X6c)
                  | XO p5 ->
                    (match p5 with
                     | XI p6 -> (match p6 with
                                 | XH -> Some Xcc
                                 | _ -> None)
                     | XO p6 -> (match p6 with
                                 | XH -> Some X8c
                                 | _ -> None)
                     | XH -> Some X4c)
                  | XH -> Some X2c)
               | XH -> Some X1c)
            | XO p3 ->
              (match p3 with
               | XI p4 ->
                 (match p4 with
                  | XI p5 ->
                    (match p5 with
                     | XI p6 -> (match p6 with
                                 | XH -> Some Xf4
                                 | _ -> None)
                     | XO p6 -> (match p6 with
                                 | XH -> Some Xb4
                                 | _ -> None)
                     | XH -> Some X74)
                  | XO p5 ->
                    (match p5 with
                     | XI p6 -> (match p6 with
                                 | XH -> Some Xd4
                                 | _ -> None)
                     | XO p6 -> (match p6 with
                                 | XH -> Some X94
                                 | _ -> None)
                     | XH -> Some X54)
                  | XH -> Some X34)
               | XO p4 ->
                 (match p4 with
                  | XI p5 ->
                    (match p5 with
                     | XI p6 -> (match p6 with
                                 | XH -> Some Xe4
                                 | _ -> None)
                     | XO p6 -> (match p6 with
                                 | XH -> Some Xa4
                                 | _ -> None)
                     | XH -> Some X64)
                  | XO p5 ->
                    (match p5 with
                     | XI p6 -> (match p6 with
                                 | XH -> Some Xc4
                                 | _ -> None)
                     | XO p6 -> (match p6 with
                                 | XH -> Some X84
                                 | _ -> None)
                     | XH -> Some X44)
                  | XH -> Some X24)
               | XH -> Some X14)
            | XH -> Some X0c)
         | XO p2 ->
           (match p2 with
            | XI p3 ->
              (match p3 with
               | XI p4 ->
                 (match p4 with
                  | XI p5 ->
                    (match p5 with
                     | XI p6 -> (match p6 with
                                 | XH -> Some Xf8
                                 | _ -> None)
                     | XO p6 -> (match p6 with
                                 | XH -> Some Xb8
                                 | _ -> None)
                     | XH -> Some X78)
                  | XO p5 ->
                    (match p5 with
                     | XI p6 -> (match p6 with
                                 | XH -> Some Xd8
                                 | _ -> None)
                     | XO p6 -> (match p6 with
                                 | XH -> Some X98
                                 | _ -> None)
                     | XH -> Some X58)
                  | XH -> Some X38)
               | XO p4 ->
                 (match p4 with
                  | XI p5 ->
                    (match p5 with
                     | XI p6 -> (match p6 with
                                 | XH -> Some Xe8
                                 | _ -> None)
                     | XO p6 -> (match p6 with
                                 | XH -> Some Xa8
                                 | _ -> None)
                     | XH -> Some X68)
                  | XO p5 ->
                    (match p5 with
                     | XI p6 -> (match p6 with
                                 | XH -> Some Xc8
                                 | _ -> None)
                     | XO p6 -> (match p6 with
                                 | XH -> Some X88
                                 | _ -> None)
                     | XH -> Some X48)
                  | XH -> Some X28)
               | XH -> Some X18)
            | XO p3 ->
              (match p3 with
               | XI p4 ->
                 (match p4 with
                  | XI p5 ->
                    (match p5 with
                     | XI p6 -> (match p6 with
                                 | XH -> Some Xf0
                                 | _ -> None)
                     | XO p6 -> (match p6 with
                                 | XH -> Some Xb0
                                 | _ -> None)
                     | XH -> Some X70)
                  | XO p5 ->
                    (match p5 with
                     | XI p6 -> (match p6 with
                                 | XH -> Some Xd0
                                 | _ -> None)
                     | XO p6 -> (match p6 with
                                 | XH -> Some X90
                                 | _ -> None)
                     | XH -> Some X50)
                  | XH -> Some X30)
               | XO p4 ->
                 (match p4 with
                  | XI p5 ->
                    (match p5 with
                     | XI p6 -> (match p6 with
                                 | XH -> Some Xe0
                                 | _ -> None)
                     | XO p6 -> (match p6 with
                                 | XH -> Some Xa0
                                 | _ -> None)
                     | XH -> Some X60)
                  | XO p5 ->
                    (match p5 with
                     | XI p6 -> (match p6 with
                                 | XH -> Some Xc0
                                 | _ -> None)
                     | XO p6 -> (match p6 with
                                 | XH -> Some X80
                                 | _ -> None)
                     | XH -> Some X40)
                  | XH -> Some X20)
               | XH -> Some X10)
            | XH -> Some X08)
         | XH -> Some X04)
      | XH -> Some X02)
   | XH -> Some X01)

type ascii =
| Ascii of bool * bool * bool * bool * bool * bool * bool * bool

type string =
| EmptyString
| String of ascii * string

type bytes = byte list

(** val byte_of_N : n -> byte **)

let byte_of_N n0 =
  match of_N n0 with
  | Some b -> b
  | None -> X00

(** val n_of_byte : byte -> n **)

let n_of_byte =
  to_N

type bytes0 = bytes

type sz =
| SzN
| SzNm1
| SzLen
| SzLenP1
| SzMinLenNm1
| SzMinLenP1N
| SzConst of nat
| SzUnknown

type stmt =
| Strncpy of sz
| Memcpy of sz
| PokeNul of sz
| Snprintf of sz
| IfPos of stmt list
| Unrecognised

(** val eval_sz : sz -> nat -> nat -> nat option **)

let eval_sz e len n0 =
  match e with
  | SzN -> Some n0
  | SzNm1 -> if Nat.eqb n0 O then None else Some (sub n0 (S O))
  | SzLen -> Some len
  | SzLenP1 -> Some (add len (S O))
  | SzMinLenNm1 ->
    if Nat.eqb n0 O then None else Some (Nat.min len (sub n0 (S O)))
  | SzMinLenP1N -> Some (Nat.min (add len (S O)) n0)
  | SzConst k -> Some k
  | SzUnknown -> None

(** val strncpy_bytes : bytes0 -> nat -> bytes0 **)

let strncpy_bytes src count =
  app (firstn count src) (repeat X00 (sub count (length src)))

(** val write0 : bytes0 -> bytes0 -> bytes0 option **)

let write0 bs buf =
  if Nat.leb (length bs) (length buf)
  then Some (app bs (skipn (length bs) buf))
  else None

(** val poke : nat -> byte -> bytes0 -> bytes0 option **)

let poke i b buf =
  if Nat.ltb i (length buf)
  then Some (app (firstn i buf) (b :: (skipn (S i) buf)))
  else None

(** val exec_stmt :
    nat -> stmt -> bytes0 -> nat -> bytes0 -> bytes0 option **)

let rec exec_stmt fuel s src n0 buf =
  match fuel with
  | O -> None
  | S fuel' ->
    let exec_list =
      let rec go l buf0 =
        match l with
        | [] -> Some buf0
        | s0 :: l' ->
          (match exec_stmt fuel' s0 src n0 buf0 with
           | Some b -> go l' b
           | None -> None)
      in go
    in
    (match s with
     | Strncpy c ->
       (match eval_sz c (length src) n0 with
        | Some k -> write0 (strncpy_bytes src k) buf
        | None -> None)
     | Memcpy c ->
       (match eval_sz c (length src) n0 with
        | Some k ->
          if Nat.leb k (add (length src) (S O))
          then write0 (firstn k (app src (X00 :: []))) buf
          else None
        | None -> None)
     | PokeNul i ->
       (match eval_sz i (length src) n0 with
        | Some k -> poke k X00 buf
        | None -> None)
     | Snprintf c ->
       (match eval_sz c (length src) n0 with
        | Some n1 ->
          (match n1 with
           | O -> Some buf
           | S k -> write0 (app (firstn k src) (X00 :: [])) buf)
        | None -> None)
     | IfPos body -> if Nat.eqb n0 O then Some buf else exec_list body buf
     | Unrecognised -> None)

(** val exec :
    nat -> stmt list -> bytes0 -> nat -> bytes0 -> bytes0 option **)

let rec exec fuel l src n0 buf =
  match l with
  | [] -> Some buf
  | s :: l' ->
    (match exec_stmt fuel s src n0 buf with
     | Some b -> exec fuel l' src n0 b
     | None -> None)

(** val run : stmt list -> bytes0 -> nat -> bytes0 -> bytes0 option **)

let run l src n0 buf =
  exec (S (S (S (S O)))) l src n0 buf

(** val byte_eqb : byte -> byte -> bool **)

let byte_eqb =
  eqb0

(** val bytes_eqb : bytes0 -> bytes0 -> bool **)

let rec bytes_eqb a b =
  match a with
  | [] -> (match b with
           | [] -> true
           | _ :: _ -> false)
  | x :: a' ->
    (match b with
     | [] -> false
     | y :: b' -> (&&) (byte_eqb x y) (bytes_eqb a' b'))

(** val copy_postb : bytes0 -> nat -> bytes0 -> bytes0 -> bool **)

let copy_postb src n0 buf b =
  (&&)
    ((&&) (Nat.eqb (length b) (length buf))
      (bytes_eqb (skipn n0 b) (skipn n0 buf)))
    (let k = Nat.min (length src) (sub n0 (S O)) in
     (&&) (bytes_eqb (firstn k b) (firstn k src)) (byte_eqb (nth k b X01) X00))

(** val idiom_ok : stmt list -> bool **)

let idiom_ok = function
| [] -> false
| s :: l0 ->
  (match s with
   | Strncpy count ->
     (match count with
      | SzN ->
        (match l0 with
         | [] -> false
         | s0 :: l1 ->
           (match s0 with
            | PokeNul idx ->
              (match idx with
               | SzNm1 -> (match l1 with
                           | [] -> true
                           | _ :: _ -> false)
               | _ -> false)
            | IfPos body ->
              (match body with
               | [] -> false
               | s1 :: l2 ->
                 (match s1 with
                  | PokeNul idx ->
                    (match idx with
                     | SzNm1 ->
                       (match l2 with
                        | [] -> (match l1 with
                                 | [] -> true
                                 | _ :: _ -> false)
                        | _ :: _ -> false)
                     | _ -> false)
                  | _ -> false))
            | _ -> false))
      | SzNm1 ->
        (match l0 with
         | [] -> false
         | s0 :: l1 ->
           (match s0 with
            | PokeNul idx ->
              (match idx with
               | SzNm1 -> (match l1 with
                           | [] -> true
                           | _ :: _ -> false)
               | _ -> false)
            | _ -> false))
      | _ -> false)
   | Memcpy count ->
     (match count with
      | SzMinLenNm1 ->
        (match l0 with
         | [] -> false
         | s0 :: l1 ->
           (match s0 with
            | PokeNul idx ->
              (match idx with
               | SzMinLenNm1 -> (match l1 with
                                 | [] -> true
                                 | _ :: _ -> false)
               | _ -> false)
            | _ -> false))
      | _ -> false)
   | Snprintf size ->
     (match size with
      | SzN -> (match l0 with
                | [] -> true
                | _ :: _ -> false)
      | _ -> false)
   | IfPos body ->
     (match body with
      | [] -> false
      | s0 :: l1 ->
        (match s0 with
         | Strncpy count ->
           (match count with
            | SzN ->
              (match l1 with
               | [] -> false
               | s1 :: l2 ->
                 (match s1 with
                  | PokeNul idx ->
                    (match idx with
                     | SzNm1 ->
                       (match l2 with
                        | [] -> (match l0 with
                                 | [] -> true
                                 | _ :: _ -> false)
                        | _ :: _ -> false)
                     | _ -> false)
                  | _ -> false))
            | SzNm1 ->
              (match l1 with
               | [] -> false
               | s1 :: l2 ->
                 (match s1 with
                  | PokeNul idx ->
                    (match idx with
                     | SzNm1 ->
                       (match l2 with
                        | [] -> (match l0 with
                                 | [] -> true
                                 | _ :: _ -> false)
                        | _ :: _ -> false)
                     | _ -> false)
                  | _ -> false))
            | _ -> false)
         | Memcpy count ->
           (match count with
            | SzMinLenNm1 ->
              (match l1 with
               | [] -> false
               | s1 :: l2 ->
                 (match s1 with
                  | PokeNul idx ->
                    (match idx with
                     | SzMinLenNm1 ->
                       (match l2 with
                        | [] -> (match l0 with
                                 | [] -> true
                                 | _ :: _ -> false)
                        | _ :: _ -> false)
                     | _ -> false)
                  | _ -> false))
            | _ -> false)
         | _ -> false))
   | _ -> false)

type site = { site_name : string; site_prog : stmt list }

(** val copy_sites : site list **)

let copy_sites =
  { site_name = (String ((Ascii (false, true, false, false, true, false,
    true, false)), (String ((Ascii (true, false, false, true, false, true,
    true, false)), (String ((Ascii (true, false, true, true, false, true,
    true, false)), (String ((Ascii (true, false, true, false, false, true,
    true, false)), (String ((Ascii (true, true, false, false, false, false,
    true, false)), (String ((Ascii (true, true, true, true, false, true,
    true, false)), (String ((Ascii (false, true, true, true, false, true,
    true, false)), (String ((Ascii (false, true, true, false, false, true,
    true, false)), (String ((Ascii (true, false, false, true, false, true,
    true, false)), (String ((Ascii (true, true, true, false, false, true,
    true, false)), (String ((Ascii (true, true, true, false, false, false,
    true, false)), (String ((Ascii (true, false, true, false, false, true,
    true, false)), (String ((Ascii (false, false, true, false, true, true,
    true, false)), (String ((Ascii (true, true, false, false, true, false,
    true, false)), (String ((Ascii (false, false, true, false, true, true,
    true, false)), (String ((Ascii (false, true, false, false, true, true,
    true, false)), (String ((Ascii (true, false, false, true, false, true,
    true, false)), (String ((Ascii (false, true, true, true, false, true,
    true, false)), (String ((Ascii (true, true, true, false, false, true,
    true, false)), EmptyString))))))))))))))))))))))))))))))))))))));
    site_prog = ((Strncpy SzN) :: ((IfPos ((PokeNul
    SzNm1) :: [])) :: [])) } :: ({ site_name = (String ((Ascii (false, true,
    false, false, true, false, true, false)), (String ((Ascii (true, false,
    false, true, false, true, true, false)), (String ((Ascii (true, false,
    true, true, false, true, true, false)), (String ((Ascii (true, false,
    true, false, false, true, true, false)), (String ((Ascii (true, true,
    true, false, false, false, true, false)), (String ((Ascii (true, false,
    true, false, false, true, true, false)), (String ((Ascii (false, false,
    true, false, true, true, true, false)), (String ((Ascii (true, true,
    false, false, false, false, true, false)), (String ((Ascii (true, false,
    true, false, true, true, true, false)), (String ((Ascii (false, true,
    false, false, true, true, true, false)), (String ((Ascii (false, true,
    false, false, true, true, true, false)), (String ((Ascii (true, false,
    true, false, false, true, true, false)), (String ((Ascii (false, true,
    true, true, false, true, true, false)), (String ((Ascii (false, false,
    true, false, true, true, true, false)), (String ((Ascii (true, true,
    false, false, true, false, true, false)), (String ((Ascii (true, true,
    false, false, false, true, true, false)), (String ((Ascii (false, false,
    false, true, false, true, true, false)), (String ((Ascii (true, false,
    true, false, false, true, true, false)), (String ((Ascii (true, false,
    true, true, false, true, true, false)), (String ((Ascii (true, false,
    false, false, false, true, true, false)),
    EmptyString)))))))))))))))))))))))))))))))))))))))); site_prog =
    ((Strncpy SzN) :: ((IfPos ((PokeNul
    SzNm1) :: [])) :: [])) } :: ({ site_name = (String ((Ascii (false, true,
    false, false, true, false, true, false)), (String ((Ascii (true, false,
    false, true, false, true, true, false)), (String ((Ascii (true, false,
    true, true, false, true, true, false)), (String ((Ascii (true, false,
    true, false, false, true, true, false)), (String ((Ascii (true, true,
    true, false, false, false, true, false)), (String ((Ascii (true, false,
    true, false, false, true, true, false)), (String ((Ascii (false, false,
    true, false, true, true, true, false)), (String ((Ascii (false, false,
    false, false, true, false, true, false)), (String ((Ascii (false, true,
    false, false, true, true, true, false)), (String ((Ascii (true, false,
    true, false, false, true, true, false)), (String ((Ascii (false, true,
    false, false, false, true, true, false)), (String ((Ascii (true, false,
    true, false, true, true, true, false)), (String ((Ascii (true, false,
    false, true, false, true, true, false)), (String ((Ascii (false, false,
    true, true, false, true, true, false)), (String ((Ascii (false, false,
    true, false, true, true, true, false)), (String ((Ascii (false, false,
    true, false, false, false, true, false)), (String ((Ascii (true, false,
    false, false, false, true, true, false)), (String ((Ascii (false, false,
    true, false, true, true, true, false)), (String ((Ascii (true, false,
    false, false, false, true, true, false)), (String ((Ascii (false, false,
    true, false, false, false, true, false)), (String ((Ascii (true, false,
    false, true, false, true, true, false)), (String ((Ascii (false, true,
    false, false, true, true, true, false)), (String ((Ascii (true, true,
    false, false, true, false, true, false)), (String ((Ascii (true, false,
    true, false, false, true, true, false)), (String ((Ascii (true, true,
    false, false, false, true, true, false)), (String ((Ascii (true, false,
    true, false, true, true, true, false)), (String ((Ascii (false, true,
    false, false, true, true, true, false)), (String ((Ascii (true, false,
    true, false, false, true, true, false)),
    EmptyString))))))))))))))))))))))))))))))))))))))))))))))))))))))));
    site_prog = ((Strncpy SzN) :: ((IfPos ((PokeNul
    SzNm1) :: [])) :: [])) } :: ({ site_name = (String ((Ascii (false, true,
    false, false, true, false, true, false)), (String ((Ascii (true, false,
    false, true, false, true, true, false)), (String ((Ascii (true, false,
    true, true, false, true, true, false)), (String ((Ascii (true, false,
    true, false, false, true, true, false)), (String ((Ascii (true, true,
    true, false, false, false, true, false)), (String ((Ascii (true, false,
    true, false, false, true, true, false)), (String ((Ascii (false, false,
    true, false, true, true, true, false)), (String ((Ascii (false, false,
    false, false, true, false, true, false)), (String ((Ascii (false, true,
    false, false, true, true, true, false)), (String ((Ascii (true, true,
    true, true, false, true, true, false)), (String ((Ascii (false, false,
    false, false, true, true, true, false)), (String ((Ascii (true, false,
    true, false, false, true, true, false)), (String ((Ascii (false, true,
    false, false, true, true, true, false)), (String ((Ascii (false, false,
    true, false, true, true, true, false)), (String ((Ascii (true, false,
    false, true, true, true, true, false)),
    EmptyString)))))))))))))))))))))))))))))); site_prog = ((Strncpy
    SzN) :: ((IfPos ((PokeNul SzNm1) :: [])) :: [])) } :: ({ site_name =
    (String ((Ascii (false, true, false, false, true, false, true, false)),
    (String ((Ascii (true, false, false, true, false, true, true, false)),
    (String ((Ascii (true, false, true, true, false, true, true, false)),
    (String ((Ascii (true, false, true, false, false, true, true, false)),
    (String ((Ascii (true, true, true, false, false, false, true, false)),
    (String ((Ascii (true, false, true, false, false, true, true, false)),
    (String ((Ascii (false, false, true, false, true, true, true, false)),
    (String ((Ascii (true, true, false, false, true, false, true, false)),
    (String ((Ascii (false, false, false, true, false, true, true, false)),
    (String ((Ascii (true, false, false, false, false, true, true, false)),
    (String ((Ascii (false, true, false, false, true, true, true, false)),
    (String ((Ascii (true, false, true, false, false, true, true, false)),
    (String ((Ascii (false, false, true, false, false, true, true, false)),
    (String ((Ascii (false, false, true, false, false, false, true, false)),
    (String ((Ascii (true, false, false, false, false, true, true, false)),
    (String ((Ascii (false, false, true, false, true, true, true, false)),
    (String ((Ascii (true, false, false, false, false, true, true, false)),
    (String ((Ascii (false, false, true, false, false, false, true, false)),
    (String ((Ascii (true, false, false, true, false, true, true, false)),
    (String ((Ascii (false, true, false, false, true, true, true, false)),
    (String ((Ascii (true, true, false, false, true, false, true, false)),
    (String ((Ascii (true, false, true, false, false, true, true, false)),
    (String ((Ascii (true, true, false, false, false, true, true, false)),
    (String ((Ascii (true, false, true, false, true, true, true, false)),
    (String ((Ascii (false, true, false, false, true, true, true, false)),
    (String ((Ascii (true, false, true, false, false, true, true, false)),
    EmptyString))))))))))))))))))))))))))))))))))))))))))))))))))));
    site_prog = ((Strncpy SzN) :: ((IfPos ((PokeNul
    SzNm1) :: [])) :: [])) } :: ({ site_name = (String ((Ascii (false, true,
    false, false, true, false, true, false)), (String ((Ascii (true, false,
    false, true, false, true, true, false)), (String ((Ascii (true, false,
    true, true, false, true, true, false)), (String ((Ascii (true, false,
    true, false, false, true, true, false)), (String ((Ascii (true, true,
    true, false, false, false, true, false)), (String ((Ascii (true, false,
    true, false, false, true, true, false)), (String ((Ascii (false, false,
    true, false, true, true, true, false)), (String ((Ascii (true, true,
    false, false, true, false, true, false)), (String ((Ascii (false, false,
    true, false, true, true, true, false)), (String ((Ascii (true, false,
    false, false, false, true, true, false)), (String ((Ascii (true, true,
    true, false, false, true, true, false)), (String ((Ascii (true, false,
    false, true, false, true, true, false)), (String ((Ascii (false, true,
    true, true, false, true, true, false)), (String ((Ascii (true, true,
    true, false, false, true, true, false)), (String ((Ascii (false, false,
    true, false, false, false, true, false)), (String ((Ascii (true, false,
    false, true, false, true, true, false)), (String ((Ascii (false, true,
    false, false, true, true, true, false)), (String ((Ascii (true, true,
    false, false, true, false, true, false)), (String ((Ascii (true, false,
    true, false, false, true, true, false)), (String ((Ascii (true, true,
    false, false, false, true, true, false)), (String ((Ascii (true, false,
    true, false, true, true, true, false)), (String ((Ascii (false, true,
    false, false, true, true, true, false)), (String ((Ascii (true, false,
    true, false, false, true, true, false)),
    EmptyString)))))))))))))))))))))))))))))))))))))))))))))); site_prog =
    ((Strncpy SzN) :: ((IfPos ((PokeNul
    SzNm1) :: [])) :: [])) } :: ({ site_name = (String ((Ascii (false, true,
    false, false, true, false, true, false)), (String ((Ascii (true, false,
    false, true, false, true, true, false)), (String ((Ascii (true, false,
    true, true, false, true, true, false)), (String ((Ascii (true, false,
    true, false, false, true, true, false)), (String ((Ascii (true, true,
    true, false, false, false, true, false)), (String ((Ascii (true, false,
    true, false, false, true, true, false)), (String ((Ascii (false, false,
    true, false, true, true, true, false)), (String ((Ascii (true, true,
    false, false, true, false, true, false)), (String ((Ascii (true, false,
    false, true, true, true, true, false)), (String ((Ascii (false, true,
    true, true, false, true, true, false)), (String ((Ascii (true, true,
    false, false, false, true, true, false)), (String ((Ascii (false, false,
    true, false, false, false, true, false)), (String ((Ascii (true, false,
    false, true, false, true, true, false)), (String ((Ascii (false, true,
    false, false, true, true, true, false)), (String ((Ascii (true, true,
    false, false, true, false, true, false)), (String ((Ascii (true, false,
    true, false, false, true, true, false)), (String ((Ascii (true, true,
    false, false, false, true, true, false)), (String ((Ascii (true, false,
    true, false, true, true, true, false)), (String ((Ascii (false, true,
    false, false, true, true, true, false)), (String ((Ascii (true, false,
    true, false, false, true, true, false)),
    EmptyString)))))))))))))))))))))))))))))))))))))))); site_prog =
    ((Strncpy SzN) :: ((IfPos ((PokeNul
    SzNm1) :: [])) :: [])) } :: ({ site_name = (String ((Ascii (false, true,
    false, false, true, false, true, false)), (String ((Ascii (true, false,
    false, true, false, true, true, false)), (String ((Ascii (true, false,
    true, true, false, true, true, false)), (String ((Ascii (true, false,
    true, false, false, true, true, false)), (String ((Ascii (true, true,
    true, false, false, false, true, false)), (String ((Ascii (true, false,
    true, false, false, true, true, false)), (String ((Ascii (false, false,
    true, false, true, true, true, false)), (String ((Ascii (true, false,
    true, false, true, false, true, false)), (String ((Ascii (true, true,
    false, false, true, true, true, false)), (String ((Ascii (true, false,
    true, false, false, true, true, false)), (String ((Ascii (false, true,
    false, false, true, true, true, false)), (String ((Ascii (false, false,
    true, false, false, false, true, false)), (String ((Ascii (true, false,
    false, false, false, true, true, false)), (String ((Ascii (false, false,
    true, false, true, true, true, false)), (String ((Ascii (true, false,
    false, false, false, true, true, false)), (String ((Ascii (false, false,
    true, false, false, false, true, false)), (String ((Ascii (true, false,
    false, true, false, true, true, false)), (String ((Ascii (false, true,
    false, false, true, true, true, false)), (String ((Ascii (true, true,
    false, false, true, false, true, false)), (String ((Ascii (true, false,
    true, false, false, true, true, false)), (String ((Ascii (true, true,
    false, false, false, true, true, false)), (String ((Ascii (true, false,
    true, false, true, true, true, false)), (String ((Ascii (false, true,
    false, false, true, true, true, false)), (String ((Ascii (true, false,
    true, false, false, true, true, false)),
    EmptyString)))))))))))))))))))))))))))))))))))))))))))))))); site_prog =
    ((Strncpy SzN) :: ((IfPos ((PokeNul
    SzNm1) :: [])) :: [])) } :: ({ site_name = (String ((Ascii (false, true,
    false, false, true, false, true, false)), (String ((Ascii (true, false,
    false, true, false, true, true, false)), (String ((Ascii (true, false,
    true, true, false, true, true, false)), (String ((Ascii (true, false,
    true, false, false, true, true, false)), (String ((Ascii (true, true,
    true, false, false, false, true, false)), (String ((Ascii (true, false,
    true, false, false, true, true, false)), (String ((Ascii (false, false,
    true, false, true, true, true, false)), (String ((Ascii (true, false,
    true, false, true, false, true, false)), (String ((Ascii (true, true,
    false, false, true, true, true, false)), (String ((Ascii (true, false,
    true, false, false, true, true, false)), (String ((Ascii (false, true,
    false, false, true, true, true, false)), (String ((Ascii (false, false,
    true, false, false, false, true, false)), (String ((Ascii (true, false,
    false, false, false, true, true, false)), (String ((Ascii (false, false,
    true, false, true, true, true, false)), (String ((Ascii (true, false,
    false, false, false, true, true, false)), (String ((Ascii (true, true,
    false, false, true, false, true, false)), (String ((Ascii (true, false,
    false, true, true, true, true, false)), (String ((Ascii (false, true,
    true, true, false, true, true, false)), (String ((Ascii (true, true,
    false, false, false, true, true, false)), (String ((Ascii (false, false,
    true, false, false, false, true, false)), (String ((Ascii (true, false,
    false, true, false, true, true, false)), (String ((Ascii (false, true,
    false, false, true, true, true, false)),
    EmptyString)))))))))))))))))))))))))))))))))))))))))))); site_prog =
    ((Strncpy SzN) :: ((IfPos ((PokeNul SzNm1) :: [])) :: [])) } :: []))))))))
