(** Extraction of the Eng session model (ExtrOcamlBasic only); shared by the
    C05 and C02 checks (and the later C03/C04/C16/C01 ones). *)
From Coq Require Extraction.
From Coq Require ExtrOcamlBasic.
From RimeV Require Import Base.Bytes Eng.Keys Eng.Cand Eng.Segm Eng.Ctx Eng.Engine Eng.Trans Eng.Procs Eng.Api Eng.Oracle Eng.Spec.
Extraction "eng_model.ml" byte_of_N N_of_byte step init_state synth_cfg synth_punct_cfg synth_kb_cfg synth_ascii_cfg synth_acedit_cfg synth_translate oracle_translate
  buf_empty buf_step handled_spec wf_viewb wf_view_utf8b.
